// Package own builds sequences the way a caller with a reused buffer does: the slice handed to the
// constructor is the caller's and is overwritten as soon as the constructor has returned (the
// constructors copy what they are given; a sequence that still looks at the caller's buffer shows).
package own

import (
	"github.com/biogo/biogo/alphabet"
	"github.com/biogo/biogo/seq/linear"
)

// NewSeq is linear.NewSeq on a buffer that is scribbled on afterwards.
func NewSeq(id string, b []alphabet.Letter, a alphabet.Alphabet) *linear.Seq {
	s := linear.NewSeq(id, b, a)
	for i := range b {
		b[i] = '!'
	}
	return s
}

// NewQSeq is linear.NewQSeq on a buffer that is scribbled on afterwards.
func NewQSeq(id string, b []alphabet.QLetter, a alphabet.Alphabet, e alphabet.Encoding) *linear.QSeq {
	s := linear.NewQSeq(id, b, a, e)
	for i := range b {
		b[i] = alphabet.QLetter{L: '!', Q: 1}
	}
	return s
}
