// Package featgen holds plain-data BED/GFF records, writers and readers shared by
// the feature I/O checks (C02 round trip, C03 totality, C04 layout).
package featgen

import (
	"bytes"
	"fmt"
	"image/color"
	"io"
	"math"
	"reflect"
	"verif/h/own"

	"github.com/biogo/biogo/alphabet"
	"github.com/biogo/biogo/feat"
	"github.com/biogo/biogo/io/featio"
	"github.com/biogo/biogo/io/featio/bed"
	"github.com/biogo/biogo/io/featio/gff"
	"github.com/biogo/biogo/seq"
)

// Bed is a BED12 record in plain data; narrower types use its leading fields.
type Bed struct {
	Chrom       string `json:"chrom"`
	Start       int    `json:"start"`
	End         int    `json:"end"`
	Name        string `json:"name"`
	Score       int    `json:"score"`
	Strand      int    `json:"strand"`
	ThickStart  int    `json:"thickstart"`
	ThickEnd    int    `json:"thickend"`
	RGB         [4]int `json:"rgb"`
	BlockSizes  []int  `json:"blocksizes"`
	BlockStarts []int  `json:"blockstarts"`
}

// Make builds the real BED value of column count typ.
func (b Bed) Make(typ int) feat.Feature {
	switch typ {
	case 3:
		return &bed.Bed3{Chrom: b.Chrom, ChromStart: b.Start, ChromEnd: b.End}
	case 4:
		return &bed.Bed4{Chrom: b.Chrom, ChromStart: b.Start, ChromEnd: b.End, FeatName: b.Name}
	case 5:
		return &bed.Bed5{Chrom: b.Chrom, ChromStart: b.Start, ChromEnd: b.End, FeatName: b.Name, FeatScore: b.Score}
	case 6:
		return &bed.Bed6{Chrom: b.Chrom, ChromStart: b.Start, ChromEnd: b.End, FeatName: b.Name, FeatScore: b.Score, FeatStrand: seq.Strand(b.Strand)}
	case 12:
		return &bed.Bed12{Chrom: b.Chrom, ChromStart: b.Start, ChromEnd: b.End, FeatName: b.Name, FeatScore: b.Score, FeatStrand: seq.Strand(b.Strand),
			ThickStart: b.ThickStart, ThickEnd: b.ThickEnd, Rgb: color.RGBA{uint8(b.RGB[0]), uint8(b.RGB[1]), uint8(b.RGB[2]), uint8(b.RGB[3])},
			BlockCount: len(b.BlockSizes), BlockSizes: append([]int{}, b.BlockSizes...), BlockStarts: append([]int{}, b.BlockStarts...)}
	}
	panic("bed type")
}

// BedString renders the leading m columns of a parsed BED feature as plain data for comparison.
func BedString(f feat.Feature, m int) string {
	v := reflect.ValueOf(f)
	if v.Kind() == reflect.Ptr {
		if v.IsNil() {
			return "<nil>"
		}
		v = v.Elem()
	}
	s := v.Type().Name() + "{"
	for i := 0; i < v.NumField() && i < m; i++ {
		s += fmt.Sprintf("%s:%v ", v.Type().Field(i).Name, v.Field(i).Interface())
	}
	return s + "}"
}

// WriteBed writes records of type typ at column count width; checks byte counts.
func WriteBed(recs []Bed, typ, width int) ([]byte, error) {
	var buf bytes.Buffer
	w, err := bed.NewWriter(&buf, width)
	if err != nil {
		return nil, err
	}
	for i, r := range recs {
		before := buf.Len()
		n, err := w.Write(r.Make(typ))
		if err != nil {
			return nil, err
		}
		if n != buf.Len()-before {
			return nil, fmt.Errorf("BYTECOUNT record %d: Write returned %d, %d bytes were emitted", i, n, buf.Len()-before)
		}
	}
	return buf.Bytes(), nil
}

// Sink accepts Left more bytes and then fails; Got counts what it accepted.
type Sink struct{ Left, Got int }

var ErrSink = fmt.Errorf("sink full")

func (l *Sink) Write(p []byte) (int, error) {
	if len(p) <= l.Left {
		l.Left -= len(p)
		l.Got += len(p)
		return len(p), nil
	}
	n := l.Left
	l.Left = 0
	l.Got += n
	return n, ErrSink
}

// CountsUnderFailure writes the items to a sink that fails after limit bytes and returns a description of
// the first call whose returned count differs from what the sink accepted during that call ("" if none),
// and whether the sink failed at all.
func CountsUnderFailure(mk func(w *Sink) func(i int) (int, error), items, limit int) (string, bool) {
	sink := &Sink{Left: limit}
	write := mk(sink)
	for i := 0; i < items; i++ {
		before := sink.Got
		n, err := write(i)
		if n != sink.Got-before {
			return fmt.Sprintf("item %d: Write returned (%d, %v) but the sink accepted %d bytes during the call (sink fails after %d bytes)", i, n, err, sink.Got-before, limit), true
		}
		if err != nil {
			return "", true
		}
	}
	return "", false
}

// ReadFeatures reads until io.EOF or the first error, making at most limit calls.
func ReadFeatures(r featio.Reader, limit int) (fs []feat.Feature, calls int, err error) {
	for calls < limit {
		calls++
		f, e := r.Read()
		if e != nil {
			if e == io.EOF {
				return fs, calls, nil
			}
			return fs, calls, e
		}
		if f == nil || (reflect.ValueOf(f).Kind() == reflect.Ptr && reflect.ValueOf(f).IsNil()) {
			return fs, calls, fmt.Errorf("NILNIL: nil feature with nil error")
		}
		fs = append(fs, f)
	}
	return fs, calls, fmt.Errorf("NOEOF: no io.EOF within %d calls", limit)
}

// ---- GFF

type Attr struct {
	Tag   string `json:"tag"`
	Value string `json:"value"`
}

// Gff is one item of a GFF file in plain data: a feature, a sequence-region or an inline sequence.
type Gff struct {
	Kind     string `json:"kind"` // feature region seq
	SeqName  string `json:"seqname"`
	Source   string `json:"source,omitempty"`
	Feature  string `json:"feature,omitempty"`
	Start    int    `json:"start"`
	End      int    `json:"end"`
	HasScore bool   `json:"hasscore,omitempty"`
	Score    string `json:"score,omitempty"` // formatted with %v; "+Inf" etc. allowed
	Strand   int    `json:"strand,omitempty"`
	Frame    int    `json:"frame,omitempty"` // -1 none
	Attrs    []Attr `json:"attrs,omitempty"`
	Comments string `json:"comments,omitempty"`
	Moltype  string `json:"moltype,omitempty"` // seq: DNA RNA Protein
	Letters  string `json:"letters,omitempty"`
}

func parseScore(s string) float64 {
	switch s {
	case "+Inf":
		return math.Inf(1)
	case "-Inf":
		return math.Inf(-1)
	case "max":
		return math.MaxFloat64
	case "tiny":
		return 1e-300
	}
	var f float64
	fmt.Sscan(s, &f)
	return f
}

// Make builds the real value.
func (g Gff) Make() feat.Feature {
	switch g.Kind {
	case "feature":
		f := &gff.Feature{SeqName: g.SeqName, Source: g.Source, Feature: g.Feature, FeatStart: g.Start, FeatEnd: g.End,
			FeatStrand: seq.Strand(g.Strand), FeatFrame: gff.Frame(g.Frame), Comments: g.Comments}
		if g.HasScore {
			v := parseScore(g.Score)
			f.FeatScore = &v
		}
		for _, a := range g.Attrs {
			f.FeatAttributes = append(f.FeatAttributes, gff.Attribute{Tag: a.Tag, Value: a.Value})
		}
		return f
	case "region":
		return &gff.Region{Sequence: gff.Sequence{SeqName: g.SeqName}, RegionStart: g.Start, RegionEnd: g.End}
	case "seq":
		var a alphabet.Alphabet = alphabet.DNA
		switch g.Moltype {
		case "RNA":
			a = alphabet.RNA
		case "Protein":
			a = alphabet.Protein
		}
		return own.NewSeq(g.SeqName, alphabet.BytesToLetters([]byte(g.Letters)), a)
	}
	panic("gff kind")
}

// GffString renders a parsed GFF item as plain data for comparison (nil and empty attribute lists are equal).
func GffString(f feat.Feature) string {
	switch v := f.(type) {
	case *gff.Feature:
		if v == nil {
			return "<nil>"
		}
		sc := "nil"
		if v.FeatScore != nil {
			sc = fmt.Sprintf("%v/%016x", *v.FeatScore, math.Float64bits(*v.FeatScore))
		}
		at := ""
		for _, a := range v.FeatAttributes {
			at += fmt.Sprintf("[%q=%q]", a.Tag, a.Value)
		}
		return fmt.Sprintf("feature{%q %q %q [%d,%d) len=%d score=%s strand=%d frame=%d attrs=%s comments=%q}", v.SeqName, v.Source, v.Feature, v.Start(), v.End(), v.Len(), sc, v.FeatStrand, v.FeatFrame, at, v.Comments)
	case *gff.Region:
		if v == nil {
			return "<nil>"
		}
		return fmt.Sprintf("region{%q [%d,%d) len=%d}", v.SeqName, v.Start(), v.End(), v.Len())
	case seq.Sequence:
		b := make([]byte, 0, v.Len())
		for i := v.Start(); i < v.End(); i++ {
			b = append(b, byte(v.At(i).L))
		}
		return fmt.Sprintf("seq{%q %s %q}", v.Name(), v.Alphabet().Moltype(), b)
	}
	return fmt.Sprintf("%T{%v}", f, f)
}

// WriteGff writes the items; checks byte counts.
func WriteGff(items []Gff, width int, header bool) ([]byte, error) {
	var buf bytes.Buffer
	w := gff.NewWriter(&buf, width, header)
	for i, it := range items {
		before := buf.Len()
		n, err := w.Write(it.Make())
		if err != nil {
			return nil, err
		}
		if n != buf.Len()-before {
			return nil, fmt.Errorf("BYTECOUNT item %d: Write returned %d, %d bytes were emitted", i, n, buf.Len()-before)
		}
	}
	return buf.Bytes(), nil
}
