module verif/h

go 1.23

require github.com/biogo/biogo v0.0.0

require (
	github.com/biogo/graph v0.0.0-20150317020928-057c1989faed // indirect
	github.com/biogo/store v0.0.0-20200104231603-2c6ad937eb83 // indirect
)

replace github.com/biogo/biogo => /repo
