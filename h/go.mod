module verif/h

go 1.23

require github.com/biogo/biogo v0.0.0

replace github.com/biogo/biogo => /repo
