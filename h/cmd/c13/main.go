// C13: I/O failures are never hidden; no temporary residue.
package main

import (
	"encoding/json"
	"fmt"
	"io"
	"os"
	"path/filepath"
	"sync/atomic"
	"time"

	"github.com/biogo/biogo/morass"

	"github.com/biogo/biogo/verifrt/vrt"
	"verif/h/conc"
	"verif/h/enum"
	"verif/h/mdrv"
)

func drivers(quick bool) []conc.Driver {
	budget := 90 * time.Second
	faults := 1
	if !quick {
		budget = 10 * time.Minute
	}
	cfg := vrt.Config{PreemptBound: -1, Budget: budget, MaxFaults: faults}
	scs := []mdrv.Scenario{
		{Chunk: 1, Concurrent: false, Cycles: []int{3}, Faults: true},
		{Chunk: 2, Concurrent: false, Cycles: []int{5}, Faults: true},
		{Chunk: 1, Concurrent: true, Cycles: []int{2}, Faults: true},
		{Chunk: 2, Concurrent: true, Cycles: []int{3}, Faults: true},
		{Chunk: 2, Concurrent: false, Cycles: []int{3}, Faults: true, After: 16}, // another, larger sorter lived before
		{Chunk: 2, Concurrent: false, Cycles: []int{5}, Faults: true, Hit: true}, // the library's own element type, negative and large diagonals
		{Chunk: 40, Concurrent: false, Cycles: []int{41}, Faults: true},          // runs of tens and of hundreds of records: a fault at every one of their file operations
	}
	if !quick {
		scs = append(scs, mdrv.Scenario{Chunk: 301, Concurrent: false, Cycles: []int{302}, Faults: true}) // some 2 500 fault placements of a thousand steps each
	}
	if !quick {
		scs = append(scs,
			mdrv.Scenario{Chunk: 1, Concurrent: true, Cycles: []int{3}, Faults: true},
			mdrv.Scenario{Chunk: 2, Concurrent: true, Cycles: []int{5}, Faults: true},
			mdrv.Scenario{Chunk: 1, Concurrent: true, Cycles: []int{2, 2}, Faults: true},
		)
	}
	var ds []conc.Driver
	{
		// two faults, the second in a cycle that follows a failed and cleared one
		s := mdrv.Scenario{Chunk: 1, Concurrent: false, Cycles: []int{2, 2}, Faults: true, Continue: true}
		cfg2 := cfg
		cfg2.MaxFaults = 2
		ds = append(ds, conc.Driver{Name: s.Name() + "-faults2", Cfg: cfg2, Mk: func() vrt.Run { return s.Mk() }, Fallback: []int{0, 1, 2, 3, 4}})
	}
	for _, s := range []mdrv.Scenario{
		// a failed and cleared cycle, then an ordinary one drained under AutoClear: no run file may be left
		{Chunk: 1, Concurrent: false, Cycles: []int{2, 2}, Faults: true, Continue: true, AutoClear: true, Residue: true},
		{Chunk: 1, Concurrent: true, Cycles: []int{2, 1}, Faults: true, Continue: true, AutoClear: true, Residue: true},
	} {
		s := s
		ds = append(ds, conc.Driver{Name: s.Name() + "-faults1", Cfg: cfg, Mk: func() vrt.Run { return s.Mk() }, Fallback: []int{0, 1, 2, 3, 4}})
	}
	{
		// chunk sizes in the thousands (a buffer that is not allocated at its full size at once): one value more
		// than a chunk, ONE schedule, no fault - every call succeeds, so every value must come back
		for _, chunk := range []int{1000, 4097, 5000} {
			s := mdrv.Scenario{Chunk: chunk, Concurrent: false, Cycles: []int{chunk + 1, chunk + chunk/50}}
			cfg0 := vrt.Config{PreemptBound: -1, Budget: budget, Canonical: true, Horizon: 2000000}
			ds = append(ds, conc.Driver{Name: s.Name() + "-canonical", Cfg: cfg0, Mk: func() vrt.Run { return s.Mk() }})
		}
	}
	for _, s := range scs {
		s := s
		ds = append(ds, conc.Driver{Name: s.Name() + "-faults1", Cfg: cfg, Mk: func() vrt.Run { return s.Mk() }, Fallback: []int{0, 1, 2, 3, 4}})
	}
	if !quick {
		cfg2 := cfg
		cfg2.MaxFaults = 2
		for _, s := range scs[:3] {
			s := s
			ds = append(ds, conc.Driver{Name: s.Name() + "-faults2", Cfg: cfg2, Mk: func() vrt.Run { return s.Mk() }, Fallback: []int{0, 1, 2, 3, 4}})
		}
	}
	return ds
}

// ---- residue: every cycle history (depth <= 2 cycles) x AutoClear x AutoClean on the real directory

type resCase struct {
	Kind      string `json:"kind"` // marks the replay input as a residue case
	Chunk     int    `json:"chunk"`
	AutoClear bool   `json:"autoclear"`
	AutoClean bool   `json:"autoclean"`
	Conc      bool   `json:"concurrent"`
	Pushes    []int  `json:"pushes"` // values pushed per cycle
	Pulls     []int  `json:"pulls"`  // pulls attempted per cycle (pushes+1 = drained to EOF)
	CleanUp   bool   `json:"cleanup"`
}

func listDir(d string) (dirs []string, files int) {
	es, _ := os.ReadDir(d)
	for _, e := range es {
		if e.IsDir() {
			dirs = append(dirs, filepath.Join(d, e.Name()))
			sub, _ := os.ReadDir(filepath.Join(d, e.Name()))
			files += len(sub)
		}
	}
	return
}

func residue(c *enum.Ctx, k resCase, parent string) (spilled bool) {
	os.RemoveAll(parent)
	os.MkdirAll(parent, 0o755)
	defer os.RemoveAll(parent)
	m, err := morass.New(mdrv.IV(0), "res", parent, k.Chunk, k.Conc)
	if err != nil {
		return false
	}
	m.AutoClear, m.AutoClean = k.AutoClear, k.AutoClean
	drainedLast := false
	for ci := range k.Pushes {
		for i := k.Pushes[ci]; i > 0; i-- {
			if m.Push(mdrv.IV(i)) != nil {
				return
			}
		}
		if m.Finalise() != nil {
			return
		}
		if _, files := listDir(parent); files > 0 {
			spilled = true
		}
		drainedLast = false
		for i := 0; i < k.Pulls[ci]; i++ {
			var v mdrv.IV
			if err := m.Pull(&v); err == io.EOF {
				drainedLast = true
				break
			} else if err != nil {
				return
			}
		}
		if drainedLast {
			dirs, files := listDir(parent)
			if k.AutoClean && len(dirs) > 0 {
				c.Fail(fmt.Sprintf("residue/autoclean-dir-left/spilled=%v", spilled), k, "AutoClean sorter drained to EOF in cycle %d but its directory %v still exists", ci, dirs)
				return
			}
			if k.AutoClear && files > 0 {
				c.Fail("residue/autoclear-files-left", k, "AutoClear sorter drained to EOF in cycle %d but %d run files remain", ci, files)
				return
			}
			if k.AutoClean {
				return spilled // the sorter is not usable after its directory is gone
			}
		}
		if ci < len(k.Pushes)-1 && !(drainedLast && k.AutoClear) {
			if m.Clear() != nil {
				return
			}
		}
	}
	if k.CleanUp {
		m.CleanUp()
		if dirs, _ := listDir(parent); len(dirs) > 0 {
			c.Fail("residue/cleanup-dir-left", k, "directory %v exists after CleanUp", dirs)
		}
	} else {
		m.CleanUp()
	}
	return spilled
}

func residueAll(c *enum.Ctx) {
	work := os.Getenv("VERIF_WORK")
	if work == "" {
		work = os.TempDir()
	}
	var cases []resCase
	for _, chunk := range []int{1, 2, 3} {
		counts := []int{0, 1, chunk - 1, chunk, chunk + 1, 2*chunk + 1}
		seen := map[int]bool{}
		var cs []int
		for _, n := range counts {
			if n >= 0 && !seen[n] {
				seen[n] = true
				cs = append(cs, n)
			}
		}
		for _, conc := range []bool{false, true} {
			for _, ac := range []bool{false, true} {
				for _, an := range []bool{false, true} {
					for _, cu := range []bool{false, true} {
						for _, p1 := range cs {
							for _, q1 := range []int{0, p1 / 2, p1, p1 + 1} {
								cases = append(cases, resCase{"residue", chunk, ac, an, conc, []int{p1}, []int{q1}, cu})
								for _, p2 := range cs {
									for _, q2 := range []int{0, p2 + 1} {
										cases = append(cases, resCase{"residue", chunk, ac, an, conc, []int{p1, p2}, []int{q1, q2}, cu})
									}
								}
							}
						}
					}
				}
			}
		}
	}
	// the size ladder of the run count: 2^k-1, 2^k, 2^k+1 (also 3*2^k, 10^j-1, 10^j, 10^j+1, 5*10^j) run files (15..513) at chunk size 1, one and two cycles
	for _, n := range enum.Ladder(15, 513) {
		for _, conc := range []bool{false, true} {
			for _, ac := range []bool{false, true} {
				cases = append(cases, resCase{"residue", 1, ac, !ac, conc, []int{n}, []int{n + 1}, true})
				cases = append(cases, resCase{"residue", 1, ac, false, conc, []int{n, 3}, []int{n + 1, 4}, n%2 == 0})
			}
		}
	}
	var spills atomic.Int64
	enum.Parallel(16, func(sh int) {
		parent := filepath.Join(work, fmt.Sprintf("residue-%d", sh))
		for i := sh; i < len(cases); i += 16 {
			c.Eval()
			if residue(c, cases[i], parent) {
				spills.Add(1)
				c.Nontrivial(enum.J(cases[i]))
			}
		}
	})
	c.Set("residue_histories", len(cases))
	c.Set("residue_histories_that_spilled", spills.Load())
	c.Sample(cases[len(cases)/2])
}

func main() {
	conc.Extra = residueAll
	conc.ExtraReplay = func(c *enum.Ctx, in json.RawMessage) bool {
		var k resCase
		if json.Unmarshal(in, &k) != nil || k.Kind != "residue" {
			return false
		}
		fmt.Printf("residue case %+v\n", k)
		residue(c, k, filepath.Join(os.TempDir(), "residue-replay"))
		return true
	}
	mdrv.Warm()
	conc.Main("C13", "fault_enumeration", drivers, func(c *enum.Ctx) {
		c.Rule("every I/O operation (temp-file creation, each gob write, sync, seek, each read) of each workload answered once with a distinct sentinel error (thorough: every pair), crossed with every interleaving of caller and writers (happens-before exhaustive); distinct = (driver, fault site, observable outcome); non-trivial = executions with at least one injected fault")
		c.Assume("faults are whole-operation errors (no short writes, no crashes)", "Close/Remove are not faulted (the property does not name them)")
	})
}
