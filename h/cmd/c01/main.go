// C01: FASTA and FASTQ write-then-read reproduces every record.
package main

import (
	"bytes"
	"encoding/json"
	"fmt"
	"io"
	"math"
	"runtime/debug"
	"strings"
	"testing/iotest"
	_ "verif/h/duoc"

	"github.com/biogo/biogo/alphabet"
	"github.com/biogo/biogo/io/seqio"
	"github.com/biogo/biogo/io/seqio/fasta"
	"github.com/biogo/biogo/io/seqio/fastq"
	"verif/h/enum"
	"verif/h/featgen"
	"verif/h/seqgen"
)

type kase struct {
	Format  string       `json:"format"` // fasta fastq
	Recs    []seqgen.Rec `json:"recs"`
	Q       bool         `json:"qseq"`    // linear.QSeq instead of linear.Seq
	Protein bool         `json:"protein"` // FASTA only
	Width   int          `json:"width"`   // FASTA
	QID     bool         `json:"qid"`     // FASTQ
	Enc     int          `json:"enc"`     // FASTQ
	Feed    int          `json:"feed"`    // 0 whole, 1 one byte at a time, 2 data+EOF together
	LongLen int          `json:"longlen,omitempty"`
	Widths  []int        `json:"widths,omitempty"` // FASTA: the writer's exported Width is set to Widths[i] before record i is written
}

func feed(data []byte, mode int) io.Reader {
	switch mode {
	case 1:
		return iotest.OneByteReader(bytes.NewReader(data))
	case 2:
		return iotest.DataErrReader(bytes.NewReader(data))
	}
	return bytes.NewReader(data)
}

func check(c *enum.Ctx, k kase) {
	if k.LongLen > 0 { // replayed long-record cases carry only the length
		alpha := "acNg-t"
		for i := range k.Recs {
			if k.Recs[i].Letters == "" {
				k.Recs[i].Letters = seqgen.Fill(alpha, k.LongLen)
				if k.Format == "fastq" {
					qa := seqgen.QualAlphabet(alphabet.Encoding(k.Enc))
					k.Recs[i].Quals = make([]int, k.LongLen)
					for j := range k.Recs[i].Quals {
						k.Recs[i].Quals[j] = qa[(j*5+j/3)%len(qa)]
					}
				}
			}
		}
	}
	fail := func(class, f string, a ...interface{}) {
		kk := k
		if k.LongLen > 0 {
			kk.Recs = append([]seqgen.Rec{}, k.Recs...)
			for i := range kk.Recs {
				if len(kk.Recs[i].Letters) == k.LongLen {
					kk.Recs[i].Letters, kk.Recs[i].Quals = "", nil
				}
			}
		}
		c.Fail(k.Format+"/"+class, kk, "%s", fmt.Sprintf(f, a...))
	}
	var text []byte
	var err error
	enc := alphabet.Encoding(k.Enc)
	withQ := k.Format == "fastq" && k.Q
	if c.Guard(k.Format+"/write-panic", k, func() {
		if k.Format == "fasta" && len(k.Widths) > 0 {
			var buf bytes.Buffer
			w := fasta.NewWriter(&buf, k.Widths[0])
			for i, r := range k.Recs {
				w.Width = k.Widths[i%len(k.Widths)]
				before := buf.Len()
				n, werr := w.Write(seqgen.Make(r, k.Q, k.Protein, alphabet.Sanger))
				if werr == nil && n != buf.Len()-before {
					werr = fmt.Errorf("BYTECOUNT record %d: Write returned %d, %d bytes were emitted", i, n, buf.Len()-before)
				}
				if werr != nil {
					err = werr
					break
				}
			}
			text = buf.Bytes()
		} else if k.Format == "fasta" {
			text, err = seqgen.WriteFasta(k.Recs, k.Q, k.Protein, k.Width)
		} else {
			text, err = seqgen.WriteFastq(k.Recs, k.Q, enc, k.QID)
		}
	}) {
		return
	}
	if err != nil {
		if strings.HasPrefix(err.Error(), "BYTECOUNT") {
			fail("byte-count", "%v", err)
		} else {
			fail("write-error", "%v", err)
		}
		return
	}
	// byte counts when the sink fails: for every number of bytes the sink accepts before failing, each
	// Write reports what was emitted during that call
	if len(text) <= 300 && k.Width < 1<<20 { // (not at the extreme widths: a writer may size a buffer by the width, once per writer)
		for limit := 0; limit < len(text); limit++ {
			msg, _ := featgen.CountsUnderFailure(func(sk *featgen.Sink) func(int) (int, error) {
				if k.Format == "fasta" {
					w := fasta.NewWriter(sk, k.Width)
					return func(i int) (int, error) { return w.Write(seqgen.Make(k.Recs[i], k.Q, k.Protein, alphabet.Sanger)) }
				}
				w := fastq.NewWriter(sk)
				w.QID = k.QID
				return func(i int) (int, error) { return w.Write(seqgen.Make(k.Recs[i], k.Q, false, enc)) }
			}, len(k.Recs), limit)
			if msg != "" {
				fail("byte-count/failing-sink", "%s (text %q)", msg, clip(text))
				break
			}
		}
	}
	var got []seqgen.Rec
	comp := seqgen.NewCompanion(k.Format) // a second reader, of another configuration, alive and advanced alternately
	if c.Guard(k.Format+"/read-panic", k, func() {
		var rd seqio.Reader
		if k.Format == "fasta" {
			rd = fasta.NewReader(feed(text, k.Feed), seqgen.Template(k.Q, k.Protein, enc))
		} else {
			rd = fastq.NewReader(feed(text, k.Feed), seqgen.Template(k.Q, false, enc))
		}
		got, _, err = seqgen.ReadAllWith(rd, comp, withQ, len(k.Recs)+2)
	}) {
		return
	}
	if msg := comp.Verdict(); msg != "" {
		fail("interference", "%s (while reading %q)", msg, clip(text))
	}
	if err != nil {
		fail("read-error", "reading back %q: %v", clip(text), err)
		return
	}
	want := k.Recs
	if msg := seqgen.Same(got, want, withQ); msg != "" {
		fail("round-trip", "%s (text %q)", msg, clip(text))
	}
}

func clip(b []byte) string {
	if len(b) > 120 {
		return string(b[:120]) + "..."
	}
	return string(b)
}

func run(c *enum.Ctx) {
	c.Rule("record set R = 36 name x description combinations (names \"\", a, >, @x, +, a>b@+; descriptions \"\", d, 'two words', >, @, +x) x letters from every string of length 0..3 (thorough 4) over {a,c,N,-} (protein {a,w,*}); all lists of <=2 (thorough 3, reduced) records; boundary lengths 4095..12289 with position dependent fill; FASTA widths {1,2,3,7,60,4096,4097,10000} and, on a few records one at a time, {2^31-1, 2^31, 2^32+1, MaxInt64-1, MaxInt64}; one writer whose exported Width changes from record to record x Seq/QSeq x DNA/protein; FASTQ x QID on/off x 5 Phred-offset encodings x quality vectors over {lowest, '@'-producing, '+'-producing, highest}; reader fed whole, one byte at a time, and with data+EOF together; every file is read alternately with a companion reader of another configuration (FASTA: a 5000-letter line and width-3 wrapping; FASTQ: a Solexa-encoded file), which must read its own records; non-trivial = lists with >= 1 record")
	c.Assume("names without whitespace, single-line trimmed descriptions, sequences at offset 0", "Illumina1_5 scores start at 2 (its printable range)", "FASTA does not carry qualities; FASTQ with a plain template carries letters only")
	maxL := 3
	if !c.Quick {
		maxL = 4
	}
	var heads [][2]string
	for _, n := range seqgen.Names {
		for _, d := range seqgen.Descs {
			heads = append(heads, [2]string{n, d})
		}
	}
	var dnaWords, protWords []string
	enum.Strings("acN-", 0, maxL, func(s []byte) { dnaWords = append(dnaWords, string(s)) })
	enum.Strings("aw*", 0, maxL, func(s []byte) { protWords = append(protWords, string(s)) })
	// ("any positive line width": the largest int and its neighbourhood, 2^31 and 2^32 and theirs)
	widths := []int{1, 2, 3, 7, 60, 4096, 4097, 10000}
	var cases []kase
	// FASTA
	for _, prot := range []bool{false, true} {
		words := dnaWords
		if prot {
			words = protWords
		}
		// reduced record set for lists
		var R []seqgen.Rec
		for i, h := range heads {
			R = append(R, seqgen.Rec{Name: h[0], Desc: h[1], Letters: words[(i*5)%len(words)]})
		}
		for _, q := range []bool{false, true} {
			for _, w := range widths {
				if w > 7 && w != 60 && q {
					continue
				}
				cases = append(cases, kase{Format: "fasta", Q: q, Protein: prot, Width: w})
				for i, wd := range words {
					h := heads[i%len(heads)]
					for fd := 0; fd < 3; fd++ {
						cases = append(cases, kase{Format: "fasta", Recs: []seqgen.Rec{{Name: h[0], Desc: h[1], Letters: wd}}, Q: q, Protein: prot, Width: w, Feed: fd})
					}
				}
				if w <= 3 || w == 60 {
					for i := range R {
						for j := range R {
							if (i+j)%3 != 0 && c.Quick {
								continue
							}
							cases = append(cases, kase{Format: "fasta", Recs: []seqgen.Rec{R[i], R[j]}, Q: q, Protein: prot, Width: w, Feed: (i + j) % 3})
							if !c.Quick && (i+2*j)%7 == 0 {
								cases = append(cases, kase{Format: "fasta", Recs: []seqgen.Rec{R[i], R[j], R[(i+j)%len(R)]}, Q: q, Protein: prot, Width: w})
							}
						}
					}
				}
			}
		}
		for _, n := range []int{4095, 4096, 4097, 8191, 8192, 8193, 12289} {
			for _, w := range widths {
				for fd := 0; fd < 3; fd++ {
					if fd == 1 && w < 60 {
						continue
					}
					cases = append(cases, kase{Format: "fasta", Recs: []seqgen.Rec{{Name: "long", Desc: "x y"}, {Name: "b", Letters: "ac"}}, Protein: prot && false, Width: w, Feed: fd, LongLen: n})
				}
			}
		}
	}
	// header lines longer than any internal buffer
	longDesc := strings.Repeat("long description ", 300) + "end"
	longName := strings.Repeat("n", 4097)
	for _, w := range []int{3, 60, 5000} {
		for fd := 0; fd < 3; fd++ {
			cases = append(cases, kase{Format: "fasta", Recs: []seqgen.Rec{{Name: "a", Desc: longDesc, Letters: "acN"}, {Name: longName, Desc: "d", Letters: "ca"}}, Width: w, Feed: fd})
		}
	}
	for _, qid := range []bool{false, true} {
		for fd := 0; fd < 3; fd++ {
			cases = append(cases, kase{Format: "fastq", Recs: []seqgen.Rec{{Name: "a", Desc: longDesc, Letters: "acN", Quals: []int{1, 31, 10}}, {Name: longName, Desc: "d", Letters: "ca", Quals: []int{40, 2}}}, Q: true, QID: qid, Enc: int(alphabet.Sanger), Feed: fd})
		}
	}
	// FASTQ
	for _, e := range seqgen.Encodings {
		qa := seqgen.QualAlphabet(e)
		for _, qid := range []bool{false, true} {
			for _, q := range []bool{true, false} {
				cases = append(cases, kase{Format: "fastq", Q: q, QID: qid, Enc: int(e)})
				var R []seqgen.Rec
				for i, wd := range dnaWords {
					h := heads[i%len(heads)]
					// every quality vector over the 4 scores for short words, a rotation for longer ones
					var qvs [][]int
					if len(wd) <= 2 {
						enum.Product(repeat(4, len(wd)), func(ix []int) {
							v := make([]int, len(ix))
							for j, x := range ix {
								v[j] = qa[x]
							}
							qvs = append(qvs, v)
						})
					} else {
						for r := 0; r < 4; r++ {
							v := make([]int, len(wd))
							for j := range v {
								v[j] = qa[(j+r)%4]
							}
							qvs = append(qvs, v)
						}
					}
					for vi, qv := range qvs {
						rec := seqgen.Rec{Name: h[0], Desc: h[1], Letters: wd, Quals: qv}
						if !q {
							rec.Quals = nil
						}
						cases = append(cases, kase{Format: "fastq", Recs: []seqgen.Rec{rec}, Q: q, QID: qid, Enc: int(e), Feed: (i + vi) % 3})
						if vi == 0 && i%3 == 0 {
							R = append(R, rec)
						}
					}
				}
				for i := range R {
					for j := range R {
						if (i+j)%4 != 0 && c.Quick {
							continue
						}
						cases = append(cases, kase{Format: "fastq", Recs: []seqgen.Rec{R[i], R[j]}, Q: q, QID: qid, Enc: int(e), Feed: (i + j) % 3})
					}
				}
				for _, n := range []int{4095, 4096, 4097, 8192, 8193} {
					cases = append(cases, kase{Format: "fastq", Recs: []seqgen.Rec{{Name: "long", Desc: "x y"}, {Name: "b", Letters: "ac", Quals: []int{qa[0], qa[3]}}}, Q: q, QID: qid, Enc: int(e), LongLen: n, Feed: n % 3})
				}
			}
		}
	}
	// one writer whose Width is changed from record to record
	for _, ws := range [][]int{{3, 60}, {60, 3}, {1, 2, 3}, {7, 2, 7}, {4096, 5}} {
		for _, q := range []bool{false, true} {
			recs := []seqgen.Rec{{Name: "a", Desc: "d", Letters: "acN-acNacN-acN-a"}, {Name: "b", Letters: "cNa-acN-acNN"}, {Name: "c", Desc: "x y", Letters: "Nac-acNcca-acN-acN"}}
			cases = append(cases, kase{Format: "fasta", Recs: recs, Q: q, Width: ws[0], Widths: ws})
		}
	}
	c.Set("cases", len(cases))
	// "any positive line width": the largest int and its neighbourhood, 2^31 and 2^32 and theirs - a few
	// records each, one at a time (a writer may size a buffer by the width)
	for _, w := range []int{1<<31 - 1, 1 << 31, 1<<32 + 1, math.MaxInt64 - 1, math.MaxInt64} {
		for _, recs := range [][]seqgen.Rec{{{Name: "e"}}, {{Name: "a", Desc: "d", Letters: "a"}}, {{Name: "a", Letters: "acN-acN"}, {Name: "b", Desc: "two words", Letters: "cc"}}} {
			k := kase{Format: "fasta", Recs: recs, Width: w}
			c.Doing(0, k)
			c.Eval()
			check(c, k)
			c.Nontrivial(enum.J(k))
			debug.FreeOSMemory()
		}
	}
	enum.Parallel(16, func(sh int) {
		nt := enum.NontrivialSet{}
		for i := sh; i < len(cases); i += 16 {
			c.Doing(sh, cases[i])
			c.Eval()
			check(c, cases[i])
			if len(cases[i].Recs) > 0 {
				nt.Add(enum.J(cases[i]))
			}
			if i%50021 == 7 {
				c.Sample(cases[i])
			}
		}
		c.Merge(nt)
	})
}

func repeat(v, n int) []int {
	out := make([]int, n)
	for i := range out {
		out[i] = v
	}
	return out
}

func main() {
	enum.Main("C01", "exploration", run, func(c *enum.Ctx, in json.RawMessage) {
		var k kase
		if err := json.Unmarshal(in, &k); err != nil {
			panic(err)
		}
		fmt.Printf("case %s\n", enum.J(k))
		check(c, k)
	})
}
