// C10: the k-mer index returns exactly the occurrences of every k-mer.
package main

import (
	"encoding/json"
	"fmt"
	"math"
	"sort"
	"strings"
	_ "verif/h/duoc"
	"verif/h/own"

	"github.com/biogo/biogo/alphabet"
	"github.com/biogo/biogo/index/kmerindex"
	"verif/h/enum"
	"verif/h/seqgen"
)

type kase struct {
	Kind string `json:"kind"` // index, word
	K    int    `json:"k"`
	Seq  string `json:"seq,omitempty"`
	RNA  bool   `json:"rna,omitempty"`
	Word int    `json:"word,omitempty"`
}

func code(b byte, rna bool) int {
	switch b | 0x20 {
	case 'a':
		return 0
	case 'c':
		return 1
	case 'g':
		return 2
	case 't':
		if !rna {
			return 3
		}
	case 'u':
		if rna {
			return 3
		}
	}
	return -1
}

// windows returns, for every position with a fully valid k-window, its word value.
func windows(s string, k int, rna bool) map[int]int {
	out := map[int]int{}
	for p := 0; p+k <= len(s); p++ {
		w, ok := 0, true
		for i := 0; i < k; i++ {
			c := code(s[p+i], rna)
			if c < 0 {
				ok = false
				break
			}
			w = w<<2 | c
		}
		if ok {
			out[p] = w
		}
	}
	return out
}

func wordString(w, k int, rna bool) string {
	b := make([]byte, k)
	letters := "acgt"
	if rna {
		letters = "acgu"
	}
	for i := k - 1; i >= 0; i-- {
		b[i] = letters[w&3]
		w >>= 2
	}
	return string(b)
}

func sorted(p []int) []int {
	q := append([]int{}, p...)
	sort.Ints(q)
	return q
}

// foreign: sequences iterated through an index built over another sequence.
var foreign = []string{
	"ttgacagattacaggatcc",
	"acgtnacgt-aaccNggtt*acgtacgt",
	"ACGTacgtTTGACAgattaca",
	"acgtacgt\x80acgtacgt\xffacgtacg\x00tacgtac",
}

func checkIndex(c *enum.Ctx, k kase) {
	fail := func(class, f string, a ...interface{}) { c.Fail(class, k, "%s", fmt.Sprintf(f, a...)) }
	var al alphabet.Alphabet = alphabet.DNA
	if k.RNA {
		al = alphabet.RNA
	}
	s := own.NewSeq("s", alphabet.BytesToLetters([]byte(k.Seq)), al)
	ki, err := kmerindex.New(k.K, s)
	if err != nil {
		fail("New", "New(%d, %q) = %v", k.K, k.Seq, err)
		return
	}
	win := windows(k.Seq, k.K, k.RNA)
	byWord := map[int][]int{}
	for p := 0; p < len(k.Seq); p++ {
		if w, ok := win[p]; ok {
			byWord[w] = append(byWord[w], p)
		}
	}
	// the raw frequency table before Build, read before anything else has looked at the index
	if nw := 1 << (2 * uint(k.K)); nw <= 4096 {
		fg := ki.Finger()
		if len(fg) < nw {
			fail("Finger/before-build", "Finger() has %d entries straight after New, there are %d words", len(fg), nw)
		}
		for w := 0; w < nw; w++ {
			if got := ki.FingerAt(w); got != len(byWord[w]) {
				fail("FingerAt/before-build", "FingerAt(%s) = %d straight after New, the word occurs %d times in %q", wordString(w, k.K, k.RNA), got, len(byWord[w]), k.Seq)
				break
			}
			if w < len(fg) && int(fg[w]) != len(byWord[w]) {
				fail("Finger/before-build", "Finger()[%s] = %d straight after New, the word occurs %d times in %q", wordString(w, k.K, k.RNA), fg[w], len(byWord[w]), k.Seq)
				break
			}
		}
	}
	// frequencies before Build
	freq, ok := ki.KmerFrequencies()
	if !ok {
		fail("KmerFrequencies", "not available before Build")
		return
	}
	if nf, ok := ki.NormalisedKmerFrequencies(); !ok || len(nf) != len(byWord) {
		fail("NormalisedKmerFrequencies", "%d words in the normalised table (ok=%v), %d occur in %q", len(nf), ok, len(byWord), k.Seq)
	} else {
		for w, ps := range byWord {
			if want := float64(len(ps)) / float64(len(k.Seq)); nf[kmerindex.Kmer(w)] != want {
				fail("NormalisedKmerFrequencies", "normalised frequency of %s is %v, it occurs %d times in %d letters", wordString(w, k.K, k.RNA), nf[kmerindex.Kmer(w)], len(ps), len(k.Seq))
				break
			}
		}
	}
	if len(freq) != len(byWord) {
		fail("KmerFrequencies", "%d distinct k-mers in the table, %d occur in %q", len(freq), len(byWord), k.Seq)
	}
	for w, ps := range byWord {
		if freq[kmerindex.Kmer(w)] != len(ps) {
			fail("KmerFrequencies", "frequency of %s is %d, it occurs %d times in %q", wordString(w, k.K, k.RNA), freq[kmerindex.Kmer(w)], len(ps), k.Seq)
		}
	}
	// callbacks over every sub-range (long sequences of the size ladder: ranges that start or end within
	// k of either end or of a power of two, against each other)
	edge := func(p int) bool {
		if len(k.Seq) <= 64 || p <= k.K+1 || p >= len(k.Seq)-k.K-1 {
			return true
		}
		for b := 64; b <= len(k.Seq); b *= 2 {
			if p >= b-k.K-1 && p <= b+1 {
				return true
			}
		}
		return false
	}
	for start := 0; start <= len(k.Seq); start++ {
		if !edge(start) {
			continue
		}
		for end := start; end <= len(k.Seq); end++ {
			if !edge(end) {
				continue
			}
			var got [][2]int
			err := ki.ForEachKmerOf(s, start, end, func(_ *kmerindex.Index, pos, kmer int) { got = append(got, [2]int{pos, kmer}) })
			var want [][2]int
			for p := start; p+k.K <= end; p++ {
				if w, ok := win[p]; ok {
					want = append(want, [2]int{p, w})
				}
			}
			if end-start < k.K {
				if len(got) != 0 {
					fail("ForEachKmerOf/short-range-callback", "range [%d,%d) of %q cannot hold a %d-mer but the callback was called with %v", start, end, k.Seq, k.K, got)
				}
				continue
			}
			if err != nil {
				fail("ForEachKmerOf/error", "range [%d,%d) of %q: %v", start, end, k.Seq, err)
				continue
			}
			if fmt.Sprint(got) != fmt.Sprint(want) {
				fail("ForEachKmerOf/windows", "range [%d,%d) of %q (k=%d): callbacks %v, valid windows %v", start, end, k.Seq, k.K, got, want)
			}
			// a callback that looks at the index it was handed: on its second call it starts a traversal of
			// its own (as many letters, from the head of the sequence) on that index; the outer traversal goes on as if nothing had been
			if len(want) >= 2 && (start+end)%3 == 0 {
				var outer, inner [][2]int
				n := 0
				ki.ForEachKmerOf(s, start, end, func(ix *kmerindex.Index, pos, kmer int) {
					outer = append(outer, [2]int{pos, kmer})
					if n++; n == 2 {
						ix.ForEachKmerOf(s, 0, end-start, func(_ *kmerindex.Index, p, w int) { inner = append(inner, [2]int{p, w}) })
					}
				})
				var wantInner [][2]int
				for p := 0; p+k.K <= end-start; p++ {
					if w, ok := win[p]; ok {
						wantInner = append(wantInner, [2]int{p, w})
					}
				}
				if fmt.Sprint(outer) != fmt.Sprint(want) || fmt.Sprint(inner) != fmt.Sprint(wantInner) {
					fail("ForEachKmerOf/nested", "range [%d,%d) of %q (k=%d) with a callback that traverses [0,%d) on the same index at its second call: outer callbacks %v (valid windows %v), inner %v (valid %v)", start, end, k.Seq, k.K, end-start, outer, want, inner, wantInner)
				}
			}
		}
	}
	// the same index iterating OTHER sequences (as the PALS filter does with its query), among them
	// sequences with non-alphabet letters of every kind although the indexed one may have none
	for _, other := range foreign {
		if k.RNA {
			other = strings.NewReplacer("t", "u", "T", "U").Replace(other)
		}
		o := own.NewSeq("o", alphabet.BytesToLetters([]byte(other)), al)
		ow := windows(other, k.K, k.RNA)
		var got, want [][2]int
		err := ki.ForEachKmerOf(o, 0, len(other), func(_ *kmerindex.Index, pos, kmer int) { got = append(got, [2]int{pos, kmer}) })
		for p := 0; p+k.K <= len(other); p++ {
			if w, ok := ow[p]; ok {
				want = append(want, [2]int{p, w})
			}
		}
		if err != nil {
			fail("ForEachKmerOf/foreign/error", "index of %q iterating %q: %v", k.Seq, other, err)
		} else if fmt.Sprint(got) != fmt.Sprint(want) {
			fail("ForEachKmerOf/foreign/windows", "index of %q iterating %q (k=%d): callbacks %v, valid windows %v", k.Seq, other, k.K, got, want)
		}
	}
	// the maps are asked for too early (they may decline); that must not spoil them for later
	ki.KmerIndex()
	ki.StringKmerIndex()
	ki.Build()
	if _, ok := ki.KmerFrequencies(); ok {
		fail("KmerFrequencies/after-build", "still reported after Build")
	}
	nwords := 1 << (2 * uint(k.K))
	kept := map[int][]int{} // results the caller holds on to while it asks for more
	query := func(w int) {
		got, err := ki.KmerPositions(kmerindex.Kmer(w))
		if err != nil {
			fail("KmerPositions/error", "KmerPositions(%s) = %v", wordString(w, k.K, k.RNA), err)
			return
		}
		if len(got) > 0 {
			kept[w] = got
		}
		if fmt.Sprint(sorted(got)) != fmt.Sprint(byWord[w]) && !(len(got) == 0 && len(byWord[w]) == 0) {
			fail("KmerPositions", "positions of %s in %q (k=%d): %v, it occurs at %v", wordString(w, k.K, k.RNA), k.Seq, k.K, got, byWord[w])
		}
		text := wordString(w, k.K, k.RNA)
		for _, t := range []string{text, strings.ToUpper(text)} {
			gs, err := ki.KmerPositionsString(t)
			if err != nil || (fmt.Sprint(sorted(gs)) != fmt.Sprint(byWord[w]) && !(len(gs) == 0 && len(byWord[w]) == 0)) {
				fail("KmerPositionsString", "positions of %q in %q: %v (err %v), it occurs at %v", t, k.Seq, gs, err, byWord[w])
			}
		}
	}
	if k.K <= 5 {
		for w := 0; w < nwords; w++ {
			query(w)
		}
	} else {
		for w := range byWord {
			query(w)
			query((w + 1) % nwords)
			query((w + nwords - 1) % nwords)
		}
		query(0)
		query(nwords - 1)
	}
	for w, got := range kept {
		if fmt.Sprint(sorted(append([]int{}, got...))) != fmt.Sprint(byWord[w]) {
			fail("KmerPositions/result-changed-by-a-later-call", "the positions of %s in %q, held while other words were looked up, now read %v (it occurs at %v)", wordString(w, k.K, k.RNA), k.Seq, got, byWord[w])
			break
		}
	}
	if _, err := ki.KmerPositions(kmerindex.Kmer(nwords)); err == nil {
		fail("KmerPositions/out-of-range", "no error for a k-mer value beyond 4^k-1")
	}
	idx, ok := ki.KmerIndex()
	if !ok || len(idx) != len(byWord) {
		fail("KmerIndex", "KmerIndex has %d entries (ok=%v), %d words occur", len(idx), ok, len(byWord))
	}
	sidx, ok := ki.StringKmerIndex()
	if !ok || len(sidx) != len(byWord) {
		fail("StringKmerIndex", "StringKmerIndex has %d entries (ok=%v), %d words occur", len(sidx), ok, len(byWord))
	}
	for w, ps := range byWord {
		if fmt.Sprint(sorted(idx[kmerindex.Kmer(w)])) != fmt.Sprint(ps) {
			fail("KmerIndex", "KmerIndex[%s] = %v, occurs at %v", wordString(w, k.K, k.RNA), idx[kmerindex.Kmer(w)], ps)
		}
		if fmt.Sprint(sorted(sidx[wordString(w, k.K, k.RNA)])) != fmt.Sprint(ps) {
			fail("StringKmerIndex", "StringKmerIndex[%s] = %v, occurs at %v", wordString(w, k.K, k.RNA), sidx[wordString(w, k.K, k.RNA)], ps)
		}
	}
	if ok, found := ki.Check(); !ok || found != len(win) {
		fail("Check", "Check() = (%v,%d), %d valid windows in %q", ok, found, len(win), k.Seq)
	}
	// what the index hands out is the caller's: writing on it (in place, and by appending) must not
	// change what the index reports afterwards
	for w := range byWord {
		if ps, err := ki.KmerPositions(kmerindex.Kmer(w)); err == nil {
			for i := range ps {
				ps[i] = -7
			}
			_ = append(ps, -9)
		}
	}
	for _, m := range idx {
		for i := range m {
			m[i] = -7
		}
		_ = append(m, -9)
	}
	for w, ps := range byWord {
		got, err := ki.KmerPositions(kmerindex.Kmer(w))
		if err != nil || fmt.Sprint(sorted(got)) != fmt.Sprint(ps) {
			fail("KmerPositions/shares-the-index", "after the caller wrote on earlier results, positions of %s in %q are %v (err %v), it occurs at %v", wordString(w, k.K, k.RNA), k.Seq, got, err, ps)
			break
		}
	}
}

func checkWord(c *enum.Ctx, k kase) {
	fail := func(class, f string, a ...interface{}) { c.Fail(class, k, "%s", fmt.Sprintf(f, a...)) }
	text := wordString(k.Word, k.K, false)
	got, err := kmerindex.Format(kmerindex.Kmer(k.Word), k.K, alphabet.DNA)
	if err != nil || got != text {
		fail("Format", "Format(%d,k=%d) = %q,%v want %q", k.Word, k.K, got, err, text)
	}
	for _, t := range []string{text, strings.ToUpper(text)} {
		w, err := kmerindex.KmerOf(k.K, alphabet.DNA.LetterIndex(), t)
		if err != nil || int(w) != k.Word {
			fail("KmerOf", "KmerOf(%q) = %d,%v want %d", t, w, err, k.Word)
		}
	}
	gc := strings.Count(text, "g") + strings.Count(text, "c")
	if g := kmerindex.GCof(k.K, kmerindex.Kmer(k.Word)); math.Abs(g-float64(gc)/float64(k.K)) > 1e-12 {
		fail("GCof", "GCof(%q) = %v, want %d/%d", text, g, gc, k.K)
	}
	rc := make([]byte, k.K)
	for i := 0; i < k.K; i++ {
		rc[k.K-1-i] = "tgca"[strings.IndexByte("acgt", text[i])]
	}
	if g := kmerindex.ComplementOf(k.K, kmerindex.Kmer(k.Word)); wordString(int(g), k.K, false) != string(rc) || int(g) >= 1<<(2*uint(k.K)) {
		fail("ComplementOf", "ComplementOf(%q) = %q (%d), want %q", text, wordString(int(g), k.K, false), g, rc)
	}
}

func check(c *enum.Ctx, k kase) {
	switch k.Kind {
	case "index":
		c.Guard("index/panic", k, func() { checkIndex(c, k) })
	case "word":
		c.Guard("word/panic", k, func() { checkWord(c, k) })
	}
}

func run(c *enum.Ctx) {
	c.Rule("every index also iterates four foreign sequences (clean, with n/-/N/*, mixed case, with bytes 0x00/0x80/0xff); k=4: every sequence of length 5..7 (thorough 8) over {a,c,g,t,n} and every sequence of length 5..6 over {a,C,g,T,n,N} (case), every one of the 256 words queried, every sub-range [start,end) iterated (every third one again with a callback that starts a traversal of its own on the index it is handed); k=5..7: every sequence of length k+1..k+2 over {a,t,n}; k=8..10: every sequence of length k+1 over {a,n} (thorough {a,t,n}); RNA alphabet on fixed words; the size ladder: sequences of 2^j+9 letters (j=6..9, thorough 10) with one invalid letter at every position around every power of two, and of every ladder length 600..2049 (thorough 5001); the index maps are asked for once before Build; for every k<=6 (thorough 8) every word value for Format/KmerOf/GCof/ComplementOf against string operations; oracle: brute-force windows; non-trivial = sequences with at least one valid window")
	c.Assume("positions of a k-mer are compared as sets", "a range shorter than k may return nil or an error but must not call back")
	var cases []kase
	maxL := 7
	if !c.Quick {
		maxL = 8
	}
	enum.Strings("acgtn", 5, maxL, func(s []byte) { cases = append(cases, kase{Kind: "index", K: 4, Seq: string(s)}) })
	enum.Strings("aCgTnN", 5, 6, func(s []byte) { cases = append(cases, kase{Kind: "index", K: 4, Seq: string(s)}) })
	for k := 5; k <= 7; k++ {
		enum.Strings("atn", k+1, k+2, func(s []byte) { cases = append(cases, kase{Kind: "index", K: k, Seq: string(s)}) })
	}
	for k := 8; k <= 10; k++ {
		al := "an"
		if !c.Quick {
			al = "atn"
		}
		enum.Strings(al, k+1, k+1, func(s []byte) { cases = append(cases, kase{Kind: "index", K: k, Seq: string(s)}) })
		cases = append(cases, kase{Kind: "index", K: k, Seq: strings.Repeat("acgt", 4)[:k+3]}, kase{Kind: "index", K: k, Seq: strings.Repeat("t", k+2)}, kase{Kind: "index", K: k, Seq: strings.Repeat("tgca", 4)[:k+2] + "n" + strings.Repeat("gcat", 4)[:k+1]})
	}
	for _, s := range []string{"acguacgu", "uuuuuu", "acgunacgu", "ACGUacgu"} {
		cases = append(cases, kase{Kind: "index", K: 4, Seq: s, RNA: true})
	}
	// the size ladder: sequences of 2^j+9 letters (j = 6..9, thorough 10) over {a,c,g,t} with one invalid
	// letter at every position from k+1 before a power of two to one behind it, and without any
	topJ := 9
	if !c.Quick {
		topJ = 10
	}
	for j := 6; j <= topJ; j++ {
		n := 1<<uint(j) + 9
		base := []byte(seqgen.Fill("acgt", n))
		cases = append(cases, kase{Kind: "index", K: 4, Seq: string(base)})
		for b := 64; b <= n; b *= 2 {
			for p := b - 6; p <= b+1 && p < n; p++ {
				w := append([]byte{}, base...)
				w[p] = 'n'
				cases = append(cases, kase{Kind: "index", K: 4, Seq: string(w)}, kase{Kind: "index", K: 6, Seq: string(w)})
			}
		}
	}
	// longer still: every ladder length 600..5001 (quick: to 2049), plain and with one invalid letter in the
	// middle (position tables of thousands of entries)
	topN := 2049
	if !c.Quick {
		topN = 5001
	}
	for _, n := range enum.Ladder(600, topN) {
		base := []byte(seqgen.Fill("acgt", n))
		w := append([]byte{}, base...)
		w[n/2] = 'n'
		cases = append(cases, kase{Kind: "index", K: 4, Seq: string(base)}, kase{Kind: "index", K: 6, Seq: string(w)})
	}
	maxWK := 6
	if !c.Quick {
		maxWK = 8
	}
	for k := 2; k <= maxWK; k++ { // k=1 is below every supported word size (ComplementOf(1,·) does not terminate: uint underflow of its loop bound)
		for w := 0; w < 1<<(2*uint(k)); w++ {
			cases = append(cases, kase{Kind: "word", K: k, Word: w})
		}
	}
	for k := 9; k <= 16; k++ {
		for _, w := range []int{0, 1, 1<<(2*uint(k)) - 1, 0x1b1b1b1b & (1<<(2*uint(k)) - 1)} {
			cases = append(cases, kase{Kind: "word", K: k, Word: w})
		}
	}
	c.Set("cases", len(cases))
	enum.Parallel(64, func(sh int) {
		nt := enum.NontrivialSet{}
		for i := sh; i < len(cases); i += 64 {
			c.Doing(sh, cases[i])
			c.Eval()
			check(c, cases[i])
			if cases[i].Kind == "word" || len(windows(cases[i].Seq, cases[i].K, cases[i].RNA)) > 0 {
				nt.Add(enum.J(cases[i]))
			}
			if i%40009 == 11 {
				c.Sample(cases[i])
			}
		}
		c.Merge(nt)
	})
}

func main() {
	enum.Main("C10", "exploration", run, func(c *enum.Ctx, in json.RawMessage) {
		var k kase
		if err := json.Unmarshal(in, &k); err != nil {
			panic(err)
		}
		fmt.Printf("case %s\n", enum.J(k))
		check(c, k)
	})
}
