// C02: BED and GFF features survive write-then-read with coordinate conventions.
package main

import (
	"bytes"
	"encoding/json"
	"fmt"
	"strings"
	_ "verif/h/duoc"

	"github.com/biogo/biogo/feat"
	"github.com/biogo/biogo/io/featio/bed"
	"github.com/biogo/biogo/io/featio/gff"
	"verif/h/enum"
	"verif/h/featgen"
)

type kase struct {
	Format string        `json:"format"` // bed gff
	Bed    []featgen.Bed `json:"bed,omitempty"`
	Typ    int           `json:"typ,omitempty"`   // record type written
	Width  int           `json:"width,omitempty"` // writer column count (<= typ); reader uses the same
	Gff    []featgen.Gff `json:"gff,omitempty"`
	Header bool          `json:"header,omitempty"`
	SeqW   int           `json:"seqwidth,omitempty"`
	// Steps: a BED file whose i-th line was written at width Steps[i]; one reader reads it with its
	// exported BedType field set to Steps[i] before the i-th Read
	Steps []int `json:"steps,omitempty"`
	// Junk: a line the reader rejects (or takes for a record of its own), put in front of the written text
	// and read first; the written records that follow must come back as they were written
	Junk string `json:"junk,omitempty"`
}

func check(c *enum.Ctx, k kase) {
	fail := func(class, f string, a ...interface{}) { c.Fail(k.Format+"/"+class, k, "%s", fmt.Sprintf(f, a...)) }
	if k.Format == "bed" && len(k.Steps) > 0 {
		var text []byte
		for i, w := range k.Steps {
			t, err := featgen.WriteBed(k.Bed[i:i+1], 12, w)
			if err != nil {
				fail("write-error", "writing record %d at width %d: %v", i, w, err)
				return
			}
			text = append(text, t...)
		}
		c.Guard("bed/read-panic", k, func() {
			r, err := bed.NewReader(bytes.NewReader(text), k.Steps[0])
			if err != nil {
				fail("reader", "%v", err)
				return
			}
			var fs []feat.Feature
			for i, w := range k.Steps {
				r.BedType = w
				f, err := r.Read()
				if err != nil {
					fail("stepped-width/read-error", "record %d read with BedType set to %d (widths %v): %v (text %q)", i, w, k.Steps, err, text)
					return
				}
				fs = append(fs, f)
			}
			for i, f := range fs {
				w := k.Steps[i]
				if got, want := featgen.BedString(f, w), featgen.BedString(k.Bed[i].Make(w), w); got != want {
					fail("stepped-width/round-trip", "record %d read with BedType set to %d (widths %v) reads back as %s, want %s", i, w, k.Steps, got, want)
					return
				}
			}
		})
		return
	}
	if k.Format == "bed" {
		var text []byte
		var err error
		if c.Guard("bed/write-panic", k, func() { text, err = featgen.WriteBed(k.Bed, k.Typ, k.Width) }) {
			return
		}
		if err != nil {
			if strings.HasPrefix(err.Error(), "BYTECOUNT") {
				fail("byte-count", "%v", err)
			} else {
				fail("write-error", "writing Bed%d at width %d: %v", k.Typ, k.Width, err)
			}
			return
		}
		if len(text) <= 400 && k.Junk == "" {
			for limit := 0; limit < len(text); limit++ {
				msg, _ := featgen.CountsUnderFailure(func(sk *featgen.Sink) func(int) (int, error) {
					w, _ := bed.NewWriter(sk, k.Width)
					return func(i int) (int, error) { return w.Write(k.Bed[i].Make(k.Typ)) }
				}, len(k.Bed), limit)
				if msg != "" {
					fail("byte-count/failing-sink", "%s", msg)
					break
				}
			}
		}
		c.Guard("bed/read-panic", k, func() {
			if k.Junk != "" {
				text = append([]byte(k.Junk+"\n"), text...)
			}
			r, err := bed.NewReader(bytes.NewReader(text), k.Width)
			if err != nil {
				fail("reader", "%v", err)
				return
			}
			if k.Junk != "" {
				r.Read()
			}
			fs, _, err := featgen.ReadFeatures(r, len(k.Bed)+2)
			if err != nil {
				fail("read-error", "reading %q as BED%d: %v", text, k.Width, err)
				return
			}
			if len(fs) != len(k.Bed) {
				fail("count", "%d records read from %q, want %d", len(fs), text, len(k.Bed))
				return
			}
			for i, f := range fs {
				want := featgen.BedString(k.Bed[i].Make(k.Width), k.Width)
				if got := featgen.BedString(f, k.Width); got != want {
					fail(fmt.Sprintf("round-trip/type%d-width%d", k.Typ, k.Width), "record %d written as Bed%d at width %d reads back as %s, want %s (text %q)", i, k.Typ, k.Width, got, want, text)
					return
				}
				if f.Start() != k.Bed[i].Start || f.End() != k.Bed[i].End || f.Len() != k.Bed[i].End-k.Bed[i].Start {
					fail("coordinates", "record %d: Start/End/Len = %d/%d/%d", i, f.Start(), f.End(), f.Len())
				}
			}
		})
		return
	}
	var text []byte
	var err error
	if c.Guard("gff/write-panic", k, func() { text, err = featgen.WriteGff(k.Gff, k.SeqW, k.Header) }) {
		return
	}
	if err != nil {
		if strings.HasPrefix(err.Error(), "BYTECOUNT") {
			fail("byte-count", "%v", err)
		} else {
			fail("write-error", "%v", err)
		}
		return
	}
	// the text carries 1-based inclusive coordinates
	for _, it := range k.Gff {
		if it.Kind == "feature" && it.Start >= 0 {
			cols := fmt.Sprintf("\t%d\t%d\t", it.Start+1, it.End)
			if !bytes.Contains(text, []byte(cols)) {
				fail("one-based-text", "feature [%d,%d) should be written with start/end columns %q; text %q", it.Start, it.End, cols, text)
				return
			}
		}
		if it.Kind == "region" && it.Start >= 0 {
			line := fmt.Sprintf("##sequence-region %s %d %d\n", it.SeqName, it.Start+1, it.End)
			if !bytes.Contains(text, []byte(line)) {
				fail("one-based-text", "region [%d,%d) should be written as %q; text %q", it.Start, it.End, line, text)
				return
			}
		}
	}
	// byte counts when the sink fails: for every number of bytes the sink accepts before failing, each
	// call reports what was emitted during that call
	if len(text) <= 400 && k.Junk == "" {
		for limit := 0; limit < len(text); limit++ {
			msg, _ := featgen.CountsUnderFailure(func(sk *featgen.Sink) func(int) (int, error) {
				w := gff.NewWriter(sk, k.SeqW, false)
				return func(i int) (int, error) { return w.Write(k.Gff[i].Make()) }
			}, len(k.Gff), limit)
			if msg != "" && !k.Header {
				fail("byte-count/failing-sink", "%s", msg)
				break
			}
		}
	}
	c.Guard("gff/read-panic", k, func() {
		if k.Junk != "" {
			text = append([]byte(k.Junk+"\n"), text...)
		}
		r := gff.NewReader(bytes.NewReader(text))
		if k.Junk != "" {
			r.Read()
		}
		fs, _, err := featgen.ReadFeatures(r, len(k.Gff)+2)
		if err != nil {
			fail("read-error", "reading %q: %v", text, err)
			return
		}
		if len(fs) != len(k.Gff) {
			fail("count", "%d items read from %q, want %d", len(fs), text, len(k.Gff))
			return
		}
		for i, f := range fs {
			want := featgen.GffString(k.Gff[i].Make())
			if got := featgen.GffString(f); got != want {
				fail("round-trip/"+k.Gff[i].Kind, "item %d reads back as %s, want %s (text %q)", i, got, want, text)
				return
			}
		}
	})
}

func run(c *enum.Ctx) {
	c.Rule("BED: product of chrom {c, 'chr 1'} x (start,end) pairs over {-1,0,1,7,MaxInt64,MinInt64} x name {n,'a b','x#'} x score {-1,0,7,MaxInt64} x strand 3 x thick pairs x rgb {zero,(1,2,3),(0,0,0) opaque,(255,255,255)} x blocks 1..3, for record types 3/4/5/6/12 x every writer width <= type (reader at the same width), single records and pairs; one reader whose exported BedType field is stepped from line to line (5 width sequences); GFF: seqname/source/feature with and without inner space x start {0,1,9,-3} x length {1,5,big} x score {nil,0,-1.5,0.1,1e-300,MaxFloat64,+Inf,-Inf} x strand 3 x frame 4 x attribute lists {none,[ID x],[Tag_1 'v w',t2 ''],three incl. digits in tags, a tag that occurs twice (adjacent and apart)} x comments {'', 'c d'} x header on/off; sequence-region lines; inline DNA/RNA/protein sequences of length 1..5 and 61 at widths 1,2,60; mixed files; every third case again behind a line the reader rejects (read first, its outcome ignored); non-trivial = every case (each writes at least one record)")
	c.Assume("text fields are non-empty, tab-free, trimmed and do not start with '#'; BED12 has at least one block; GFF features have positive length; attribute values contain no ';'; colours are zero or opaque; NaN scores are excluded; nil and empty attribute lists are the same thing")
	const maxI, minI = int(^uint(0) >> 1), -int(^uint(0)>>1) - 1
	var cases []kase
	coords := [][2]int{{0, 1}, {-1, 0}, {1, 7}, {7, 7}, {0, maxI}, {minI, -1}, {minI, maxI}, {7, 1}}
	thick := [][2]int{{0, 0}, {1, 7}, {-1, maxI}}
	rgbs := [][4]int{{0, 0, 0, 0}, {1, 2, 3, 255}, {0, 0, 0, 255}, {255, 255, 255, 255}}
	blocks := [][2][]int{{{3}, {0}}, {{1, 2}, {0, 5}}, {{1, 2, 3}, {0, 4, 9}}, {{0}, {0}}}
	var beds []featgen.Bed
	for _, chrom := range []string{"c", "chr 1"} {
		for _, co := range coords {
			for _, name := range []string{"n", "a b", "x#"} {
				for _, score := range []int{-1, 0, 7, maxI} {
					for strand := -1; strand <= 1; strand++ {
						i := len(beds)
						t := thick[i%len(thick)]
						b := blocks[i%len(blocks)]
						beds = append(beds, featgen.Bed{Chrom: chrom, Start: co[0], End: co[1], Name: name, Score: score, Strand: strand,
							ThickStart: t[0], ThickEnd: t[1], RGB: rgbs[(i/3)%len(rgbs)], BlockSizes: b[0], BlockStarts: b[1]})
					}
				}
			}
		}
	}
	// every thick/rgb/block combination on one base record
	for _, t := range thick {
		for _, rgb := range rgbs {
			for _, b := range blocks {
				beds = append(beds, featgen.Bed{Chrom: "c", Start: 1, End: 9, Name: "n", Score: 3, Strand: 1, ThickStart: t[0], ThickEnd: t[1], RGB: rgb, BlockSizes: b[0], BlockStarts: b[1]})
			}
		}
	}
	for _, typ := range []int{3, 4, 5, 6, 12} {
		for _, w := range []int{3, 4, 5, 6, 12} {
			if w > typ {
				continue
			}
			for i, b := range beds {
				cases = append(cases, kase{Format: "bed", Bed: []featgen.Bed{b}, Typ: typ, Width: w})
				if i%7 == 0 {
					cases = append(cases, kase{Format: "bed", Bed: []featgen.Bed{b, beds[(i*13+5)%len(beds)]}, Typ: typ, Width: w})
				}
			}
			cases = append(cases, kase{Format: "bed", Typ: typ, Width: w})
		}
	}
	// one reader, its exported BedType field stepped from line to line
	for _, steps := range [][]int{{12, 6, 5, 4, 3}, {3, 4, 5, 6, 12}, {3, 12, 3}, {6, 6, 4}, {5, 3, 12, 4}} {
		for off := 0; off < len(beds); off += 37 {
			var recs []featgen.Bed
			for i := range steps {
				recs = append(recs, beds[(off+i*5)%len(beds)])
			}
			cases = append(cases, kase{Format: "bed", Bed: recs, Typ: 12, Width: 12, Steps: steps})
		}
	}
	// lines around and beyond the 4096-byte buffer of bufio: long chrom / name, many blocks; a short
	// record before and after so that whatever the long line leaves behind is seen
	short := featgen.Bed{Chrom: "c", Start: 1, End: 9, Name: "n", Score: 3, Strand: 1, RGB: rgbs[1], BlockSizes: []int{3}, BlockStarts: []int{0}}
	for _, n := range []int{4080, 4087, 4088, 4089, 4090, 4091, 4092, 4093, 4094, 4095, 4096, 4097, 8192, 12289} {
		long := short
		long.Chrom = strings.Repeat("C", n)
		cases = append(cases, kase{Format: "bed", Bed: []featgen.Bed{short, long, short}, Typ: 3, Width: 3})
		long = short
		long.Name = strings.Repeat("N", n)
		for _, w := range []int{4, 6, 12} {
			cases = append(cases, kase{Format: "bed", Bed: []featgen.Bed{short, long, short}, Typ: 12, Width: w})
		}
	}
	for _, nb := range []int{100, 400, 683, 1500} {
		long := short
		long.BlockSizes, long.BlockStarts = make([]int, nb), make([]int, nb)
		for i := range long.BlockSizes {
			long.BlockSizes[i], long.BlockStarts[i] = i%7+1, i*10
		}
		long.End = long.Start + nb*10
		cases = append(cases, kase{Format: "bed", Bed: []featgen.Bed{short, long, short}, Typ: 12, Width: 12})
	}
	// GFF
	scores := []string{"", "0", "-1.5", "0.1", "tiny", "max", "+Inf", "-Inf", "3"}
	attrs := [][]featgen.Attr{nil, {{"ID", "x"}}, {{"Tag_1", "v w"}, {"t2", ""}}, {{"a", "1"}, {"B2b", "\"quoted text\""}, {"c_3", "z"}},
		{{"Note", "a"}, {"Note", "b"}}, {{"Note", "a"}, {"ID", "x"}, {"Note", "a"}}} // a tag may occur more than once
	var gffs []featgen.Gff
	for _, names := range [][3]string{{"seq", "src", "feat"}, {"my seq", "a src", "the feat"}} {
		for _, start := range []int{0, 1, 9, -3} {
			for _, length := range []int{1, 5, 1 << 40} {
				for si, sc := range scores {
					for strand := -1; strand <= 1; strand++ {
						for frame := -1; frame <= 2; frame++ {
							i := len(gffs)
							g := featgen.Gff{Kind: "feature", SeqName: names[0], Source: names[1], Feature: names[2], Start: start, End: start + length,
								HasScore: sc != "", Score: sc, Strand: strand, Frame: frame, Attrs: attrs[(i+si)%len(attrs)]}
							if (i/5)%2 == 1 {
								g.Comments = "c d"
							}
							gffs = append(gffs, g)
						}
					}
				}
			}
		}
	}
	for _, at := range attrs {
		for _, cm := range []string{"", "c d", "x"} {
			gffs = append(gffs, featgen.Gff{Kind: "feature", SeqName: "s", Source: "p", Feature: "f", Start: 2, End: 5, Frame: -1, Attrs: at, Comments: cm})
		}
	}
	var regions, seqs []featgen.Gff
	for _, start := range []int{0, 1, 9} {
		for _, length := range []int{1, 5, 1 << 40} {
			regions = append(regions, featgen.Gff{Kind: "region", SeqName: "chrX", Start: start, End: start + length})
		}
	}
	for _, mt := range []struct{ m, l string }{{"DNA", "acgtn"}, {"RNA", "acgun"}, {"Protein", "mkw*-"}} {
		for _, n := range []int{1, 2, 3, 4, 5, 61} {
			b := make([]byte, n)
			for i := range b {
				b[i] = mt.l[(i*3+i/7)%len(mt.l)]
			}
			seqs = append(seqs, featgen.Gff{Kind: "seq", SeqName: "s1", Moltype: mt.m, Letters: string(b)})
		}
	}
	for _, hdr := range []bool{false, true} {
		for i, g := range gffs {
			cases = append(cases, kase{Format: "gff", Gff: []featgen.Gff{g}, Header: hdr, SeqW: 60})
			if i%11 == 0 {
				cases = append(cases, kase{Format: "gff", Gff: []featgen.Gff{g, regions[i%len(regions)], gffs[(i*7+3)%len(gffs)]}, Header: hdr, SeqW: 60})
			}
		}
		for _, r := range regions {
			cases = append(cases, kase{Format: "gff", Gff: []featgen.Gff{r}, Header: hdr, SeqW: 60})
		}
		for i, s := range seqs {
			for _, w := range []int{1, 2, 60} {
				cases = append(cases, kase{Format: "gff", Gff: []featgen.Gff{s}, Header: hdr, SeqW: w})
				cases = append(cases, kase{Format: "gff", Gff: []featgen.Gff{gffs[i], s, regions[i%len(regions)], s}, Header: hdr, SeqW: w})
			}
		}
		// two different inline sequences read through one reader (every ordered pair): the first must
		// still read as itself after the second has been parsed
		for i, s1 := range seqs {
			for j, s2 := range seqs {
				if i != j {
					s2.SeqName = "s2"
					cases = append(cases, kase{Format: "gff", Gff: []featgen.Gff{s1, s2, gffs[i]}, Header: hdr, SeqW: []int{1, 2, 60}[(i+j)%3]})
				}
			}
		}
		// long lines: attribute value, sequence name and inline sequence lines beyond bufio's 4096 bytes
		for _, n := range []int{4000, 4090, 4095, 4096, 4097, 8192, 12289} {
			g := gffs[0]
			g.Attrs = []featgen.Attr{{"ID", strings.Repeat("v", n)}}
			cases = append(cases, kase{Format: "gff", Gff: []featgen.Gff{gffs[1], g, gffs[2]}, Header: hdr, SeqW: 60})
			g = gffs[0]
			g.SeqName = strings.Repeat("S", n)
			cases = append(cases, kase{Format: "gff", Gff: []featgen.Gff{gffs[1], g, gffs[2]}, Header: hdr, SeqW: 60})
			b := make([]byte, n)
			for i := range b {
				b[i] = "acgtn"[(i*3+i/7)%5]
			}
			for _, w := range []int{60, 4095, 4096, 20000} {
				cases = append(cases, kase{Format: "gff", Gff: []featgen.Gff{gffs[1], {Kind: "seq", SeqName: "big", Moltype: "DNA", Letters: string(b)}, gffs[2], seqs[3]}, Header: hdr, SeqW: w})
			}
		}
		cases = append(cases, kase{Format: "gff", Header: hdr, SeqW: 60})
	}
	// every third case again behind a line the reader rejects (too few columns, a non-numeric column, a
	// one-column line): the written records that follow come back as written
	junks := []string{"chrX\t1", "chrX\tx\t2\tn\t0\t+\t1\t2\t0\t1\t1\t0", "track_line", "seq\tsrc\tfeat\t1\t2\t.\t+", "seq\tsrc\tfeat\tx\t2\t.\t+\t."}
	for i, k := range cases[:len(cases):len(cases)] {
		if i%3 != 0 || len(k.Steps) > 0 {
			continue
		}
		k.Junk = junks[(i/3)%len(junks)]
		cases = append(cases, k)
	}
	c.Set("cases", len(cases))
	enum.Parallel(16, func(sh int) {
		nt := enum.NontrivialSet{}
		for i := sh; i < len(cases); i += 16 {
			c.Doing(sh, cases[i])
			c.Eval()
			check(c, cases[i])
			if len(cases[i].Bed)+len(cases[i].Gff) > 0 {
				nt.Add(enum.J(cases[i]))
			}
			if i%20011 == 3 {
				c.Sample(cases[i])
			}
		}
		c.Merge(nt)
	})
}

func main() {
	enum.Main("C02", "exploration", run, func(c *enum.Ctx, in json.RawMessage) {
		var k kase
		if err := json.Unmarshal(in, &k); err != nil {
			panic(err)
		}
		fmt.Printf("case %s\n", enum.J(k))
		check(c, k)
	})
}
