// C07: multi-sequence containers keep row and column views consistent under edits.
//
// Breadth-first search over edit sequences applied to real containers
// (alignment.Seq, alignment.QSeq, multi.Multi); after every edit the row view,
// both column views, the extents and the count consensus are compared with a
// plain grid model, and every retained clone / original must be unchanged.
package main

import (
	"encoding/json"
	"fmt"
	"strings"
	"sync/atomic"
	_ "verif/h/duoc"

	"github.com/biogo/biogo/alphabet"
	"github.com/biogo/biogo/seq"
	"github.com/biogo/biogo/seq/alignment"
	"github.com/biogo/biogo/seq/linear"
	"github.com/biogo/biogo/seq/multi"
	"github.com/biogo/biogo/seq/sequtils"
	"verif/h/enum"
)

var alpha = alphabet.DNAgapped

const gap = alphabet.Letter('-')

type rowDef struct {
	Off     int    `json:"off"`
	Letters string `json:"letters"`
}

type kase struct {
	slot int      // worker announcing this case to the progress watchdog (not part of the case)
	Kind string   `json:"kind"` // aseq aqseq multi mqulti
	Rows []rowDef `json:"rows"`
	Ops  []string `json:"ops"`
	// Shared (Multi): the last row object is held a second time, at the position after it (`Add(b, b)`); only
	// operations that treat a row held twice like two equal rows are applied to such a container (Flush)
	Shared bool `json:"last_row_held_twice,omitempty"`
	// CaseFilter (alignment.QSeq): the container's quality filter is the library's seq.CaseFilter and its
	// threshold 22 (letters at or above it are shown as they are, whatever the filter would make of them)
	CaseFilter bool `json:"case_filter,omitempty"`
}

// ---- model

type mrow struct {
	name  string
	off   int
	cells []alphabet.QLetter
}

type model struct {
	kind string
	rows []mrow
}

func (m *model) aligned() bool { return m.kind == "aseq" || m.kind == "aqseq" }
func (m *model) keepsQ() bool  { return m.kind == "aqseq" || m.kind == "mqulti" }

func (m *model) span() (lo, hi int) {
	if m.aligned() {
		if len(m.rows) == 0 {
			return 0, 0
		}
		return 0, len(m.rows[0].cells)
	}
	lo, hi = 1<<30, -1<<30
	for _, r := range m.rows {
		if r.off < lo {
			lo = r.off
		}
		if e := r.off + len(r.cells); e > hi {
			hi = e
		}
	}
	return
}

func (m *model) cov() (lo, hi int) { // range every row covers
	lo, hi = -1<<30, 1<<30
	for _, r := range m.rows {
		if r.off > lo {
			lo = r.off
		}
		if e := r.off + len(r.cells); e < hi {
			hi = e
		}
	}
	return
}

func (m *model) q(c alphabet.QLetter) alphabet.QLetter {
	if !m.keepsQ() {
		c.Q = seq.DefaultQphred
	}
	return c
}

func (m *model) String() string {
	var b strings.Builder
	b.WriteString(m.kind)
	for _, r := range m.rows {
		fmt.Fprintf(&b, " | %s@%d:", r.name, r.off)
		for _, c := range r.cells {
			fmt.Fprintf(&b, "%c%d", c.L, m.q(c).Q)
		}
	}
	return b.String()
}

func (m *model) clone() *model {
	c := &model{kind: m.kind}
	for _, r := range m.rows {
		c.rows = append(c.rows, mrow{r.name, r.off, append([]alphabet.QLetter{}, r.cells...)})
	}
	return c
}

// ---- real objects

type container interface {
	seq.Aligned
	Row(int) seq.Sequence
}

func qual(r, i int) alphabet.Qphred { return alphabet.Qphred(10 + 9*r + i%64) } // stays a valid, non-zero score on long rows

func build(k kase) (container, *model) {
	m := &model{kind: k.Kind}
	for r, d := range k.Rows {
		mr := mrow{name: fmt.Sprint("r", r), off: d.Off}
		for i := range d.Letters {
			mr.cells = append(mr.cells, alphabet.QLetter{L: alphabet.Letter(d.Letters[i]), Q: qual(r, i)})
		}
		m.rows = append(m.rows, mr)
	}
	switch k.Kind {
	case "aseq":
		n := len(k.Rows[0].Letters)
		cols := make([][]alphabet.Letter, n)
		ids := make([]string, len(k.Rows))
		for c := range cols {
			cols[c] = make([]alphabet.Letter, len(k.Rows))
			for r := range k.Rows {
				cols[c][r] = m.rows[r].cells[c].L
			}
		}
		for r := range ids {
			ids[r] = m.rows[r].name
			m.rows[r].off = 0
		}
		s, err := alignment.NewSeq("aln", ids, cols, alpha, seq.DefaultConsensus)
		if err != nil {
			panic(err)
		}
		return s, m
	case "aqseq":
		n := len(k.Rows[0].Letters)
		cols := make([][]alphabet.QLetter, n)
		ids := make([]string, len(k.Rows))
		for c := range cols {
			cols[c] = make([]alphabet.QLetter, len(k.Rows))
			for r := range k.Rows {
				cols[c][r] = m.rows[r].cells[c]
			}
		}
		for r := range ids {
			ids[r] = m.rows[r].name
			m.rows[r].off = 0
		}
		s, err := alignment.NewQSeq("aln", ids, cols, alpha, alphabet.Sanger, seq.DefaultQConsensus)
		if err != nil {
			panic(err)
		}
		if k.CaseFilter {
			s.QFilter = seq.CaseFilter
			s.Threshold = 22
		}
		return s, m
	}
	var rows []seq.Sequence
	for r, mr := range m.rows {
		rows = append(rows, mkLinear(k.Kind == "mqulti", mr.name, mr.off, mr.cells))
		_ = r
	}
	if k.Shared && len(rows) > 0 {
		rows = append(rows, rows[len(rows)-1])
		last := m.rows[len(m.rows)-1]
		m.rows = append(m.rows, mrow{name: last.name, off: last.off, cells: append([]alphabet.QLetter{}, last.cells...)})
	}
	mm, err := multi.NewMulti("m", rows, seq.DefaultConsensus)
	if err != nil {
		panic(err)
	}
	return mm, m
}

func mkLinear(q bool, name string, off int, cells []alphabet.QLetter) seq.Sequence {
	if q {
		s := linear.NewQSeq(name, cells, alpha, alphabet.Sanger)
		s.SetOffset(off)
		return s
	}
	ls := make([]alphabet.Letter, len(cells))
	for i, c := range cells {
		ls[i] = c.L
	}
	s := linear.NewSeq(name, ls, alpha)
	s.SetOffset(off)
	return s
}

// ---- views

func compare(c container, m *model) (msg string) {
	rows := func() int {
		switch v := c.(type) {
		case *multi.Multi:
			return v.Rows()
		}
		return c.Rows()
	}()
	if rows != len(m.rows) {
		return fmt.Sprintf("Rows() = %d, model has %d", rows, len(m.rows))
	}
	if rows == 0 {
		return ""
	}
	lo, hi := m.span()
	if c.Start() != lo || c.End() != hi {
		return fmt.Sprintf("Start/End = [%d,%d), model [%d,%d)", c.Start(), c.End(), lo, hi)
	}
	if l, ok := c.(interface{ Len() int }); ok && l.Len() != hi-lo {
		return fmt.Sprintf("Len() = %d, model %d", l.Len(), hi-lo)
	}
	thr := alphabet.Qphred(0)
	if aq, ok := c.(*alignment.QSeq); ok {
		thr = aq.Threshold
	}
	for i, mr := range m.rows {
		r := c.Row(i)
		if mr.name != "*" && r.Name() != mr.name {
			return fmt.Sprintf("row %d is named %q, model %q", i, r.Name(), mr.name)
		}
		if !m.aligned() && (r.Start() != mr.off || r.End() != mr.off+len(mr.cells)) {
			return fmt.Sprintf("row %d spans [%d,%d), model [%d,%d)", i, r.Start(), r.End(), mr.off, mr.off+len(mr.cells))
		}
	}
	// every column view is kept until all of them, and one of a clone made afterwards, have been
	// fetched: a view handed out must not change under a later call
	type heldCol struct {
		p    int
		col  []alphabet.Letter
		qcol []alphabet.QLetter
		was  string
	}
	var held []heldCol
	snap := func(col []alphabet.Letter, qcol []alphabet.QLetter) string {
		return fmt.Sprintf("%q %v", alphabet.LettersToBytes(col), qcol)
	}
	defer func() {
		if msg != "" {
			return
		}
		if cc, ok := c.(interface{ Clone() seq.Sequence }); ok && hi > lo {
			if cl, ok := cc.Clone().(interface {
				Column(int, bool) []alphabet.Letter
				ColumnQL(int, bool) []alphabet.QLetter
			}); ok {
				cl.Column(hi-1, true)
				cl.ColumnQL(hi-1, true)
			}
		}
		for _, h := range held {
			if now := snap(h.col, h.qcol); now != h.was {
				msg = fmt.Sprintf("the views returned by Column(%d)/ColumnQL(%d) changed from %s to %s under later Column calls on the container and its clone", h.p, h.p, h.was, now)
				return
			}
		}
	}()
	for p := lo; p < hi; p++ {
		col := c.Column(p, true)
		qcol := c.ColumnQL(p, true)
		held = append(held, heldCol{p, col, qcol, snap(col, qcol)})
		if len(col) != rows || len(qcol) != rows {
			return fmt.Sprintf("column %d has %d letters / %d quality letters for %d rows", p, len(col), len(qcol), rows)
		}
		uniform, ul := true, alphabet.Letter(0)
		var nofill []alphabet.Letter
		for i, mr := range m.rows {
			want := alphabet.QLetter{L: gap}
			covered := p >= mr.off && p < mr.off+len(mr.cells)
			if covered {
				want = m.q(mr.cells[p-mr.off])
				if got := c.Row(i).At(p); got != want {
					return fmt.Sprintf("Row(%d).At(%d) = %c%d, model %c%d", i, p, got.L, got.Q, want.L, want.Q)
				}
				nofill = append(nofill, want.L)
			} else {
				uniform = false
			}
			if qcol[i] != want {
				return fmt.Sprintf("ColumnQL(%d)[%d] = %c%d, row view/model %c%d", p, i, qcol[i].L, qcol[i].Q, want.L, want.Q)
			}
			if (thr == 0 || want.Q >= thr) && col[i] != want.L {
				return fmt.Sprintf("Column(%d)[%d] = %c, row view/model %c", p, i, col[i], want.L)
			}
			if i == 0 {
				ul = want.L
			} else if want.L != ul {
				uniform = false
			}
		}
		if mm, ok := c.(*multi.Multi); ok {
			got := mm.Column(p, false)
			if string(alphabet.LettersToBytes(got)) != string(alphabet.LettersToBytes(nofill)) {
				return fmt.Sprintf("Column(%d,false) = %q, covering rows hold %q", p, alphabet.LettersToBytes(got), alphabet.LettersToBytes(nofill))
			}
		}
		if uniform && alpha.IsValid(ul) {
			cons := seq.DefaultConsensus(c, alpha, p, true)
			if cons.L|0x20 != ul|0x20 {
				return fmt.Sprintf("count consensus of uniform column %d (%c) is %c", p, ul, cons.L)
			}
		}
	}
	return ""
}

// ---- operations

func colLetters(n, salt int) []alphabet.QLetter {
	out := make([]alphabet.QLetter, n)
	for i := range out {
		out[i] = alphabet.QLetter{L: alphabet.Letter("acg-"[(i+salt)%4]), Q: alphabet.Qphred(20 + (3*salt+i)%64)}
	}
	return out
}

func scribbleQ(b []alphabet.QLetter) {
	for i := range b {
		b[i] = alphabet.QLetter{L: 'x', Q: 1}
	}
}

var opNames = []string{"AC1", "AC2", "ACX", "AE", "AE2", "DL0", "DLl", "ADD", "FS", "FE", "FB", "TR", "TR1", "SS", "CL", "CK", "SET"}

type frozen struct {
	c container
	m *model
	w string
}

// apply performs op on (c,m); returns the container to continue with.
// An error returned by an edit the statement covers (well-formed columns, a range every row covers) is
// reported through errp.
func apply(c container, m *model, op string, frz *[]frozen, errp *string) (container, bool) {
	n := len(m.rows)
	appendCols := func(cols ...[]alphabet.QLetter) error {
		switch v := c.(type) {
		case *alignment.Seq:
			return v.AppendColumns(cols...)
		case *alignment.QSeq:
			return v.AppendColumns(cols...)
		case *multi.Multi:
			return v.AppendColumns(cols...)
		}
		return nil
	}
	appendEach := func(runs [][]alphabet.QLetter) error {
		switch v := c.(type) {
		case *alignment.Seq:
			return v.AppendEach(runs)
		case *alignment.QSeq:
			return v.AppendEach(runs)
		case *multi.Multi:
			return v.AppendEach(runs)
		}
		return nil
	}
	// parametrised edits of the size ladder: "AE@n" AppendEach with runs of n, n/2, 0, n, ... letters;
	// "AC@n" AppendColumns with n columns in one call
	if strings.HasPrefix(op, "AE@") || strings.HasPrefix(op, "AC@") {
		var k int
		fmt.Sscan(op[3:], &k)
		if n == 0 || k <= 0 {
			return c, false
		}
		if op[:2] == "AC" {
			var cols [][]alphabet.QLetter
			for j := 0; j < k; j++ {
				cols = append(cols, colLetters(n, j+3))
			}
			for i := range m.rows {
				for j := 0; j < k; j++ {
					m.rows[i].cells = append(m.rows[i].cells, cols[j][i])
				}
			}
			if err := appendCols(cols...); err != nil {
				*errp = fmt.Sprintf("AppendColumns of %d well-formed columns returned %v", len(cols), err)
				return c, false
			}
			for _, col := range cols {
				scribbleQ(col)
			}
			return c, true
		}
		runs := make([][]alphabet.QLetter, n)
		for i := range runs {
			runs[i] = colLetters([]int{k, k / 2, 0}[i%3], i+1)
		}
		for i := range m.rows {
			m.rows[i].cells = append(m.rows[i].cells, runs[i]...)
			if m.aligned() {
				for j := len(runs[i]); j < k; j++ {
					m.rows[i].cells = append(m.rows[i].cells, alphabet.QLetter{L: gap})
				}
			}
		}
		if err := appendEach(runs); err != nil {
			*errp = fmt.Sprintf("AppendEach of %d runs returned %v", len(runs), err)
			return c, false
		}
		for _, r := range runs {
			scribbleQ(r)
		}
		return c, true
	}
	switch op {
	case "ACX":
		// a call that must be REJECTED: a well-formed column followed by one that is an entry short.
		// Nothing is demanded of the call itself (if it is accepted, or leaves the rows changed, the
		// history is dropped); what it may leave behind unseen is met by the edits that follow.
		if n == 0 {
			return c, false
		}
		dump := func() string {
			var sb strings.Builder
			rw := c.(seq.Rower)
			for i := 0; i < rw.Rows(); i++ {
				r := rw.Row(i)
				lo, hi := r.Start(), r.End()
				if a, ok := c.(interface {
					Start() int
					End() int
				}); ok && m.aligned() {
					lo, hi = a.Start(), a.End() // rows of column-stored alignments are read in alignment coordinates
				}
				fmt.Fprintf(&sb, "%s[%d,%d):", r.Name(), lo, hi)
				for p := lo; p < hi; p++ {
					ql := r.At(p)
					fmt.Fprintf(&sb, "%c%d", ql.L, ql.Q)
				}
				sb.WriteByte('|')
			}
			return sb.String()
		}
		before := dump()
		bad := [][]alphabet.QLetter{colLetters(n, 5), colLetters(n-1, 6)}
		if appendCols(bad...) == nil || dump() != before {
			return c, false
		}
	case "AC1", "AC2":
		if n == 0 {
			return c, false
		}
		k := 1
		if op == "AC2" {
			k = 2
		}
		var cols [][]alphabet.QLetter
		for j := 0; j < k; j++ {
			cols = append(cols, colLetters(n, j+len(m.rows[0].cells)))
		}
		for i := range m.rows {
			for j := 0; j < k; j++ {
				m.rows[i].cells = append(m.rows[i].cells, cols[j][i])
			}
		}
		if err := appendCols(cols...); err != nil {
			*errp = fmt.Sprintf("AppendColumns of %d well-formed columns returned %v", len(cols), err)
			return c, false
		}
		for _, col := range cols {
			scribbleQ(col) // the caller reuses its buffers
		}
	case "AE", "AE2":
		if n == 0 {
			return c, false
		}
		runs := make([][]alphabet.QLetter, n)
		max := 0
		for i := range runs {
			l := i % 3
			if op == "AE2" {
				l = (n - i) % 3
			}
			runs[i] = colLetters(l, i+1)
			if l > max {
				max = l
			}
		}
		for i := range m.rows {
			m.rows[i].cells = append(m.rows[i].cells, runs[i]...)
			if m.aligned() {
				for j := len(runs[i]); j < max; j++ {
					m.rows[i].cells = append(m.rows[i].cells, alphabet.QLetter{L: gap})
				}
			}
		}
		if err := appendEach(runs); err != nil {
			*errp = fmt.Sprintf("AppendEach of %d runs returned %v", len(runs), err)
			return c, false
		}
		for _, r := range runs {
			scribbleQ(r)
		}
	case "DL0", "DLl":
		if n < 2 {
			return c, false
		}
		i := 0
		if op == "DLl" {
			i = n - 1
		}
		m.rows = append(m.rows[:i:i], m.rows[i+1:]...)
		c.(interface{ Delete(int) }).Delete(i)
	case "ADD":
		if n == 0 || n >= 4 {
			return c, false
		}
		cells := colLetters(2, 7)
		name := fmt.Sprint("add", n)
		s := mkLinear(m.keepsQ(), name, 1, cells)
		if m.aligned() {
			_, hi := m.span()
			row := mrow{name: name}
			for p := 0; p < hi; p++ {
				if p >= 1 && p < 3 {
					x := cells[p-1]
					if m.kind == "aqseq" {
						// a plain or quality sequence contributes its At(pos)
					}
					row.cells = append(row.cells, x)
				} else {
					row.cells = append(row.cells, alphabet.QLetter{L: gap})
				}
			}
			m.rows = append(m.rows, row)
		} else {
			m.rows = append(m.rows, mrow{name, 1, cells})
		}
		switch v := c.(type) {
		case *alignment.Seq:
			v.Add(s)
		case *alignment.QSeq:
			v.Add(s)
		case *multi.Multi:
			v.Add(s)
		}
	case "FS", "FE", "FB":
		mm, ok := c.(*multi.Multi)
		if !ok || n == 0 {
			return c, false
		}
		where := map[string]int{"FS": seq.Start, "FE": seq.End, "FB": seq.Start | seq.End}[op]
		lo, hi := m.span()
		for i := range m.rows {
			r := &m.rows[i]
			if where&seq.Start != 0 && r.off > lo {
				pad := make([]alphabet.QLetter, r.off-lo)
				for j := range pad {
					pad[j] = alphabet.QLetter{L: 'n'}
				}
				r.cells = append(pad, r.cells...)
				r.off = lo
			}
			if where&seq.End != 0 {
				for r.off+len(r.cells) < hi {
					r.cells = append(r.cells, alphabet.QLetter{L: 'n'})
				}
			}
		}
		mm.Flush(where, 'n')
	case "TR", "TR1", "SS":
		if n == 0 {
			return c, false
		}
		lo, hi := m.cov()
		if m.aligned() {
			lo = 0 // column accessors of column-stored alignments take raw indices
		}
		if op == "TR1" {
			hi--
			if !m.aligned() {
				lo++
			}
		}
		if lo >= hi {
			return c, false
		}
		if op == "SS" {
			mm, ok := c.(*multi.Multi)
			if !ok {
				return c, false
			}
			*frz = append(*frz, frozen{c, m.clone(), "source of Subseq"})
			ns, err := mm.Subseq(lo, hi)
			if err != nil {
				*errp = fmt.Sprintf("Subseq(%d,%d), a range every row covers, returned %v", lo, hi, err)
				return c, false
			}
			c = ns
		}
		for i := range m.rows {
			r := &m.rows[i]
			r.cells = append([]alphabet.QLetter{}, r.cells[lo-r.off:hi-r.off]...)
			r.off = lo
			if op == "SS" {
				r.name = "*" // the statement does not say what the rows of a Subseq are called
			}
		}
		if op != "SS" {
			switch v := c.(type) {
			case *multi.Multi:
				if err := v.Truncate(lo, hi); err != nil {
					*errp = fmt.Sprintf("Truncate(%d,%d), a range every row covers, returned %v", lo, hi, err)
					return c, false
				}
			case *alignment.Seq:
				if err := sequtils.Truncate(v, v, lo, hi); err != nil {
					*errp = fmt.Sprintf("Truncate(%d,%d), a range every row covers, returned %v", lo, hi, err)
					return c, false
				}
			case *alignment.QSeq:
				if err := sequtils.Truncate(v, v, lo, hi); err != nil {
					*errp = fmt.Sprintf("Truncate(%d,%d), a range every row covers, returned %v", lo, hi, err)
					return c, false
				}
			}
		}
	case "CL", "CK":
		if n == 0 {
			return c, false
		}
		cl := c.(interface{ Clone() seq.Rower }).Clone().(container)
		if op == "CL" {
			*frz = append(*frz, frozen{c, m.clone(), "original"})
			c = cl
		} else {
			*frz = append(*frz, frozen{cl, m.clone(), "clone"})
		}
	case "SET":
		if n == 0 || len(m.rows[0].cells) == 0 {
			return c, false
		}
		r := &m.rows[0]
		x := alphabet.QLetter{L: 'g', Q: 33}
		r.cells[0] = x
		c.Row(0).Set(r.off, x)
	default:
		panic(op)
	}
	return c, true
}

func play(c *enum.Ctx, k kase) (key string, steps int, ok bool) {
	c.Doing(k.slot, k)
	fail := func(class, f string, a ...interface{}) {
		c.Fail(k.Kind+"/"+class, k, "%s  [%s]", fmt.Sprintf(f, a...), enum.J(k))
	}
	var cur container
	var m *model
	if c.Guard(k.Kind+"/build-panic", k, func() { cur, m = build(k) }) {
		return "", 0, false
	}
	var frz []frozen
	for i, op := range k.Ops {
		steps++
		var applicable bool
		before := m.String()
		var opErr string
		if c.Guard(k.Kind+"/"+op+"/panic", k, func() { cur, applicable = apply(cur, m, op, &frz, &opErr) }) {
			return "", steps, false
		}
		if opErr != "" {
			fail(op+"/error", "step %d %s on %s: %s", i, op, before, opErr)
			return "", steps, false
		}
		if !applicable {
			return "", steps, false
		}
		var msg string
		if c.Guard(k.Kind+"/"+op+"/view-panic", k, func() { msg = compare(cur, m) }) {
			return "", steps, false
		}
		if msg != "" {
			fail(op, "step %d %s on %s: %s (model now %s)", i, op, before, msg, m)
			return "", steps, false
		}
		for _, f := range frz {
			var fm string
			if c.Guard(k.Kind+"/"+op+"/frozen-view-panic", k, func() { fm = compare(f.c, f.m) }) {
				return "", steps, false
			}
			if fm != "" {
				fail("not-independent/"+op, "step %d: %s on one copy changed the %s: %s", i, op, f.w, fm)
				return "", steps, false
			}
		}
	}
	key = m.String()
	for _, f := range frz {
		key += " // " + f.m.String()
	}
	return key, steps, true
}

func search(c *enum.Ctx, base kase, depth int, states, trans, traces *atomic.Int64, nt enum.NontrivialSet) {
	seen := map[string]bool{}
	k0, _, ok := play(c, base)
	if !ok {
		return
	}
	seen[k0] = true
	states.Add(1)
	frontier := [][]string{{}}
	for d := 0; d < depth; d++ {
		var next [][]string
		for _, h := range frontier {
			for _, op := range opNames {
				nh := append(append([]string{}, h...), op)
				k := base
				k.Ops = nh
				c.Eval()
				key, steps, ok := play(c, k)
				traces.Add(1)
				trans.Add(int64(steps))
				if !ok {
					continue
				}
				nt.Add(enum.J(k))
				if seen[key] && d >= 2 {
					continue
				}
				if !seen[key] {
					states.Add(1)
				}
				seen[key] = true
				next = append(next, nh)
			}
		}
		frontier = next
	}
}

func run(c *enum.Ctx) {
	c.Rule("initial grids: alignment.Seq/QSeq 1..3 rows x 1..3 columns, multi.Multi (plain and quality rows) with every layout of 1..3 rows (quick: three-row layouts only with edit sequences of length <= 2; offsets 0..2, lengths 1..3; plus five layouts with rows that hold no letters yet) over letters {a,c,g,-} with distinct qualities; breadth-first search over edit sequences of depth <=3 (thorough 4) over {AppendColumns 1/2 columns, AppendEach with two unequal run shapes, Delete first/last, Add a linear sequence, Flush start/end/both, Truncate (covered range, and one shorter), Subseq, Clone-and-continue, Clone-and-keep, Set}; caller buffers are overwritten after every append; after each edit Row(i).At(p), Column(p,true/false), ColumnQL(p,true), Rows/Len/Start/End, row names and the count consensus of uniform columns are compared with a plain grid model, and every retained clone/original must be unchanged; the size ladder: grids with 2^k-1, 2^k, 2^k+1 (also 3*2^k, 10^j-1, 10^j, 10^j+1, 5*10^j) columns (3..257, thorough 1025) and appends of that many columns / runs of that many, half that many and no letters, under nine fixed edit lists; a quality alignment with the library's CaseFilter and a threshold of 22; a Multi whose last row object is held twice, flushed at either end and at both; states merged on the model grid (first two levels unmerged)")
	c.Assume("column-stored alignments at offset 0; alignment.QSeq.Column compared only where the quality is at least the container's threshold", "fill letter for uncovered rows is the alphabet's gap with quality 0")
	depth := 3
	maxRows := 2
	if !c.Quick {
		depth, maxRows = 4, 3
	}
	type job struct {
		k kase
		d int
	}
	var jobs []job
	cell := func(r, i int) byte { return "acg-ca-g"[(r*3+i)%8] }
	for _, kind := range []string{"aseq", "aqseq"} {
		for nr := 1; nr <= 3; nr++ {
			for nc := 1; nc <= 3; nc++ {
				var rs []rowDef
				for r := 0; r < nr; r++ {
					b := make([]byte, nc)
					for i := range b {
						b[i] = cell(r, i)
					}
					rs = append(rs, rowDef{0, string(b)})
				}
				jobs = append(jobs, job{kase{Kind: kind, Rows: rs}, depth})
			}
		}
	}
	var layouts [][]rowDef
	var rec func(prefix []rowDef, n int)
	rec = func(prefix []rowDef, n int) {
		if len(prefix) == n {
			layouts = append(layouts, append([]rowDef{}, prefix...))
			return
		}
		for off := 0; off <= 2; off++ {
			for l := 1; l <= 3; l++ {
				b := make([]byte, l)
				for i := range b {
					b[i] = cell(len(prefix), i)
				}
				rec(append(prefix, rowDef{off, string(b)}), n)
			}
		}
	}
	for n := 1; n <= maxRows; n++ {
		rec(nil, n)
	}
	if maxRows < 3 {
		rec(nil, 3) // quick: every three-row layout too, with edit sequences of length <= 2
	}
	// rows that hold no letters yet (an alignment that is filled by appending): all rows empty, and an
	// empty row next to filled ones
	layouts = append(layouts,
		[]rowDef{{0, ""}, {0, ""}},
		[]rowDef{{0, ""}, {0, ""}, {0, ""}},
		[]rowDef{{0, ""}, {0, "ac"}},
		[]rowDef{{0, "a"}, {0, ""}},
		[]rowDef{{1, "cg"}, {1, ""}, {0, "a"}},
	)
	for _, l := range layouts {
		for _, kind := range []string{"multi", "mqulti"} {
			d := depth
			if len(l) == 3 {
				d = 3
				if maxRows < 3 {
					d = 2
				}
			}
			jobs = append(jobs, job{kase{Kind: kind, Rows: l}, d})
		}
	}
	// the size ladder: grids of 2 and 3 rows with 2^k-1, 2^k, 2^k+1 (also 3*2^k, 10^j-1, 10^j, 10^j+1, 5*10^j) columns (3..257, thorough 1025), and
	// appends of that many columns / runs of that many letters, under a handful of fixed edit lists
	topN := 257
	if !c.Quick {
		topN = 1025
	}
	var ladder []kase
	for _, n := range enum.Ladder(3, topN) {
		for _, kind := range []string{"aseq", "aqseq", "multi", "mqulti"} {
			for nr := 2; nr <= 3; nr++ {
				var small, big []rowDef
				for r := 0; r < nr; r++ {
					off := 0
					if kind == "multi" || kind == "mqulti" {
						off = r % 2
					}
					b := make([]byte, n)
					for i := range b {
						b[i] = "acg-"[(i*3+r+i/7)%4]
					}
					big = append(big, rowDef{off, string(b)})
					small = append(small, rowDef{off, string(b[:2])})
				}
				for _, ops := range [][]string{{fmt.Sprint("AE@", n)}, {fmt.Sprint("AC@", n), "AE"}, {"CL", fmt.Sprint("AE@", n), "DL0"}, {fmt.Sprint("AE@", n), fmt.Sprint("AE@", n+1), "FB"}} {
					ladder = append(ladder, kase{Kind: kind, Rows: small, Ops: ops})
				}
				for _, ops := range [][]string{{"AE"}, {"CK", "AC1", "SET"}, {"FB", "TR1"}, {"SS", "AE2"}, {"DLl", "ADD"}} {
					ladder = append(ladder, kase{Kind: kind, Rows: big, Ops: ops})
				}
			}
		}
	}
	// a quality alignment whose filter is not the default one
	for _, rows := range [][]rowDef{{{0, "ac-g"}, {0, "g-ca"}}, {{0, "a-"}, {0, "-c"}, {0, "gg"}}} {
		for _, ops := range [][]string{{"AC1"}, {"AE"}, {"CL", "AC2"}, {"SET"}, {"FB"}, {"SS"}} {
			ladder = append(ladder, kase{Kind: "aqseq", Rows: rows, Ops: ops, CaseFilter: true})
		}
	}
	// a row object held twice (what Add(b, b) makes), flushed at either end and at both
	for _, kind := range []string{"multi", "mqulti"} {
		for _, rows := range [][]rowDef{{{0, "ac"}, {2, "g"}}, {{1, "acg"}, {0, "c"}}, {{0, "a"}, {1, "cg"}, {3, "a"}}, {{2, "ac"}}} {
			for _, op := range []string{"FS", "FE", "FB"} {
				ladder = append(ladder, kase{Kind: kind, Rows: rows, Ops: []string{op}, Shared: true})
			}
		}
	}
	c.Set("ladder_cases", len(ladder))
	var states, trans, traces atomic.Int64
	enum.Parallel(len(ladder), func(i int) {
		k := ladder[i]
		k.slot = i
		c.Eval()
		_, st, _ := play(c, k)
		traces.Add(1)
		trans.Add(int64(st))
		c.Nontrivial(enum.J(k))
	})
	enum.Parallel(len(jobs), func(i int) {
		nt := enum.NontrivialSet{}
		b := jobs[i].k
		b.slot = i
		search(c, b, jobs[i].d, &states, &trans, &traces, nt)
		c.Merge(nt)
		if i%31 == 0 {
			k := jobs[i].k
			k.Ops = []string{"AE", "CL", "DL0"}
			c.Sample(k)
		}
	})
	c.MC(states.Load(), trans.Load(), traces.Load())
	c.Set("initial_objects", len(jobs))
}

func main() {
	enum.Main("C07", "model_checking", run, func(c *enum.Ctx, in json.RawMessage) {
		var k kase
		if err := json.Unmarshal(in, &k); err != nil {
			panic(err)
		}
		fmt.Printf("case %s\n", enum.J(k))
		play(c, k)
	})
}
