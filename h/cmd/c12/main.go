// C12: concurrent-mode external sort is schedule independent.
package main

import (
	"time"

	"github.com/biogo/biogo/verifrt/vrt"
	"verif/h/conc"
	"verif/h/enum"
	"verif/h/mdrv"
)

func drivers(quick bool) []conc.Driver {
	budget := 90 * time.Second
	if !quick {
		budget = 10 * time.Minute
	}
	cfg := vrt.Config{PreemptBound: -1, Budget: budget}
	scs := []mdrv.Scenario{
		{Chunk: 2, Concurrent: true, Cycles: []int{0}},
		{Chunk: 2, Concurrent: true, Cycles: []int{2}},
		{Chunk: 1, Concurrent: true, Cycles: []int{2}},
		{Chunk: 1, Concurrent: true, Cycles: []int{3}},
		{Chunk: 2, Concurrent: true, Cycles: []int{4}},
		{Chunk: 2, Concurrent: true, Cycles: []int{5}},
		{Chunk: 2, Concurrent: true, Cycles: []int{6}},            // the buffer of the first run comes back and is filled again while later runs are written
		{Chunk: 2, Concurrent: true, Cycles: []int{5}, After: 16}, // another, larger sorter lived and was cleaned up before
		{Chunk: 1, Concurrent: true, Cycles: []int{2, 2}},         // the sorter is used again after Clear
		{Chunk: 2, Concurrent: true, Cycles: []int{3, 3}},
		{Chunk: 2, Concurrent: true, Cycles: []int{1, 5}},                  // a use that stays in memory, then one that spills three runs
		{Chunk: 1, Concurrent: true, Cycles: []int{0, 2}},                  // an empty use first
		{Chunk: 2, Concurrent: true, Cycles: []int{1, 3}, AutoClear: true}, // the drain itself clears the sorter
		{Chunk: 1, Concurrent: true, Cycles: []int{2, 2}, AutoClear: true},
		{Chunk: 1, Concurrent: true, Cycles: []int{3, 2}, Abandon: true}, // a load given up half way (Clear without Finalise), then an ordinary one
		{Chunk: 2, Concurrent: true, Cycles: []int{3, 3}, Abandon: true},
		{Chunk: 2, Concurrent: true, Cycles: []int{5}, Struct: true}, // struct elements with zero-valued fields
		{Chunk: 1, Concurrent: true, Cycles: []int{3}, Struct: true},
		{Chunk: 2, Concurrent: true, Cycles: []int{3}, Local: true}, // a function-local element type whose name another function's local type shares
		{Chunk: 2, Concurrent: true, Cycles: []int{5}, Hit: true},
		{Chunk: 2, Concurrent: true, Cycles: []int{5}, Ties: true},  // every key twice: values that tie under Less, within a run and across runs
		{Chunk: 2, Concurrent: true, Cycles: []int{5}, Twice: true}, // Finalise called again before the first Pull   // the library's own element type (what pals sorts), negative and large diagonals
	}
	if !quick {
		scs = append(scs,
			mdrv.Scenario{Chunk: 1, Concurrent: true, Cycles: []int{4}},
			mdrv.Scenario{Chunk: 3, Concurrent: true, Cycles: []int{7}},
		)
	}
	var ds []conc.Driver
	for _, s := range scs {
		s := s
		ds = append(ds, conc.Driver{Name: s.Name(), Cfg: cfg, Mk: func() vrt.Run { return s.Mk() }, Fallback: []int{0, 1, 2, 3, 4, 5, 6}})
	}
	// many runs (the size ladder of the run list): 2^k-1, 2^k, 2^k+1 (also 3*2^k, 10^j-1, 10^j, 10^j+1, 5*10^j) chunks of one value, ONE schedule each
	// (the canonical one; the schedules of such a run are beyond enumeration), race oracle on
	for _, n := range enum.Ladder(15, 513) {
		if quick && n != 257 && n != 64 {
			continue
		}
		s := mdrv.Scenario{Chunk: 1, Concurrent: true, Cycles: []int{n}}
		cfg0 := cfg
		cfg0.Canonical = true
		cfg0.Horizon = 1000000
		ds = append(ds, conc.Driver{Name: s.Name() + "-canonical", Cfg: cfg0, Mk: func() vrt.Run { return s.Mk() }})
	}
	return ds
}

func main() {
	mdrv.Warm()
	conc.Main("C12", "model_checking", drivers, func(c *enum.Ctx) {
		c.Rule("every interleaving (happens-before exhaustive, no preemption bound unless stated per driver) of the caller with the background chunk writers, on the real overlay-instrumented package morass, at the granularity of channel, mutex, waitgroup, go and file operations (create, each gob write, sync, seek, each read, close, remove); distinct = (driver, observable outcome)")
		c.Assume("threads communicate only through operations the instrumenter sees (checked by the vector-clock race oracle on every schedule)", "the file system is sequentially consistent per file", "gob type registration is warmed once before exploring")
	})
}
