// duo is the E1 binary of the "two goroutines, unrelated objects" drivers (package duo).  It is built with
// every package of the library instrumented, and is run by the checks of the sequential properties
// through package duoc:  duo --list <ID>  |  duo --child <driver> <tier>  |  duo --replay <file>.
package main

import (
	"fmt"
	"os"
	"strings"

	"verif/h/conc"
	"verif/h/duo"
	"verif/h/enum"
	"verif/h/mdrv"
)

func main() {
	if len(os.Args) >= 3 && os.Args[1] == "--list" {
		for _, d := range duo.Drivers(true) {
			if strings.HasPrefix(d.Name, "duo/"+os.Args[2]+"/") {
				fmt.Println(d.Name)
			}
		}
		return
	}
	mdrv.Warm()
	conc.Main("DUO", "model_checking", duo.Drivers, func(c *enum.Ctx) {
		c.Rule("two goroutines, unrelated objects: see package duo")
	})
}
