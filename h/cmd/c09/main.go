package main

import (
	"verif/h/alncheck"
	_ "verif/h/duoc"
)

func main() { alncheck.Main("C09") }
