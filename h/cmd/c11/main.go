// C11: external sort over usage histories.
//
// Explicit-state search over operation sequences applied to a real sorter.  A
// state is the operation list that reaches it (real objects cannot be cloned:
// a successor replays the list on a fresh sorter).  States are merged only at
// cycle boundaries (after Clear), on a canonical key read from the sorter by
// reflection; within a cycle the key is the exact operation list.  The search
// runs to closure, so the result covers histories of any number of cycles
// whose per-cycle shapes are in the alphabet.
package main

import (
	"encoding/json"
	"fmt"
	"github.com/biogo/biogo/align/pals/filter"
	"io"
	"os"
	"path/filepath"
	"reflect"
	"runtime"
	"sort"
	"strings"
	"sync"
	"unsafe"
	_ "verif/h/duoc"

	"github.com/biogo/biogo/morass"
	"verif/h/enum"
)

type IV int

func (a IV) Less(b interface{}) bool { return a < b.(IV) }

type KV struct {
	K    int
	Tag  string
	Flag int
}

func (a KV) Less(b interface{}) bool { return a.K < b.(KV).K }

// further element types: a process may sort values of many types, the library's own among them
type (
	E1 string
	E2 float64
	E3 [2]int
	E4 uint8
	E5 struct{ A, B int }
	E6 struct {
		S string
		K int
	}
)

func (a E1) Less(b interface{}) bool { return a < b.(E1) }
func (a E2) Less(b interface{}) bool { return a < b.(E2) }
func (a E3) Less(b interface{}) bool { return a[0] < b.(E3)[0] }
func (a E4) Less(b interface{}) bool { return a < b.(E4) }
func (a E5) Less(b interface{}) bool { return a.A < b.(E5).A }
func (a E6) Less(b interface{}) bool { return a.K < b.(E6).K }

// elementTypes sorts five values of each of eight further element types, one type after the other in this
// process, on sorters of chunk size 2 (two runs and a short one) and chunk size 8 (in memory).
func elementTypes(c *enum.Ctx, dir string) {
	type et struct {
		name  string
		proto interface{}
		mk    func(v int) morass.LessInterface
		pull  func(m *morass.Morass) (string, error)
	}
	show := func(v interface{}) string { return fmt.Sprintf("%v", v) }
	types := []et{
		{"string", E1(""), func(v int) morass.LessInterface { return E1(fmt.Sprint("k", v)) }, func(m *morass.Morass) (string, error) { var x E1; err := m.Pull(&x); return show(x), err }},
		{"float64", E2(0), func(v int) morass.LessInterface { return E2(float64(v) - 2.5) }, func(m *morass.Morass) (string, error) { var x E2; err := m.Pull(&x); return show(x), err }},
		{"array", E3{}, func(v int) morass.LessInterface { return E3{v, -v} }, func(m *morass.Morass) (string, error) { var x E3; err := m.Pull(&x); return show(x), err }},
		{"uint8", E4(0), func(v int) morass.LessInterface { return E4(200 + v) }, func(m *morass.Morass) (string, error) { var x E4; err := m.Pull(&x); return show(x), err }},
		{"struct", E5{}, func(v int) morass.LessInterface { return E5{v, -v} }, func(m *morass.Morass) (string, error) { var x E5; err := m.Pull(&x); return show(x), err }},
		{"struct-string", E6{}, func(v int) morass.LessInterface { return E6{fmt.Sprint("s", v%2), v} }, func(m *morass.Morass) (string, error) { var x E6; err := m.Pull(&x); return show(x), err }},
		{"filter.Hit", filter.Hit{}, func(v int) morass.LessInterface { return filter.Hit{From: v, To: v + 7, Diagonal: 3 - 2*v} }, func(m *morass.Morass) (string, error) { var x filter.Hit; err := m.Pull(&x); return show(x), err }},
		{"filter.Hit-large", filter.Hit{}, func(v int) morass.LessInterface { return filter.Hit{From: v, To: v + 1<<33, Diagonal: 1<<40 + v} }, func(m *morass.Morass) (string, error) { var x filter.Hit; err := m.Pull(&x); return show(x), err }},
	}
	for _, chunk := range []int{2, 8} {
		for ti, t := range types {
			k := map[string]interface{}{"element_type": t.name, "chunk": chunk, "nth_type_of_the_process": ti + 3}
			c.Doing(0, k)
			c.Eval()
			c.Guard("element-types/panic", k, func() {
				m, err := morass.New(t.proto, "c11t", dir, chunk, false)
				if err != nil {
					c.Fail("element-types/new", k, "morass.New: %v", err)
					return
				}
				defer func() {
					m.CleanUp()
					runtime.SetFinalizer(m, nil)
				}()
				var want []string
				for v := 5; v >= 1; v-- {
					if err := m.Push(t.mk(v)); err != nil {
						c.Fail("element-types/push", k, "Push of a %s element: %v", t.name, err)
						return
					}
				}
				for v := 1; v <= 5; v++ {
					want = append(want, show(t.mk(v)))
				}
				if err := m.Finalise(); err != nil {
					c.Fail("element-types/finalise", k, "Finalise: %v", err)
					return
				}
				var got []string
				for {
					s, err := t.pull(m)
					if err == io.EOF {
						break
					}
					if err != nil {
						c.Fail("element-types/pull", k, "Pull: %v after %v", err, got)
						return
					}
					if got = append(got, s); len(got) > 6 {
						break
					}
				}
				if fmt.Sprint(got) != fmt.Sprint(want) {
					c.Fail("element-types/values", k, "pulled %v, want %v", got, want)
				}
			})
			if chunk == 2 {
				c.Nontrivial(enum.J(k))
			}
		}
	}
}

// cycle: push Vals in order, Finalise, Pull Pulls times (len+1 = through EOF), then Clear
// (explicitly, unless AutoClear already did at EOF).
type cycle struct {
	Vals  []int `json:"vals"`
	Pulls int   `json:"pulls"`
}

type config struct {
	Chunk     int  `json:"chunk"`
	AutoClear bool `json:"autoclear"`
	Conc      bool `json:"concurrent"`
	Struct    bool `json:"struct_elems"`
}

type history struct {
	Cfg    config  `json:"cfg"`
	Cycles []cycle `json:"cycles"`
}

// stateKey renders the part of the sorter that can influence the future at a
// cycle boundary.  It walks ALL fields of the struct by reflection (so that
// renaming or regrouping fields does not matter): scalars by value; slices as
// (nil, len, cap==0); channels as their buffered contents, each rendered the
// same way (the channel is rotated to look at them); interfaces and pointers
// as nil / non-nil; strings (temp directory, prefix), functions, types and
// synchronisation primitives are skipped; nested structs are walked.  ok=false
// when the value is not a struct pointer.
func stateKey(m *morass.Morass) (string, bool) {
	v := reflect.ValueOf(m)
	if v.Kind() != reflect.Ptr || v.Elem().Kind() != reflect.Struct {
		return "", false
	}
	var sb strings.Builder
	walkStruct(&sb, v.Elem(), 0)
	return sb.String(), true
}

func walkStruct(sb *strings.Builder, v reflect.Value, depth int) {
	t := v.Type()
	if p := t.PkgPath(); p == "sync" || p == "sync/atomic" || p == "reflect" || depth > 3 {
		return
	}
	for i := 0; i < v.NumField(); i++ {
		f := v.Field(i)
		if f.CanAddr() {
			f = reflect.NewAt(f.Type(), unsafe.Pointer(f.UnsafeAddr())).Elem()
		}
		fmt.Fprintf(sb, "%d:", i)
		walkValue(sb, f, depth)
		sb.WriteByte(';')
	}
}

func walkValue(sb *strings.Builder, f reflect.Value, depth int) {
	switch f.Kind() {
	case reflect.Bool:
		fmt.Fprint(sb, f.Bool())
	case reflect.Int, reflect.Int8, reflect.Int16, reflect.Int32, reflect.Int64:
		fmt.Fprint(sb, f.Int())
	case reflect.Uint, reflect.Uint8, reflect.Uint16, reflect.Uint32, reflect.Uint64:
		fmt.Fprint(sb, f.Uint())
	case reflect.Slice:
		fmt.Fprintf(sb, "nil:%v,len:%d,cap0:%v", f.IsNil(), f.Len(), f.Cap() == 0)
	case reflect.Chan:
		if f.IsNil() {
			sb.WriteString("nilchan")
			return
		}
		k := f.Len()
		fmt.Fprintf(sb, "chan%d[", k)
		for j := 0; j < k; j++ {
			// never block: on a tree where a background writer is still using the channel at a
			// cycle boundary the rotation may come up short; that shows in the key, not as a hang
			x, ok := f.TryRecv()
			if !ok {
				sb.WriteString("busy")
				break
			}
			walkValue(sb, x, depth+1)
			sb.WriteByte('|')
			if !f.TrySend(x) {
				sb.WriteString("full")
			}
		}
		sb.WriteByte(']')
	case reflect.Interface, reflect.Ptr, reflect.Map:
		fmt.Fprintf(sb, "nil:%v", f.IsNil())
	case reflect.Struct:
		sb.WriteByte('{')
		walkStruct(sb, f, depth+1)
		sb.WriteByte('}')
	}
}

type runner struct {
	c      *enum.Ctx
	parent string
}

func elem(cfg config, v int, n int) morass.LessInterface {
	if cfg.Struct {
		// payload fields take their zero value for some elements (an encoding that omits zero fields
		// must not let them inherit a neighbour's)
		tag := ""
		if n%2 == 1 {
			tag = fmt.Sprint("t", n)
		}
		return KV{v, tag, n % 3}
	}
	return IV(v)
}

// run replays h on a fresh sorter, checking the reference model after every
// operation of the LAST cycle only when lastOnly (earlier cycles were checked
// when they were the last).  Returns the boundary key after the final Clear.
func (r *runner) run(h history, lastOnly bool) (key string, canMerge bool, transitions int, failed bool) {
	c := r.c
	var proto interface{} = IV(0)
	if h.Cfg.Struct {
		proto = KV{}
	}
	m, err := morass.New(proto, "c11", r.parent, h.Cfg.Chunk, h.Cfg.Conc)
	if err != nil {
		c.Note("morass.New failed: %v", err)
		return "", false, 0, true
	}
	defer func() {
		m.CleanUp()
		// morass.New sets a finalizer; millions of short-lived sorters would otherwise wait, with their
		// run files and 4 KiB gob buffers, for the single finalizer goroutine
		runtime.SetFinalizer(m, nil)
	}()
	m.AutoClear = h.Cfg.AutoClear
	fail := func(class, f string, a ...interface{}) {
		failed = true
		c.Fail(class, h, "%s  [history %s]", fmt.Sprintf(f, a...), enum.J(h))
	}
	defer func() {
		// a panic inside the sorter delivers nothing: a verdict on this history, not a crash of the harness
		if p := recover(); p != nil {
			fail("panic", "the sorter panicked: %v", p)
		}
	}()
	serial := 0
	for ci, cy := range h.Cycles {
		check := !lastOnly || ci == len(h.Cycles)-1
		var want []morass.LessInterface
		for i, v := range cy.Vals {
			serial++
			e := elem(h.Cfg, v, serial)
			transitions++
			if err := m.Push(e); err != nil {
				fail("push-error", "cycle %d: Push #%d returned %v", ci, i, err)
				return
			}
			want = append(want, e)
			if check && (m.Len() != int64(i+1) || m.Pos() != int64(i+1)) {
				fail("len-pos/push", "cycle %d after %d pushes: Len=%d Pos=%d", ci, i+1, m.Len(), m.Pos())
				return
			}
		}
		transitions++
		if err := m.Finalise(); err != nil {
			fail("finalise-error", "cycle %d: Finalise returned %v", ci, err)
			return
		}
		if check && (m.Len() != int64(len(want)) || m.Pos() != 0) {
			fail("len-pos/finalise", "cycle %d after Finalise of %d values: Len=%d Pos=%d", ci, len(want), m.Len(), m.Pos())
			return
		}
		sort.SliceStable(want, func(i, j int) bool { return want[i].Less(want[j]) })
		var got []morass.LessInterface
		cleared := false
		for p := 0; p < cy.Pulls; p++ {
			transitions++
			var err error
			var v morass.LessInterface
			if h.Cfg.Struct {
				var x KV
				err = m.Pull(&x)
				v = x
			} else {
				var x IV
				err = m.Pull(&x)
				v = x
			}
			if len(got) == len(want) {
				if err != io.EOF {
					fail("no-eof", "cycle %d: Pull #%d after %d of %d values returned (%v, %v), want io.EOF", ci, p, len(got), len(want), v, err)
					return
				}
				cleared = h.Cfg.AutoClear
				break
			}
			if err != nil {
				if err == io.EOF {
					fail("values-lost", "cycle %d: Pull #%d returned io.EOF after %d of %d values %v", ci, p, len(got), len(want), want)
				} else {
					fail("pull-error", "cycle %d: Pull #%d returned %v", ci, p, err)
				}
				return
			}
			got = append(got, v)
			if check {
				i := len(got) - 1
				if want[i].Less(v) || v.Less(want[i]) {
					fail("wrong-order-or-value", "cycle %d: Pull #%d returned %v, want key of %v (sorted input %v)", ci, p, v, want[i], want)
					return
				}
				if m.Len() != int64(len(want)) || m.Pos() != int64(len(got)) {
					fail("len-pos/pull", "cycle %d after %d pulls of %d: Len=%d Pos=%d", ci, len(got), len(want), m.Len(), m.Pos())
					return
				}
			}
		}
		if check && len(got) == len(want) {
			// exhaustion: the pulled multiset is exactly the pushed one
			a, b := fmt.Sprint(multiset(got)), fmt.Sprint(multiset(want))
			if a != b {
				fail("wrong-multiset", "cycle %d: pulled %v, pushed %v", ci, got, want)
				return
			}
		}
		if !cleared {
			transitions++
			if err := m.Clear(); err != nil {
				fail("clear-error", "cycle %d: Clear returned %v", ci, err)
				return
			}
		}
		if check && (m.Len() != 0 || m.Pos() != 0) {
			fail("len-pos/clear", "cycle %d after Clear: Len=%d Pos=%d", ci, m.Len(), m.Pos())
			return
		}
	}
	key, canMerge = stateKey(m)
	return
}

func multiset(v []morass.LessInterface) []string {
	s := make([]string, len(v))
	for i, e := range v {
		s[i] = fmt.Sprint(e)
	}
	sort.Strings(s)
	return s
}

// cycleAlphabet lists the per-cycle shapes: every value sequence over {1,2} of
// the lengths on both sides of the chunk size, with every pull count.
func cycleAlphabet(chunk int, quick bool) []cycle {
	lens := map[int]bool{0: true, 1: true, chunk - 1: true, chunk: true, chunk + 1: true, 2*chunk + 1: true}
	if !quick {
		lens[2*chunk] = true
		lens[3*chunk+1] = true
	}
	if chunk >= 5 {
		lens[chunk+2] = true // still below the capacity a grown buffer of this size would have
	}
	var ls []int
	for l := range lens {
		if l >= 0 {
			ls = append(ls, l)
		}
	}
	sort.Ints(ls)
	var out []cycle
	for _, l := range ls {
		var seqs [][]int
		if l == 0 {
			seqs = [][]int{{}}
		} else if l <= 3 || (!quick && l <= 5) {
			enum.Strings("\x01\x02", l, l, func(s []byte) {
				v := make([]int, l)
				for i := range s {
					v[i] = int(s[i])
				}
				seqs = append(seqs, v)
			})
		} else {
			// longer runs: descending, ascending, alternating (order matters, not the exact word)
			d, a, alt := make([]int, l), make([]int, l), make([]int, l)
			for i := 0; i < l; i++ {
				d[i], a[i], alt[i] = l-i, i+1, 1+i%2
			}
			seqs = [][]int{d, a, alt}
		}
		for _, s := range seqs {
			pulls := map[int]bool{0: true, 1: true, l / 2: true, l: true, l + 1: true}
			var ps []int
			for p := range pulls {
				ps = append(ps, p)
			}
			sort.Ints(ps)
			for _, p := range ps {
				out = append(out, cycle{s, p})
			}
		}
	}
	return out
}

func explore(c *enum.Ctx, cfg config, work string, shard int, big bool, minDepth int) {
	r := &runner{c: c, parent: filepath.Join(work, fmt.Sprintf("c11-%d", shard))}
	os.MkdirAll(r.parent, 0o755)
	defer os.RemoveAll(r.parent)
	alpha := cycleAlphabet(cfg.Chunk, !big)
	// BFS over boundary states; a state is represented by the shortest history reaching it
	type node struct{ h history }
	// the visited set holds 128-bit digests of the keys (the keys themselves are reflective dumps of
	// several hundred bytes; millions of them do not fit in memory)
	type digest [2]uint64
	dg := func(k string) digest { return digest{enum.Hash64(k), enum.Hash64("#" + k + "#")} }
	seen := map[digest]struct{}{}
	initKey, canMerge, _, _ := r.run(history{Cfg: cfg}, true)
	if !canMerge {
		c.NotExhaustive("a private field of morass.Morass used by the canonical key is missing; merging disabled, depth bounded to 2 cycles")
	}
	seen[dg(initKey)] = struct{}{}
	frontier := []history{{Cfg: cfg}}
	var states, trans, merged, execs int64 = 1, 0, 0, 0
	depth := 0
	maxDepth := 1 << 30
	// Below minDepth nothing is merged: every history of that many cycles is run, so
	// state carried from one cycle into the next is caught even if it lives somewhere the
	// canonical key does not look.
	if !canMerge {
		maxDepth = minDepth
	}
	for len(frontier) > 0 && depth < maxDepth {
		depth++
		var next []history
		for _, h := range frontier {
			for _, cy := range alpha {
				nh := history{Cfg: cfg, Cycles: append(append([]cycle{}, h.Cycles...), cy)}
				c.Doing(shard, nh)
				c.Eval()
				execs++
				key, ok, t, failed := r.run(nh, true)
				trans += int64(t)
				if len(cy.Vals) > cfg.Chunk {
					c.Nontrivial(enum.J(nh))
				}
				if failed {
					continue
				}
				if !ok {
					key = enum.J(nh)
				}
				if _, dup := seen[dg(key)]; dup && depth >= minDepth {
					merged++
					continue
				}
				seen[dg(key)] = struct{}{}
				states++
				next = append(next, nh)
				if c.WantSample() && len(nh.Cycles) == 2 {
					c.Sample(nh)
				}
			}
		}
		frontier = next
	}
	c.MC(states, trans, execs)
	mu.Lock()
	boundary[fmt.Sprintf("%s big_alphabet=%v unmerged_depth=%d", enum.J(cfg), big, minDepth)] = map[string]interface{}{"boundary_states": states, "merged": merged, "bfs_depth_cycles": depth, "cycle_alphabet": len(alpha)}
	mu.Unlock()
}

var (
	mu       sync.Mutex
	boundary = map[string]interface{}{}
)

func run(c *enum.Ctx) {
	c.Rule("breadth-first search over cycle histories on a real sorter: each transition is one whole cycle (push a value word, Finalise, k Pulls, Clear) from an alphabet with push counts 0,1,chunk-1,chunk,chunk+1,(chunk+2 for chunk 5),2chunk+1 (thorough: 2chunk, 3chunk+1), every value word over {1,2} up to length 3 (5) and every pull count in {0,1,half,all,all+1}; states are merged at cycle boundaries on a reflective key of the sorter (every field of the struct: scalars, slice shapes, channel contents, nil-ness of interfaces; strings and sync primitives skipped); run to closure per configuration (chunk 1,2,3,5 x AutoClear x concurrent x element type); reference model = sorted multiset; plus the size ladder: chunk sizes 2^k-1, 2^k, 2^k+1 (also 3*2^k, 10^j-1, 10^j, 10^j+1, 5*10^j) up to 5001 (thorough 10001) with one- and two-cycle histories around the chunk size, and 7..513 run files at chunk sizes 1 and 2; eight further element types (string, float, array, byte, structs, the library's filter.Hit with negative and >32-bit fields) sorted one after the other in the process, spilling and in memory; non-trivial = histories whose last cycle spills")
	c.Assume("protocol order push* finalise pull* clear; Clear implicit after EOF with AutoClear", "two histories with equal boundary keys have equal futures (the key is read from the real object; a missing field disables merging); histories of up to 2 (thorough: 3) cycles are all run without merging")
	work := os.Getenv("VERIF_WORK")
	if work == "" {
		work = os.TempDir()
	}
	elementTypes(c, work)
	var cfgs []config
	for _, chunk := range []int{1, 2, 3, 5} { // 5: not a capacity that append-growth produces
		for _, ac := range []bool{false, true} {
			for _, conc := range []bool{false, true} {
				for _, st := range []bool{false, true} {
					cfgs = append(cfgs, config{chunk, ac, conc, st})
				}
			}
		}
	}
	if c.Quick {
		enum.Parallel(len(cfgs), func(i int) { explore(c, cfgs[i], work, i, false, 2) })
	} else {
		// two searches per configuration: the large alphabet with all 2-cycle histories
		// unmerged, and the small alphabet with all 3-cycle histories unmerged
		enum.Parallel(2*len(cfgs), func(i int) {
			if i%2 == 0 {
				explore(c, cfgs[i/2], work, i, true, 2)
			} else {
				explore(c, cfgs[i/2], work, i, false, 3)
			}
		})
	}
	c.Set("per_configuration", boundary)
	// the size ladder: chunk sizes 2^k-1, 2^k, 2^k+1 (also 3*2^k, 10^j-1, 10^j, 10^j+1, 5*10^j) (7..2049, thorough 4097) with one- and two-cycle
	// histories whose counts lie on both sides of the chunk size (and a little beyond: below the capacity
	// a grown buffer would have), and chunk sizes 1 and 2 with 2^k-1, 2^k, 2^k+1 (also 3*2^k, 10^j-1, 10^j, 10^j+1, 5*10^j) values (many runs: 7..513
	// run files); every cycle drained and checked
	top := 5001
	if !c.Quick {
		top = 10001
	}
	type lj struct {
		cfg config
		h   [][2]int // (count, pulls) per cycle
	}
	var ljs []lj
	vals := func(n int) []int {
		v := make([]int, n)
		for i := range v {
			v[i] = 1 + (n-i)%7 // descending within a period, duplicates
		}
		return v
	}
	for _, chunk := range enum.Ladder(7, top) {
		for _, ac := range []bool{false, true} {
			for _, conc := range []bool{false, true} {
				cfg := config{chunk, ac, conc, false}
				for _, n := range []int{chunk - 1, chunk, chunk + 1, chunk + chunk/8 + 2, 2*chunk + 1} {
					ljs = append(ljs, lj{cfg, [][2]int{{n, n + 1}}})
					ljs = append(ljs, lj{cfg, [][2]int{{3, 4}, {n, n + 1}}})
					ljs = append(ljs, lj{cfg, [][2]int{{chunk + 1, 2}, {n, n + 1}}})
				}
			}
		}
	}
	for _, chunk := range []int{1, 2} {
		for _, n := range enum.Ladder(7, 513) {
			for _, conc := range []bool{false, true} {
				ljs = append(ljs, lj{config{chunk, n%2 == 0, conc, n%3 == 0}, [][2]int{{n * chunk, n*chunk + 1}}})
			}
		}
	}
	enum.Parallel(len(ljs), func(i int) {
		r := &runner{c: c, parent: filepath.Join(work, fmt.Sprintf("c11-ladder-%d", i))}
		os.MkdirAll(r.parent, 0o755)
		defer os.RemoveAll(r.parent)
		h := history{Cfg: ljs[i].cfg}
		for _, cy := range ljs[i].h {
			h.Cycles = append(h.Cycles, cycle{vals(cy[0]), cy[1]})
		}
		c.Doing(1000+i, h)
		c.Eval()
		r.run(h, false)
		c.Nontrivial(fmt.Sprint("ladder", i))
	})
	c.Set("ladder_histories", len(ljs))
}

func main() {
	enum.Main("C11", "model_checking", run, func(c *enum.Ctx, in json.RawMessage) {
		var h history
		if err := json.Unmarshal(in, &h); err != nil {
			panic(err)
		}
		fmt.Printf("history %s\n", enum.J(h))
		r := &runner{c: c, parent: os.TempDir()}
		r.run(h, false)
	})
}
