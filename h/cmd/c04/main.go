// C04: parsed records do not depend on line layout or terminators.
package main

import (
	"bytes"
	"encoding/json"
	"errors"
	"fmt"
	"github.com/biogo/biogo/seq"
	"github.com/biogo/biogo/seq/linear"
	"io"
	"strings"
	_ "verif/h/duoc"

	"github.com/biogo/biogo/alphabet"
	"github.com/biogo/biogo/feat"
	"github.com/biogo/biogo/io/featio/bed"
	"github.com/biogo/biogo/io/featio/gff"
	"github.com/biogo/biogo/io/seqio/fasta"
	"github.com/biogo/biogo/io/seqio/fastq"
	"verif/h/enum"
	"verif/h/featgen"
	"verif/h/seqgen"
)

// A layout is applied to the canonical line list of a valid file.
type layout struct {
	CRLF     bool   `json:"crlf,omitempty"`
	NoFinal  bool   `json:"nofinal,omitempty"`
	Blank    []int  `json:"blank,omitempty"` // insert a blank line before line i (len = after the last)
	Trail    []int  `json:"trail,omitempty"` // append white space to line i
	TrailWS  string `json:"trailws,omitempty"`
	AllTrail bool   `json:"alltrail,omitempty"`
	BlankWS  string `json:"blankws,omitempty"` // what an inserted blank line holds (white space only)
}

type kase struct {
	Format  string        `json:"format"` // fasta fastq bed gff
	Recs    []seqgen.Rec  `json:"recs,omitempty"`
	LongLen int           `json:"longlen,omitempty"`
	Width   int           `json:"width,omitempty"` // FASTA wrap width of the variant
	Enc     int           `json:"enc,omitempty"`
	QID     bool          `json:"qid,omitempty"`
	QT      bool          `json:"qtemplate,omitempty"`      // FASTA read into a quality-carrying template (letters appended line by line)
	Protein bool          `json:"protein,omitempty"`        // FASTA over the protein alphabet (its stop letter '*' included)
	Picky   bool          `json:"picky_template,omitempty"` // FASTA read into a template of the caller's own whose SetDescription refuses the empty string
	Prefix  bool          `json:"prefixed,omitempty"`       // FASTA written and read with IDPrefix "#>" and SeqPrefix "##" (as embedded in other formats)
	BedTyp  int           `json:"bedtyp,omitempty"`
	Bed     []featgen.Bed `json:"bed,omitempty"`
	Gff     []featgen.Gff `json:"gff,omitempty"`
	L       layout        `json:"layout"`
}

// pickyT is a FASTA template that refuses an empty description (a reader that finds no description does
// not set one).
type pickyT struct{ *linear.Seq }

func (p pickyT) Clone() seq.Sequence { return pickyT{p.Seq.Clone().(*linear.Seq)} }
func (p pickyT) SetDescription(d string) error {
	if d == "" {
		return errors.New("template: empty description refused")
	}
	return p.Seq.SetDescription(d)
}

func render(lines []string, l layout) []byte {
	isBlank := map[int]bool{}
	for _, b := range l.Blank {
		isBlank[b] = true
	}
	trail := map[int]bool{}
	for _, t := range l.Trail {
		trail[t] = true
	}
	nl := "\n"
	if l.CRLF {
		nl = "\r\n"
	}
	var sb strings.Builder
	for i, ln := range lines {
		if isBlank[i] {
			sb.WriteString(l.BlankWS + nl)
		}
		sb.WriteString(ln)
		if trail[i] || l.AllTrail {
			sb.WriteString(l.TrailWS)
		}
		sb.WriteString(nl)
	}
	if isBlank[len(lines)] {
		sb.WriteString(l.BlankWS + nl)
	}
	out := sb.String()
	if l.NoFinal {
		out = strings.TrimSuffix(out, nl)
	}
	return []byte(out)
}

func splitLines(text []byte) []string {
	s := strings.TrimSuffix(string(text), "\n")
	if s == "" {
		return nil
	}
	return strings.Split(s, "\n")
}

func recordsOf(k kase) []seqgen.Rec {
	recs := append([]seqgen.Rec{}, k.Recs...)
	if k.LongLen > 0 {
		for i := range recs {
			if recs[i].Letters == "" && recs[i].Name == "long" {
				recs[i].Letters = seqgen.Fill("acNg-t", k.LongLen)
				if k.Format == "fastq" {
					qa := seqgen.QualAlphabet(alphabet.Encoding(k.Enc))
					recs[i].Quals = make([]int, k.LongLen)
					for j := range recs[i].Quals {
						recs[i].Quals[j] = qa[(j*5+j/3)%len(qa)]
					}
				}
			}
		}
	}
	return recs
}

func featStrings(fs []feat.Feature, bedTyp int) []string {
	out := make([]string, len(fs))
	for i, f := range fs {
		if bedTyp > 0 {
			out[i] = featgen.BedString(f, bedTyp)
		} else {
			out[i] = featgen.GffString(f)
		}
	}
	return out
}

func check(c *enum.Ctx, k kase) {
	fail := func(class, f string, a ...interface{}) { c.Fail(k.Format+"/"+class, k, "%s", fmt.Sprintf(f, a...)) }
	c.Guard(k.Format+"/panic", k, func() {
		switch k.Format {
		case "fasta", "fastq":
			recs := recordsOf(k)
			var text []byte
			var err error
			enc := alphabet.Encoding(k.Enc)
			if k.Format == "fasta" && k.Prefix {
				var buf bytes.Buffer
				w := fasta.NewWriter(&buf, k.Width)
				w.IDPrefix, w.SeqPrefix = []byte("#>"), []byte("##")
				for _, r := range recs {
					if _, err = w.Write(seqgen.Make(r, false, k.Protein, alphabet.Sanger)); err != nil {
						break
					}
				}
				text = buf.Bytes()
			} else if k.Format == "fasta" {
				text, err = seqgen.WriteFasta(recs, false, k.Protein, k.Width)
			} else {
				text, err = seqgen.WriteFastq(recs, true, enc, k.QID)
			}
			if err != nil {
				fail("write", "%v", err)
				return
			}
			variant := render(splitLines(text), k.L)
			var got []seqgen.Rec
			comp := seqgen.NewCompanion(k.Format) // a second reader over another layout, advanced alternately
			if k.Format == "fasta" {
				tmpl := seqgen.Template(k.QT, k.Protein, alphabet.Sanger)
				if k.Picky {
					tmpl = pickyT{linear.NewSeq("", nil, alphabet.DNA)}
				}
				rd := fasta.NewReader(bytes.NewReader(variant), tmpl)
				if k.Prefix {
					rd.IDPrefix, rd.SeqPrefix = []byte("#>"), []byte("##")
				}
				got, _, err = seqgen.ReadAllWith(rd, comp, false, len(recs)+2)
			} else {
				got, _, err = seqgen.ReadAllWith(fastq.NewReader(bytes.NewReader(variant), seqgen.Template(true, false, enc)), comp, true, len(recs)+2)
			}
			if msg := comp.Verdict(); msg != "" {
				fail("interference/"+layoutClass(k.L), "layout %s: %s", enum.J(k.L), msg)
			}
			if err != nil {
				fail("read-error/"+layoutClass(k.L), "layout %s of a valid file: %v (text %q)", enum.J(k.L), err, clip(variant))
				return
			}
			if msg := seqgen.Same(got, recs, k.Format == "fastq"); msg != "" {
				fail("records-differ/"+layoutClass(k.L), "layout %s: %s (text %q)", enum.J(k.L), msg, clip(variant))
			}
		case "bed":
			text, err := featgen.WriteBed(k.Bed, k.BedTyp, k.BedTyp)
			if err != nil {
				fail("write", "%v", err)
				return
			}
			src0 := bytes.NewReader(text)
			r0, _ := bed.NewReader(src0, k.BedTyp)
			want, _, err := featgen.ReadFeatures(r0, len(k.Bed)+2)
			if err != nil || len(want) != len(k.Bed) {
				fail("canonical-read", "canonical file: %d records, err %v", len(want), err)
				return
			}
			variant := render(splitLines(text), k.L)
			src1 := bytes.NewReader(variant)
			r1, _ := bed.NewReader(src1, k.BedTyp)
			got, _, err := featgen.ReadFeatures(r1, len(k.Bed)+2)
			if err != nil {
				fail("read-error/"+layoutClass(k.L), "layout %s: %v (text %q)", enum.J(k.L), err, clip(variant))
				return
			}
			if a, b := fmt.Sprint(featStrings(got, k.BedTyp)), fmt.Sprint(featStrings(want, k.BedTyp)); a != b {
				fail("records-differ/"+layoutClass(k.L), "layout %s: %d records %s, want %d records %s (text %q)", enum.J(k.L), len(got), a, len(want), b, clip(variant))
				return
			}
			// the same readers used for a second pass after their sources were rewound
			src0.Seek(0, io.SeekStart)
			src1.Seek(0, io.SeekStart)
			want2, _, err0 := featgen.ReadFeatures(r0, len(k.Bed)+2)
			got2, _, err1 := featgen.ReadFeatures(r1, len(k.Bed)+2)
			if a, b := fmt.Sprint(featStrings(got2, k.BedTyp), err1), fmt.Sprint(featStrings(want2, k.BedTyp), err0); a != b {
				fail("second-pass-differs/"+layoutClass(k.L), "layout %s: second pass over the rewound source gives %s, the canonical file gives %s (text %q)", enum.J(k.L), a, b, clip(variant))
			}
		case "gff":
			text, err := featgen.WriteGff(k.Gff, 3, false)
			if err != nil {
				fail("write", "%v", err)
				return
			}
			src0 := bytes.NewReader(text)
			r0 := gff.NewReader(src0)
			want, _, err := featgen.ReadFeatures(r0, len(k.Gff)+2)
			if err != nil || len(want) != len(k.Gff) {
				fail("canonical-read", "canonical file: %d items, err %v", len(want), err)
				return
			}
			variant := render(splitLines(text), k.L)
			src1 := bytes.NewReader(variant)
			r1 := gff.NewReader(src1)
			got, _, err := featgen.ReadFeatures(r1, len(k.Gff)+2)
			if err != nil {
				fail("read-error/"+layoutClass(k.L), "layout %s: %v (text %q)", enum.J(k.L), err, clip(variant))
				return
			}
			if a, b := fmt.Sprint(featStrings(got, 0)), fmt.Sprint(featStrings(want, 0)); a != b {
				fail("records-differ/"+layoutClass(k.L), "layout %s: %d items %s, want %d items %s (text %q)", enum.J(k.L), len(got), a, len(want), b, clip(variant))
				return
			}
			src0.Seek(0, io.SeekStart)
			src1.Seek(0, io.SeekStart)
			want2, _, err0 := featgen.ReadFeatures(r0, len(k.Gff)+2)
			got2, _, err1 := featgen.ReadFeatures(r1, len(k.Gff)+2)
			if a, b := fmt.Sprint(featStrings(got2, 0), err1), fmt.Sprint(featStrings(want2, 0), err0); a != b {
				fail("second-pass-differs/"+layoutClass(k.L), "layout %s: second pass over the rewound source gives %s, the canonical file gives %s (text %q)", enum.J(k.L), a, b, clip(variant))
			}
		}
	})
}

func layoutClass(l layout) string {
	var p []string
	if l.CRLF {
		p = append(p, "crlf")
	}
	if l.NoFinal {
		p = append(p, "nofinal")
	}
	if len(l.Blank) > 0 && l.BlankWS != "" {
		p = append(p, "whitespace-line")
	} else if len(l.Blank) > 0 {
		p = append(p, "blank")
	}
	if len(l.Trail) > 0 || l.AllTrail {
		p = append(p, "trailing")
	}
	if len(p) == 0 {
		return "canonical"
	}
	return strings.Join(p, "+")
}

func clip(b []byte) string {
	if len(b) > 160 {
		return string(b[:160]) + "..."
	}
	return string(b)
}

// layouts enumerates the transformations for a file of n lines. between: blank lines only at the given sites.
func layouts(n int, blankSites []int, trailing bool, pairs bool) []layout {
	var out []layout
	for _, crlf := range []bool{false, true} {
		for _, nofinal := range []bool{false, true} {
			base := layout{CRLF: crlf, NoFinal: nofinal}
			out = append(out, base)
			for _, b := range blankSites {
				l := base
				l.Blank = []int{b}
				out = append(out, l)
				if pairs {
					for _, b2 := range blankSites {
						if b2 > b {
							l2 := base
							l2.Blank = []int{b, b2}
							out = append(out, l2)
						}
					}
				}
			}
			if trailing {
				// blank lines that are not empty: white space only
				for _, b := range blankSites {
					for _, ws := range []string{" ", " \t"} {
						l := base
						l.Blank, l.BlankWS = []int{b}, ws
						out = append(out, l)
					}
				}
				for _, ws := range []string{" ", "\t", " \t"} {
					l := base
					l.AllTrail, l.TrailWS = true, ws
					out = append(out, l)
					for i := 0; i < n; i++ {
						l := base
						l.Trail, l.TrailWS = []int{i}, ws
						out = append(out, l)
						if pairs || ws == " " {
							for _, b := range blankSites {
								l2 := l
								l2.Blank = []int{b}
								out = append(out, l2)
							}
						}
					}
				}
			}
		}
	}
	return out
}

func run(c *enum.Ctx) {
	c.Rule("FASTA read into plain and quality-carrying templates and (layouts with trailing blanks) into a template that refuses an empty description, and written/read with ID and sequence-line prefixes; every FASTA/FASTQ file read alternately with a companion reader of another configuration; valid files from the C01/C02 generators (DNA and protein records, the protein stop letter alone on a line) (<=2 records; FASTA also a 12289-letter record) x layout transformations: FASTA re-wrap at widths {1,2,3,60,4095,4096,4097,20000}, a blank line - empty or holding white space only - at every line boundary (thorough: every pair), trailing ' ', tab, ' tab' on each line and on all lines, CRLF, no final newline, and their pairwise combinations; FASTQ: CRLF, blank lines at record boundaries, trailing blanks, no final newline; BED (every type) and GFF (features, regions, inline sequences last or not; a record whose line is 4094..4097, 8191..8193 and 12288 bytes long, last and first): CRLF x final newline; oracle: the record list of the variant equals that of the canonical file, for BED/GFF also on a second pass of the same reader after its source was rewound; non-trivial = variants that differ from the canonical text")
	c.Assume("blank lines inside a FASTQ record and trailing blanks/blank lines in BED/GFF are not covered by the statement and are not generated")
	var cases []kase
	recs := []seqgen.Rec{
		{Name: "a", Desc: "d", Letters: "acN-acN"}, {Name: "", Desc: "", Letters: ""}, {Name: ">", Desc: "two words", Letters: "a"},
		{Name: "@x", Desc: "+x", Letters: "ac-Na"}, {Name: "a>b@+", Desc: ">", Letters: "cc"}, {Name: "+", Desc: "@", Letters: "N"},
	}
	var lists [][]seqgen.Rec
	for i := range recs {
		lists = append(lists, []seqgen.Rec{recs[i]})
		for j := range recs {
			lists = append(lists, []seqgen.Rec{recs[i], recs[j]})
		}
	}
	for _, w := range []int{1, 2, 3, 60, 4095, 4096, 4097, 20000} {
		for _, rl := range lists {
			if w > 3 && w != 60 {
				continue
			}
			text, _ := seqgen.WriteFasta(rl, false, false, w)
			n := len(splitLines(text))
			sites := make([]int, n+1)
			for i := range sites {
				sites[i] = i
			}
			for _, l := range layouts(n, sites, true, !c.Quick) {
				cases = append(cases, kase{Format: "fasta", Recs: rl, Width: w, L: l})
			}
		}
		long := []seqgen.Rec{{Name: "long", Desc: "x y"}, {Name: "b", Letters: "ac"}}
		for _, n := range []int{4097, 12289} {
			for _, l := range layouts(0, nil, false, false) {
				cases = append(cases, kase{Format: "fasta", Recs: long, LongLen: n, Width: w, L: l})
			}
			cases = append(cases, kase{Format: "fasta", Recs: long, LongLen: n, Width: w, L: layout{AllTrail: true, TrailWS: " \t", CRLF: true}})
			cases = append(cases, kase{Format: "fasta", Recs: long, LongLen: n, Width: w, L: layout{Blank: []int{1, 2}}})
		}
		// the long record last, so that without a final newline the file ends in a line of
		// exactly, just under and just over a multiple of the 4096-byte read buffer
		last := []seqgen.Rec{{Name: "b", Letters: "ac"}, {Name: "long", Desc: "x y"}}
		for _, n := range []int{4095, 4096, 4097, 8192, 12288} {
			for _, l := range layouts(0, nil, false, false) {
				cases = append(cases, kase{Format: "fasta", Recs: last, LongLen: n, Width: w, L: l})
			}
		}
	}
	// protein records: the stop letter alone on a line, first or last on a line
	prots := []seqgen.Rec{{Name: "p", Desc: "d", Letters: "aw*"}, {Name: "q", Letters: "*"}, {Name: "r", Letters: "*a*w**"}, {Name: "s", Letters: "w"}}
	for _, w := range []int{1, 2, 3, 60} {
		for i := range prots {
			for j := range prots {
				rl := []seqgen.Rec{prots[i], prots[j]}
				text, _ := seqgen.WriteFasta(rl, false, true, w)
				n := len(splitLines(text))
				sites := make([]int, n+1)
				for x := range sites {
					sites[x] = x
				}
				for _, l := range layouts(n, sites, true, false) {
					if len(l.Trail) > 0 && (i+j)%2 == 1 {
						continue
					}
					cases = append(cases, kase{Format: "fasta", Recs: rl, Width: w, Protein: true, L: l})
				}
			}
		}
	}
	for _, e := range []alphabet.Encoding{alphabet.Sanger, alphabet.Illumina1_3} {
		qa := seqgen.QualAlphabet(e)
		for _, qid := range []bool{false, true} {
			for _, rl := range lists {
				ql := make([]seqgen.Rec, len(rl))
				for i, r := range rl {
					r.Quals = make([]int, len(r.Letters))
					for j := range r.Quals {
						r.Quals[j] = qa[(i+j)%4]
					}
					ql[i] = r
				}
				text, _ := seqgen.WriteFastq(ql, true, e, qid)
				n := len(splitLines(text))
				var sites []int
				for i := 0; i <= n; i += 4 {
					sites = append(sites, i)
				}
				for _, l := range layouts(n, sites, true, !c.Quick) {
					cases = append(cases, kase{Format: "fastq", Recs: ql, Enc: int(e), QID: qid, L: l})
				}
			}
			for _, l := range layouts(0, nil, false, false) {
				cases = append(cases, kase{Format: "fastq", Recs: []seqgen.Rec{{Name: "long", Desc: "x"}, {Name: "b", Letters: "ac", Quals: []int{qa[0], qa[3]}}}, LongLen: 4097, Enc: int(e), QID: qid, L: l})
				for _, n := range []int{4095, 4096, 8192} {
					cases = append(cases, kase{Format: "fastq", Recs: []seqgen.Rec{{Name: "b", Letters: "ac", Quals: []int{qa[0], qa[3]}}, {Name: "long", Desc: "x"}}, LongLen: n, Enc: int(e), QID: qid, L: l})
				}
			}
		}
	}
	b1 := featgen.Bed{Chrom: "c", Start: 1, End: 9, Name: "n", Score: 3, Strand: 1, ThickStart: 2, ThickEnd: 8, RGB: [4]int{1, 2, 3, 255}, BlockSizes: []int{1, 2}, BlockStarts: []int{0, 5}}
	b2 := featgen.Bed{Chrom: "chr 1", Start: 0, End: 5, Name: "a b", Score: -1, Strand: -1, BlockSizes: []int{5}, BlockStarts: []int{0}}
	for _, typ := range []int{3, 4, 5, 6, 12} {
		for _, bl := range [][]featgen.Bed{{b1}, {b1, b2}, {b2, b1, b2}} {
			for _, l := range layouts(0, nil, false, false) {
				cases = append(cases, kase{Format: "bed", BedTyp: typ, Bed: bl, L: l})
			}
		}
	}
	// a last record whose line is exactly, just under and just over a multiple of the 4096-byte read
	// buffer (a long name), with and without its terminator
	lineLen := func(text []byte) int { ls := splitLines(text); return len(ls[len(ls)-1]) }
	for _, typ := range []int{4, 12} {
		probe, _ := featgen.WriteBed([]featgen.Bed{b1}, typ, typ)
		base := lineLen(probe) - len(b1.Name)
		for _, target := range []int{4094, 4095, 4096, 4097, 8191, 8192, 8193, 12288} {
			bl := b1
			bl.Name = seqgen.Fill("nmo", target-base)
			for _, l := range layouts(0, nil, false, false) {
				cases = append(cases, kase{Format: "bed", BedTyp: typ, Bed: []featgen.Bed{b2, bl}, L: l})
				cases = append(cases, kase{Format: "bed", BedTyp: typ, Bed: []featgen.Bed{bl, b2, bl}, L: l})
			}
		}
	}
	f1 := featgen.Gff{Kind: "feature", SeqName: "s", Source: "p", Feature: "f", Start: 2, End: 5, Frame: -1, Attrs: []featgen.Attr{{"ID", "x"}}, Comments: "c d"}
	f2 := featgen.Gff{Kind: "feature", SeqName: "my s", Source: "p", Feature: "f", Start: 0, End: 1, Frame: 1, Strand: 1, HasScore: true, Score: "0.1"}
	rg := featgen.Gff{Kind: "region", SeqName: "chrX", Start: 0, End: 9}
	sq := featgen.Gff{Kind: "seq", SeqName: "s1", Moltype: "DNA", Letters: "acgtnac"}
	for _, gl := range [][]featgen.Gff{{f1}, {f2}, {f1, f2}, {rg}, {f1, rg}, {sq}, {f1, sq}, {sq, f2}, {rg, sq, f1, sq}} {
		for _, l := range layouts(0, nil, false, false) {
			cases = append(cases, kase{Format: "gff", Gff: gl, L: l})
		}
	}
	{
		probe, _ := featgen.WriteGff([]featgen.Gff{f1}, 3, false)
		base := lineLen(probe) - len(f1.Comments)
		for _, target := range []int{4094, 4095, 4096, 4097, 8191, 8192, 8193, 12288} {
			fl := f1
			fl.Comments = seqgen.Fill("c d", target-base)
			for _, l := range layouts(0, nil, false, false) {
				cases = append(cases, kase{Format: "gff", Gff: []featgen.Gff{f2, fl}, L: l})
				cases = append(cases, kase{Format: "gff", Gff: []featgen.Gff{fl, rg, fl}, L: l})
			}
		}
	}
	// every FASTA case again with a quality-carrying template (its letters arrive through AppendLetters,
	// once per physical line)
	for _, k := range cases[:len(cases):len(cases)] {
		if k.Format == "fasta" {
			k.QT = true
			cases = append(cases, k)
		}
	}
	// every plain DNA FASTA case with trailing blanks again into a template that refuses an empty description
	for _, k := range cases[:len(cases):len(cases)] {
		if k.Format == "fasta" && !k.QT && !k.Protein && k.LongLen == 0 && (len(k.L.Trail) > 0 || k.L.AllTrail) {
			k.Picky = true
			cases = append(cases, k)
		}
	}
	// every FASTA case without blank lines again with line prefixes on both sides (the form in which
	// FASTA is embedded in other formats): the prefix of a sequence line that is longer than the read
	// buffer is seen once
	for _, k := range cases[:len(cases):len(cases)] {
		if k.Format == "fasta" && len(k.L.Blank) == 0 {
			k.Prefix = true
			cases = append(cases, k)
		}
	}
	c.Set("cases", len(cases))
	enum.Parallel(16, func(sh int) {
		nt := enum.NontrivialSet{}
		for i := sh; i < len(cases); i += 16 {
			c.Doing(sh, cases[i])
			c.Eval()
			check(c, cases[i])
			if layoutClass(cases[i].L) != "canonical" {
				nt.Add(enum.J(cases[i]))
			}
			if i%30011 == 5 {
				c.Sample(cases[i])
			}
		}
		c.Merge(nt)
	})
}

func main() {
	enum.Main("C04", "exploration", run, func(c *enum.Ctx, in json.RawMessage) {
		var k kase
		if err := json.Unmarshal(in, &k); err != nil {
			panic(err)
		}
		fmt.Printf("case %s\n", enum.J(k))
		check(c, k)
	})
}
