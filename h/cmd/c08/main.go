package main

import "verif/h/alncheck"

func main() { alncheck.Main("C08") }
