// C14: the PALS q-gram filter reports every epsilon-match (no false negatives).
package main

import (
	"encoding/json"
	"fmt"
	"github.com/biogo/biogo/feat"
	"io"
	"os"
	"path/filepath"
	"strings"
	"sync/atomic"
	_ "verif/h/duoc"
	"verif/h/own"

	"github.com/biogo/biogo/align/pals/filter"
	"github.com/biogo/biogo/alphabet"
	"github.com/biogo/biogo/index/kmerindex"
	"github.com/biogo/biogo/morass"
	"verif/h/enum"
)

type kase struct {
	K, N, E, Off int
	Target       string `json:"target"`
	Query        string `json:"query,omitempty"` // empty: self comparison
	Self         bool   `json:"self,omitempty"`
	// Before: queries filtered earlier, in pair mode, by the same Filter value (PALS runs one
	// filter over both strands); the oracle is applied to the call for Query.
	Before []string `json:"before,omitempty"`
	// BeforeFails: the earlier calls are given a sorter that refuses the first hit (it sorts another
	// type), so they return early with that error and never reach their final flush; whatever they
	// leave in the Filter value must not be seen by the call for Query.
	BeforeFails bool `json:"before_fails,omitempty"`
	// Near > 0 (long queries over a background that shares no k-mer with the target): the oracle looks
	// only at query windows that start within [Near-1-N, Near-1+N] - elsewhere there is no epsilon-match
	Near int `json:"near,omitempty"`
	// Alpha: "" the built-in DNA alphabet; "upper" a case-insensitive alphabet the caller declared with
	// upper-case letters, over upper-case sequences; "cased" a case-sensitive alphabet of its own
	Alpha string `json:"alphabet,omitempty"`
}

var (
	upperDNA, _ = alphabet.NewAlphabet("ACGT", feat.DNA, '-', 'N', false)
	casedDNA, _ = alphabet.NewAlphabet("acgt", feat.DNA, '-', 'n', true)
)

// in gives the alphabet of the case and the letters of s as that alphabet spells them.
func (k kase) in(s string) ([]byte, alphabet.Alphabet) {
	switch k.Alpha {
	case "upper":
		return []byte(strings.ToUpper(s)), upperDNA
	case "cased":
		return []byte(s), casedDNA
	}
	return []byte(s), alphabet.DNA
}

type otherElem int

func (a otherElem) Less(b interface{}) bool { return a < b.(otherElem) }

type runner struct {
	m    *morass.Morass
	bad  *morass.Morass // sorts otherElem: every Push of a filter.Hit is refused
	slot int            // worker index announced to the progress watchdog
}

func newRunner(dir string) *runner {
	m, err := morass.New(filter.Hit{}, "c14", dir, 1<<16, false)
	if err != nil {
		panic(err)
	}
	bad, err := morass.New(otherElem(0), "c14bad", dir, 1<<10, false)
	if err != nil {
		panic(err)
	}
	return &runner{m: m, bad: bad}
}

func (r *runner) close() { r.m.CleanUp(); r.bad.CleanUp() }

// hits runs the real filter and returns what it pushed.
func (r *runner) hits(k kase) ([]filter.Hit, error) {
	tb, al := k.in(k.Target)
	t := own.NewSeq("t", alphabet.BytesToLetters(tb), al)
	ki, err := kmerindex.New(k.K, t)
	if err != nil {
		return nil, err
	}
	ki.Build()
	// a caller that lists positions one-based and adds a terminator writes on what the index gave it;
	// the filter must still see the index as built
	for p := 0; p < 8 && p+k.K <= len(k.Target); p++ {
		if ps, err := ki.KmerPositionsString(k.Target[p : p+k.K]); err == nil {
			for i := range ps {
				ps[i]++
			}
			_ = append(ps, len(k.Target))
		}
	}
	q := t
	if !k.Self {
		qb, _ := k.in(k.Query)
		q = own.NewSeq("q", alphabet.BytesToLetters(qb), al)
	}
	f := filter.New(ki, &filter.Params{WordSize: k.K, MinMatch: k.N, MaxError: k.E, TubeOffset: k.Off})
	for _, b := range k.Before {
		if k.BeforeFails {
			f.Filter(own.NewSeq("b", alphabet.BytesToLetters([]byte(b)), alphabet.DNA), false, false, r.bad)
			continue
		}
		r.m.Clear()
		if err := f.Filter(own.NewSeq("b", alphabet.BytesToLetters([]byte(b)), alphabet.DNA), false, false, r.m); err != nil {
			return nil, err
		}
		if err := r.m.Finalise(); err != nil {
			return nil, err
		}
	}
	r.m.Clear()
	if err := f.Filter(q, k.Self, false, r.m); err != nil {
		return nil, err
	}
	var out []filter.Hit
	for {
		var h filter.Hit
		if err := r.m.Pull(&h); err != nil {
			if err == io.EOF {
				break
			}
			return nil, err
		}
		out = append(out, h)
	}
	return out, nil
}

// uncovered returns the first epsilon-match that no hit covers.
func uncovered(k kase, hits []filter.Hit) (t0, q0 int, matches int, ok bool) {
	query := k.Query
	if k.Self {
		query = k.Target
	}
	width := k.Off + k.E
	ok = true
	for t := 0; t+k.N <= len(k.Target); t++ {
		for q := 0; q+k.N <= len(query); q++ {
			if k.Self && q <= t {
				continue
			}
			if k.Near > 0 && (q < k.Near-1-k.N || q > k.Near-1+k.N) {
				continue
			}
			d := 0
			for i := 0; i < k.N && d <= k.E; i++ {
				a, b := k.Target[t+i]|0x20, query[q+i]|0x20
				if a != b || strings.IndexByte("acgt", a) < 0 {
					d++
				}
			}
			if d > k.E {
				continue
			}
			matches++
			cov := false
			for _, h := range hits {
				if -h.Diagonal <= q-t && q-t <= -h.Diagonal+width-1 && h.From < q+k.N && q < h.To {
					cov = true
					break
				}
			}
			if !cov && ok {
				t0, q0, ok = t, q, false
			}
		}
	}
	return
}

func check(c *enum.Ctx, r *runner, k kase) (nontrivial bool) {
	c.Doing(r.slot, k)
	var hits []filter.Hit
	var err error
	if c.Guard("filter/panic", k, func() { hits, err = r.hits(k) }) {
		return false
	}
	if err != nil {
		c.Fail("filter/error", k, "Filter returned %v", err)
		return false
	}
	t0, q0, matches, ok := uncovered(k, hits)
	if !ok {
		geom := "interior"
		qlen := len(k.Query)
		if k.Self {
			qlen = len(k.Target)
		}
		switch {
		case k.Off+k.E < k.K && q0 >= qlen-k.N-k.K-k.Off-k.E:
			geom = "query-end/width<k"
		case q0 >= qlen-k.N-k.K-k.Off-k.E:
			geom = "query-end"
		case t0 >= len(k.Target)-k.N-k.Off:
			geom = "target-end"
		}
		mode := "pair"
		if k.Self {
			mode = "self"
		}
		c.Fail(fmt.Sprintf("false-negative/%s/e=%d/%s", mode, k.E, geom), k, "k=%d n=%d e=%d offset=%d: windows target[%d:%d]=%q and query[%d:%d] differ in <=%d positions but no hit covers them (hits %v)", k.K, k.N, k.E, k.Off, t0, t0+k.N, k.Target[t0:t0+k.N], q0, q0+k.N, k.E, hits)
	}
	return matches > 0
}

type params struct{ K, N, E, Off int }

func paramSpace(ks []int, maxN int) []params {
	var out []params
	for _, k := range ks {
		for n := k + 2; n <= maxN; n++ {
			for e := 0; e <= 2; e++ {
				if n+1-k*(e+1) <= 0 {
					continue
				}
				lo := e
				if lo < 1 {
					lo = 1
				}
				for off := lo; off <= e+3; off++ {
					out = append(out, params{k, n, e, off})
				}
			}
		}
	}
	return out
}

// deBruijn3 returns a sequence over {a,c,g} in which every word of length order occurs at most once (prefix of a de Bruijn sequence).
func deBruijn(alpha string, order int) string {
	kk := len(alpha)
	a := make([]int, kk*order)
	var seq []int
	var db func(t, p int)
	db = func(t, p int) {
		if t > order {
			if order%p == 0 {
				seq = append(seq, a[1:p+1]...)
			}
			return
		}
		a[t] = a[t-p]
		db(t+1, p)
		for j := a[t-p] + 1; j < kk; j++ {
			a[t] = j
			db(t+1, t)
		}
	}
	db(1, 1)
	b := make([]byte, 0, len(seq)+order)
	for _, x := range seq {
		b = append(b, alpha[x])
	}
	b = append(b, b[:order-1]...)
	return string(b)
}

func run(c *enum.Ctx) {
	kmerindex.MinKmerLen = 2
	c.Rule("parameters: every (k,n,e,offset) with k in {2,3,4}, n in k+2..8 (space A) / {9,12,16} with k=4 (space B), e in {0,1,2}, offset in max(e,1)..e+3 (space B also 8) and positive threshold n+1-k(e+1); space A: 6 fixed targets of length 8..12 x every query over {a,c,g,t} of length n..6 (thorough 7), every fifth pair also over a case-insensitive alphabet declared in upper case (upper-case sequences) and a case-sensitive alphabet of the caller's own, plus self comparison of every sequence of length <=7 (thorough 8); space B (tube geometry): a 40-letter target over {a,c,g} with all 4-mers distinct, queries of length 100 (all 't' background, sharing no k-mer with the target) so that the circular tube array is recycled, a copy of target[t0:t0+n] planted at EVERY (t0,q0) with every substitution pattern of <=e positions (quick: exact, all single positions, pairs at 3 spacings); space F (reuse): the space-B plants filtered by a Filter value that has already filtered a query carrying a copy of the first k, k+1, n-1 or n letters of the same window 0, +3, -3, +offset positions away or in the same slot of the tube ring one or two turns later (thorough: at every position); space H (long queries): queries of 2^j+40 letters (j=8..11, thorough 12) with a plant at every position around every power of two, exact and with a substitution at either end, the oracle restricted to the windows near the plant, and for a third of the parameter sets an exact plant at every position of a query of 2600 letters; space G (a failed call before): as F, but the earlier call is given a sorter that refuses its first hit - the full copy of the window at the start of its query - and so returns early while the tubes of a partial copy, g positions later at the place of the later plant, are open; space D: k in {2,3}, n in {k,k+1,k+3}, e<=1, offset in {1,2,3,6} on targets of 17/30 and queries of 50/83 letters (query much longer than the target, threshold as low as 1) with a plant at every (t0,q0); space E: a plant at every (t0,q0) plus one stray copy of a word from the first e+1 target positions at every other query position (two-site geometry of the tube ring); space C: PALS-like parameters (k=6,n=30,e=2,offset=16; thorough also (8,50,4,36), (6,30,2,3), (5,20,1,8)) on targets of 90..200 and queries of 260..420 letters with a plant at every (t0,q0) (quick: thinned away from the ends) and substitutions at every third position; oracle: brute force over every pair of length-n windows with Hamming distance <=e (self: q0>t0): some pushed filter.Hit h must satisfy -h.Diagonal <= q0-t0 <= -h.Diagonal+offset+e-1 and [h.From,h.To) must meet [q0,q0+n); hits are read back through a real in-memory morass; non-trivial = runs with at least one epsilon-match")
	c.Assume("kmerindex.MinKmerLen is lowered to 2 by the harness so that small k keep the spaces small", "sequences are over a,c,g,t only")
	work := os.Getenv("VERIF_WORK")
	if work == "" {
		work = os.TempDir()
	}
	targets := []string{"acgtacgt", "aaaaaaaaaa", "acgtgcatgca", "aacaggattcca", "gattacagatta", "ctctctgagaga"[:9]}
	maxQ, maxSelf := 6, 7
	if !c.Quick {
		maxQ, maxSelf = 7, 8
	}
	psA := paramSpace([]int{2, 3, 4}, 8)
	var queries []string
	enum.Strings("acgt", 4, maxQ, func(s []byte) { queries = append(queries, string(s)) })
	var selfs []string
	enum.Strings("acgt", 5, maxSelf, func(s []byte) { selfs = append(selfs, string(s)) })
	var runs atomic.Int64
	// space A
	enum.Parallel(len(psA)*len(targets), func(ji int) {
		p := psA[ji/len(targets)]
		tgt := targets[ji%len(targets)]
		if len(tgt) < p.K+1 || len(tgt) < p.N {
			return
		}
		r := newRunner(filepath.Join(work))
		r.slot = ji
		defer r.close()
		nt := enum.NontrivialSet{}
		for qi, q := range queries {
			if len(q) < p.N {
				continue
			}
			k := kase{K: p.K, N: p.N, E: p.E, Off: p.Off, Target: tgt, Query: q}
			c.Eval()
			runs.Add(1)
			if check(c, r, k) {
				nt.AddH(enum.Hash64(enum.J(k)))
			}
			if qi%5 == ji%5 {
				// the same pair over alphabets of the caller's own
				for _, a := range []string{"upper", "cased"} {
					k.Alpha = a
					c.Eval()
					runs.Add(1)
					if check(c, r, k) {
						nt.AddH(enum.Hash64(enum.J(k)))
					}
				}
			}
		}
		c.Merge(nt)
		if ji%97 == 0 {
			c.Sample(kase{K: p.K, N: p.N, E: p.E, Off: p.Off, Target: tgt, Query: queries[len(queries)/2]})
		}
	})
	enum.Parallel(len(psA), func(pi int) {
		p := psA[pi]
		r := newRunner(filepath.Join(work))
		r.slot = pi
		defer r.close()
		nt := enum.NontrivialSet{}
		for _, s := range selfs {
			if len(s) < p.N+1 || len(s) < p.K+1 {
				continue
			}
			k := kase{K: p.K, N: p.N, E: p.E, Off: p.Off, Target: s, Self: true}
			c.Eval()
			if check(c, r, k) {
				nt.AddH(enum.Hash64(enum.J(k)))
			}
		}
		c.Merge(nt)
	})
	// space B
	target := deBruijn("acg", 4)[:40]
	const qlen = 100
	var psB []params
	for _, n := range []int{9, 12, 16} {
		for e := 0; e <= 2; e++ {
			if n+1-4*(e+1) <= 0 {
				continue
			}
			lo := e
			if lo < 1 {
				lo = 1
			}
			offs := []int{lo, lo + 1, e + 3, 8}
			seen := map[int]bool{}
			for _, off := range offs {
				if !seen[off] {
					seen[off] = true
					psB = append(psB, params{4, n, e, off})
				}
			}
		}
	}
	type jobB struct {
		p  params
		t0 int
	}
	var jobs []jobB
	for _, p := range psB {
		for t0 := 0; t0+p.N <= len(target); t0++ {
			jobs = append(jobs, jobB{p, t0})
		}
	}
	enum.Parallel(len(jobs), func(ji int) {
		j := jobs[ji]
		p := j.p
		r := newRunner(filepath.Join(work))
		r.slot = ji
		defer r.close()
		nt := enum.NontrivialSet{}
		// substitution patterns
		var pats [][]int
		pats = append(pats, nil)
		if p.E >= 1 {
			for i := 0; i < p.N; i++ {
				pats = append(pats, []int{i})
			}
		}
		if p.E >= 2 {
			for i := 0; i < p.N; i++ {
				for jx := i + 1; jx < p.N; jx++ {
					if c.Quick && jx-i != 1 && jx-i != 4 && jx-i != p.N/2 {
						continue
					}
					pats = append(pats, []int{i, jx})
				}
			}
		}
		bg := strings.Repeat("t", qlen)
		for q0 := 0; q0+p.N <= qlen; q0++ {
			for _, pat := range pats {
				w := []byte(target[j.t0 : j.t0+p.N])
				for _, x := range pat {
					w[x] = 't'
				}
				k := kase{K: p.K, N: p.N, E: p.E, Off: p.Off, Target: target, Query: bg[:q0] + string(w) + bg[q0+p.N:]}
				c.Eval()
				if check(c, r, k) {
					nt.AddH(enum.Hash64(enum.J(k)))
				}
			}
		}
		c.Merge(nt)
	})
	// space F: the same Filter value used for two queries in a row (a non-initial state): the first
	// query carries a partial or full copy of the window near where the second query's plant will be,
	// so that tubes are left below or above threshold in the slots the second call uses first
	enum.Parallel(len(jobs), func(ji int) {
		j := jobs[ji]
		p := j.p
		if c.Quick && (j.t0%3 != 0 || p.Off == 8) {
			return
		}
		r := newRunner(filepath.Join(work))
		r.slot = ji
		defer r.close()
		nt := enum.NontrivialSet{}
		bg := strings.Repeat("t", qlen)
		win := target[j.t0 : j.t0+p.N]
		for q0 := 0; q0+p.N <= qlen; q0++ {
			if c.Quick && q0 > 24 && q0 < qlen-p.N-12 && q0%5 != 0 {
				continue
			}
			final := bg[:q0] + win + bg[q0+p.N:]
			// distances: nearby, and those that put the earlier copy into the same slot of the tube
			// ring (a multiple of ring size x tube offset further down the query), one tube either side;
			// thorough: every position
			ring := ((len(target)+p.Off+p.E-1)/p.Off + 1) * p.Off
			ds := []int{0, 3, -3, p.Off}
			for m := 1; m*ring < qlen; m++ {
				ds = append(ds, m*ring-p.Off, m*ring, m*ring+p.Off, m*ring+1, m*ring-1)
			}
			if !c.Quick {
				ds = ds[:0]
				for d := -q0; q0+d < qlen; d++ {
					ds = append(ds, d)
				}
			}
			for _, l := range []int{p.K, p.K + 1, p.N - 1, p.N} {
				for _, d := range ds {
					q1 := q0 + d
					if q1 < 0 || q1+l > qlen {
						continue
					}
					k := kase{K: p.K, N: p.N, E: p.E, Off: p.Off, Target: target, Query: final, Before: []string{bg[:q1] + win[:l] + bg[q1+l:]}}
					c.Eval()
					if check(c, r, k) {
						nt.AddH(enum.Hash64(enum.J(k)))
					}
				}
			}
		}
		c.Merge(nt)
	})
	// space G: as F, but the earlier call FAILS half way: its sorter refuses the first hit (the full
	// copy of the window at the start of the query, pushed when its tube is retired), so the call
	// returns with that error while the tubes of a partial copy further down - at the place of the
	// later plant, g positions after the full copy - are still open; the same Filter value then
	// filters the ordinary query
	enum.Parallel(len(jobs), func(ji int) {
		j := jobs[ji]
		p := j.p
		if c.Quick && (j.t0%3 != 0 || p.Off == 8) {
			return
		}
		r := newRunner(filepath.Join(work))
		r.slot = ji
		defer r.close()
		nt := enum.NontrivialSet{}
		bg := strings.Repeat("t", qlen)
		win := target[j.t0 : j.t0+p.N]
		for q0 := 0; q0+p.N <= qlen; q0++ {
			if c.Quick && q0%4 != 0 {
				continue
			}
			final := bg[:q0] + win + bg[q0+p.N:]
			for _, l := range []int{p.K, p.K + 1, p.N - 1} {
				for g := 0; g <= q0-p.N; g++ {
					if c.Quick && g > p.Off+p.E+2 && g%7 != 0 {
						continue
					}
					a := q0 - p.N - g
					first := []byte(bg)
					copy(first[a:], win)
					copy(first[q0:], win[:l])
					k := kase{K: p.K, N: p.N, E: p.E, Off: p.Off, Target: target, Query: final, Before: []string{string(first)}, BeforeFails: true}
					c.Eval()
					if check(c, r, k) {
						nt.AddH(enum.Hash64(enum.J(k)))
					}
				}
			}
			// the failed call's only match lies on the plant's diagonal but s positions further down
			// both sequences (another window of the target): refused when its tube is retired or, if
			// the tube is still open at the end of that query, in the final flush
			for s := 1; j.t0+s+p.N <= len(target) && q0+s+p.N <= qlen; s++ {
				first := []byte(bg)
				copy(first[q0+s:], target[j.t0+s:j.t0+s+p.N])
				k := kase{K: p.K, N: p.N, E: p.E, Off: p.Off, Target: target, Query: final, Before: []string{string(first)}, BeforeFails: true}
				c.Eval()
				if check(c, r, k) {
					nt.AddH(enum.Hash64(enum.J(k)))
				}
			}
		}
		c.Merge(nt)
	})
	// space H (the size ladder of the query): queries of 2^j+40 letters (j = 8..11, thorough 12), a plant
	// at every query position from n+3 before a power of two to 3 behind it, exact and with one substitution
	// at either end (the k-mers that straddle the power of two are the ones that count)
	enum.Parallel(len(jobs), func(ji int) {
		j := jobs[ji]
		p := j.p
		if j.t0%7 != 0 || p.Off == 8 {
			return
		}
		r := newRunner(filepath.Join(work))
		r.slot = ji
		defer r.close()
		nt := enum.NontrivialSet{}
		topJ := 11
		if !c.Quick {
			topJ = 12
		}
		if ji%3 == 0 {
			// an exact plant at EVERY position of a query of 2600 letters (cut-offs need not be round numbers)
			ql := 2600
			bg := strings.Repeat("t", ql)
			for q0 := 0; q0+p.N <= ql; q0++ {
				k := kase{K: p.K, N: p.N, E: p.E, Off: p.Off, Target: target, Query: bg[:q0] + target[j.t0:j.t0+p.N] + bg[q0+p.N:], Near: q0 + 1}
				c.Eval()
				if check(c, r, k) {
					nt.AddH(enum.Hash64(fmt.Sprint("H*", p, j.t0, q0)))
				}
			}
		}
		for jx := 8; jx <= topJ; jx++ {
			ql := 1<<uint(jx) + 40
			bg := strings.Repeat("t", ql)
			for b := 256; b <= ql; b *= 2 {
				for q0 := b - p.N - 3; q0 <= b+3 && q0+p.N <= ql; q0++ {
					for _, sub := range []int{-1, 0, p.N - 1} {
						if sub >= 0 && p.E == 0 {
							continue
						}
						w := []byte(target[j.t0 : j.t0+p.N])
						if sub >= 0 {
							w[sub] = 't'
						}
						k := kase{K: p.K, N: p.N, E: p.E, Off: p.Off, Target: target, Query: bg[:q0] + string(w) + bg[q0+p.N:], Near: q0 + 1}
						c.Eval()
						if check(c, r, k) {
							nt.AddH(enum.Hash64(fmt.Sprint("H", p, j.t0, ql, q0, sub)))
						}
					}
				}
			}
		}
		c.Merge(nt)
	})
	// space D: small words and thresholds, query much longer than the target, every placement
	// (exercises the final flush when many tubes have been retired and the ring has wrapped)
	type jobD struct {
		p          params
		tlen, qlen int
	}
	var jobsD []jobD
	for _, k := range []int{2, 3} {
		for _, n := range []int{k, k + 1, k + 3} {
			for e := 0; e <= 1; e++ {
				if n+1-k*(e+1) <= 0 {
					continue
				}
				for _, off := range []int{1, 2, 3, 6} {
					if off < e {
						continue
					}
					for _, tl := range []int{17, 30} {
						for _, ql := range []int{50, 83} {
							jobsD = append(jobsD, jobD{params{k, n, e, off}, tl, ql})
						}
					}
				}
			}
		}
	}
	enum.Parallel(len(jobsD), func(ji int) {
		j := jobsD[ji]
		p := j.p
		tgt := deBruijn("acg", p.K+2)[:j.tlen]
		r := newRunner(filepath.Join(work))
		r.slot = ji
		defer r.close()
		nt := enum.NontrivialSet{}
		bg := strings.Repeat("t", j.qlen)
		for t0 := 0; t0+p.N <= j.tlen; t0++ {
			for q0 := 0; q0+p.N <= j.qlen; q0++ {
				if c.Quick && (t0+q0)%2 == 1 && q0 < j.qlen-p.N-8 && t0 > 3 {
					continue
				}
				for x := -1; x < p.N; x++ {
					if x >= 0 && p.E == 0 {
						break
					}
					w := []byte(tgt[t0 : t0+p.N])
					if x >= 0 {
						w[x] = 't'
					}
					k := kase{K: p.K, N: p.N, E: p.E, Off: p.Off, Target: tgt, Query: bg[:q0] + string(w) + bg[q0+p.N:]}
					c.Eval()
					if check(c, r, k) {
						nt.AddH(enum.Hash64(enum.J(k)))
					}
				}
			}
		}
		c.Merge(nt)
	})
	c.Set("space_D_parameter_sets", len(jobsD))
	// space E: one planted match plus one stray common k-mer taken from the first target
	// positions, at every query position (a k-mer that lands in the tube which is about to
	// take over a slot of the ring while the match's run is still pending there)
	type jobE struct {
		p          params
		tlen, qlen int
		t0         int
	}
	var jobsE []jobE
	cfgE := []jobE{{p: params{4, 16, 2, 8}, tlen: 64, qlen: 70}, {p: params{4, 12, 1, 8}, tlen: 40, qlen: 64}}
	if !c.Quick {
		cfgE = append(cfgE, jobE{p: params{4, 16, 2, 8}, tlen: 63, qlen: 70}, jobE{p: params{4, 16, 2, 8}, tlen: 57, qlen: 70}, jobE{p: params{4, 9, 1, 3}, tlen: 30, qlen: 50}, jobE{p: params{3, 8, 1, 4}, tlen: 29, qlen: 50})
	}
	for _, x := range cfgE {
		for t0 := 0; t0+x.p.N <= x.tlen; t0++ {
			if c.Quick && t0%2 == 1 {
				continue
			}
			y := x
			y.t0 = t0
			jobsE = append(jobsE, y)
		}
	}
	enum.Parallel(len(jobsE), func(ji int) {
		j := jobsE[ji]
		p := j.p
		tgt := deBruijn("acg", p.K)[:j.tlen]
		r := newRunner(filepath.Join(work))
		r.slot = ji
		defer r.close()
		nt := enum.NontrivialSet{}
		bg := strings.Repeat("t", j.qlen)
		for q0 := 0; q0+p.N <= j.qlen; q0++ {
			for cpos := 0; cpos <= p.E; cpos++ {
				for kp := 0; kp+p.K <= j.qlen; kp++ {
					if kp+p.K > q0 && kp < q0+p.N {
						continue // the stray word must not overlap the plant
					}
					b := []byte(bg)
					copy(b[q0:], tgt[j.t0:j.t0+p.N])
					copy(b[kp:], tgt[cpos:cpos+p.K])
					k := kase{K: p.K, N: p.N, E: p.E, Off: p.Off, Target: tgt, Query: string(b)}
					c.Eval()
					if check(c, r, k) {
						nt.AddH(enum.Hash64(enum.J(k)))
					}
				}
			}
		}
		c.Merge(nt)
	})
	c.Set("space_E_jobs", len(jobsE))
	// space C: PALS-like parameters on longer sequences
	type pc struct {
		p          params
		tlen, qlen int
	}
	pcs := []pc{{params{6, 30, 2, 16}, 120, 260}}
	if !c.Quick {
		pcs = append(pcs, pc{params{8, 50, 4, 36}, 200, 420}, pc{params{6, 30, 2, 3}, 120, 260}, pc{params{5, 20, 1, 8}, 90, 300})
	}
	var jobsC []struct {
		pc
		t0 int
	}
	for _, x := range pcs {
		for t0 := 0; t0+x.p.N <= x.tlen; t0++ {
			if c.Quick && t0%3 != 0 && t0 < x.tlen-x.p.N-x.p.Off {
				continue
			}
			jobsC = append(jobsC, struct {
				pc
				t0 int
			}{x, t0})
		}
	}
	enum.Parallel(len(jobsC), func(ji int) {
		j := jobsC[ji]
		p := j.p
		tgt := deBruijn("acg", p.K)[:j.tlen]
		r := newRunner(filepath.Join(work))
		r.slot = ji
		defer r.close()
		nt := enum.NontrivialSet{}
		var pats [][]int
		pats = append(pats, nil)
		for i := 0; i < p.N; i += 3 {
			pats = append(pats, []int{i})
			if p.E >= 2 {
				pats = append(pats, []int{i, (i + p.N/2) % p.N})
			}
		}
		if p.E >= 4 {
			pats = append(pats, []int{0, 12, 24, 36}, []int{5, 17, 29, 41}, []int{10, 11, 30, 49})
		}
		bg := strings.Repeat("t", j.qlen)
		for q0 := 0; q0+p.N <= j.qlen; q0++ {
			if c.Quick && q0%2 != 0 && q0 > 2*(p.Off+p.E) && q0 < j.qlen-p.N-2*(p.Off+p.E+p.K) {
				continue
			}
			for _, pat := range pats {
				w := []byte(tgt[j.t0 : j.t0+p.N])
				for _, x := range pat {
					w[x] = 't'
				}
				k := kase{K: p.K, N: p.N, E: p.E, Off: p.Off, Target: tgt, Query: bg[:q0] + string(w) + bg[q0+p.N:]}
				c.Eval()
				if check(c, r, k) {
					nt.AddH(enum.Hash64(enum.J(k)))
				}
			}
		}
		c.Merge(nt)
	})
	c.Set("space_C_parameter_sets", len(pcs))
	c.Set("space_B_parameter_sets", len(psB))
	c.Set("space_A_parameter_sets", len(psA))
}

func main() {
	enum.Main("C14", "exploration", run, func(c *enum.Ctx, in json.RawMessage) {
		kmerindex.MinKmerLen = 2
		var k kase
		if err := json.Unmarshal(in, &k); err != nil {
			panic(err)
		}
		fmt.Printf("case %s\n", enum.J(k))
		r := newRunner(os.TempDir())
		defer r.close()
		check(c, r, k)
	})
}
