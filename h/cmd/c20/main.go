// C20: gene models keep exons, introns and coding regions as exact partitions.
package main

import (
	"encoding/json"
	"fmt"
	"sort"
	_ "verif/h/duoc"

	"github.com/biogo/biogo/feat"
	"github.com/biogo/biogo/feat/gene"
	"github.com/biogo/biogo/feat/genome"
	"verif/h/enum"
)

// ---- a plain nested feature for location chains

type loc struct {
	name   string
	start  int
	length int
	ori    feat.Orientation
	parent feat.Feature
}

func (l *loc) Start() int                    { return l.start }
func (l *loc) End() int                      { return l.start + l.length }
func (l *loc) Len() int                      { return l.length }
func (l *loc) Name() string                  { return l.name }
func (l *loc) Description() string           { return "" }
func (l *loc) Location() feat.Feature        { return l.parent }
func (l *loc) Orientation() feat.Orientation { return l.ori }

type iv struct{ S, E int }

type kase struct {
	Kind    string `json:"kind"`
	Exons   []iv   `json:"exons,omitempty"`
	CDS     iv     `json:"cds,omitempty"`
	Oris    [3]int `json:"oris,omitempty"` // transcript, gene, chromosome-level feature orientation
	Offs    [3]int `json:"offs,omitempty"` // transcript, gene, chromosome offsets
	Coding  bool   `json:"coding,omitempty"`
	Depth   int    `json:"depth,omitempty"`
	Pos     int    `json:"pos,omitempty"`
	Ops     []int  `json:"ops,omitempty"`
	Spare   int    `json:"spare,omitempty"`
	Shuffle int    `json:"shuffle,omitempty"`
}

func mkExons(t gene.Transcript, ivs []iv) []gene.Exon {
	out := make([]gene.Exon, len(ivs))
	for i, v := range ivs {
		out[i] = gene.Exon{Transcript: t, Offset: v.S, Length: v.E - v.S, Desc: fmt.Sprint("e", v.S, "-", v.E)}
	}
	return out
}

func snapshot(e gene.Exons) []string {
	out := make([]string, len(e))
	for i, x := range e {
		out[i] = fmt.Sprintf("%p|%d|%d|%s", x.Transcript, x.Offset, x.Length, x.Desc)
	}
	return out
}

// valid reports whether ivs (any order) is an acceptable exon set: disjoint (abutting allowed), one starting at 0.
func valid(ivs []iv) bool {
	s := append([]iv{}, ivs...)
	sort.Slice(s, func(i, j int) bool { return s[i].S < s[j].S })
	if len(s) == 0 || s[0].S != 0 {
		return false
	}
	for i := 1; i < len(s); i++ {
		if s[i].S < s[i-1].E {
			return false
		}
	}
	return true
}

func permute(ivs []iv, k int) []iv {
	out := append([]iv{}, ivs...)
	switch k % 3 {
	case 1:
		for i, j := 0, len(out)-1; i < j; i, j = i+1, j-1 {
			out[i], out[j] = out[j], out[i]
		}
	case 2:
		if len(out) > 1 {
			out = append(out[1:], out[0])
		}
	}
	return out
}

func layoutCase(c *enum.Ctx, k kase) bool {
	fail := func(class, f string, a ...interface{}) { c.Fail(class, k, "%s", fmt.Sprintf(f, a...)) }
	chrom := &loc{name: "chr", start: k.Offs[2], length: 100, ori: feat.Orientation(k.Oris[2])}
	g := &gene.Gene{ID: "g", Chrom: chrom, Offset: k.Offs[1], Orient: feat.Orientation(k.Oris[1])}
	var t gene.Transcript
	var ct *gene.CodingTranscript
	if k.Coding {
		ct = &gene.CodingTranscript{ID: "t", Loc: g, Offset: k.Offs[0], Orient: feat.Orientation(k.Oris[0]), CDSstart: k.CDS.S, CDSend: k.CDS.E}
		t = ct
	} else {
		t = &gene.NonCodingTranscript{ID: "t", Loc: g, Offset: k.Offs[0], Orient: feat.Orientation(k.Oris[0])}
	}
	in := permute(k.Exons, k.Shuffle)
	var err error
	if c.Guard("SetExons/panic", k, func() { err = t.SetExons(mkExons(t, in)...) }) {
		return true
	}
	ok := valid(k.Exons)
	if !ok {
		if err == nil {
			fail("SetExons/invalid-accepted", "SetExons accepted %v", in)
		} else if len(t.Exons()) != 0 {
			fail("SetExons/rejected-but-set", "SetExons rejected %v but the transcript now has %d exons", in, len(t.Exons()))
		}
		return false
	}
	if err != nil {
		fail("SetExons/valid-rejected", "SetExons(%v) = %v", in, err)
		return true
	}
	ex := t.Exons()
	want := append([]iv{}, k.Exons...)
	sort.Slice(want, func(i, j int) bool { return want[i].S < want[j].S })
	if len(ex) != len(want) {
		fail("exons/count", "%d exons, want %d", len(ex), len(want))
		return true
	}
	length := want[len(want)-1].E
	if t.Len() != length || t.Start() != k.Offs[0] || t.End() != k.Offs[0]+length {
		fail("transcript/extent", "transcript Start=%d End=%d Len=%d, want offset %d length %d", t.Start(), t.End(), t.Len(), k.Offs[0], length)
	}
	for i, e := range ex {
		if e.Start() != want[i].S || e.End() != want[i].E || e.Len() != want[i].E-want[i].S {
			fail("exons/sorted", "exon %d is [%d,%d), want %v (sorted input)", i, e.Start(), e.End(), want[i])
		}
		if e.Location() != feat.Feature(t) {
			fail("exons/location", "exon %d is not located on the transcript", i)
		}
	}
	// exons and introns alternate and tile [0,Len)
	in2 := t.Introns()
	if len(in2) != len(ex)-1 {
		fail("introns/count", "%d introns for %d exons", len(in2), len(ex))
	} else {
		p := 0
		for i, e := range ex {
			if e.Start() != p {
				fail("tiling", "exon %d starts at %d, previous piece ended at %d", i, e.Start(), p)
			}
			p = e.End()
			if i < len(in2) {
				if in2[i].Start() != p || in2[i].Len() != in2[i].End()-in2[i].Start() || in2[i].Len() < 0 {
					fail("tiling", "intron %d is [%d,%d) len %d, previous exon ended at %d", i, in2[i].Start(), in2[i].End(), in2[i].Len(), p)
				}
				if in2[i].Location() != feat.Feature(t) {
					fail("introns/location", "intron %d is not located on the transcript", i)
				}
				p = in2[i].End()
			}
		}
		if p != t.Len() {
			fail("tiling", "pieces end at %d, transcript length %d", p, t.Len())
		}
	}
	if err := g.SetFeatures(t); (err == nil) != (k.Offs[0] == 0) {
		fail("gene/SetFeatures", "SetFeatures with transcript offset %d: err=%v", k.Offs[0], err)
	}
	// position and orientation mapping through exon -> transcript -> gene -> chromosome
	base := feat.Orientation(k.Oris[0]) * feat.Orientation(k.Oris[1]) * feat.Orientation(k.Oris[2])
	for i, e := range ex {
		for _, p := range []int{0, 1, e.Len()} {
			got, ref := feat.BasePositionOf(e, p)
			if w := p + e.Start() + k.Offs[0] + k.Offs[1] + k.Offs[2]; got != w || ref != feat.Feature(chrom) {
				fail("BasePositionOf", "BasePositionOf(exon %d, %d) = %d, want %d", i, p, got, w)
			}
			pt, ok1 := feat.PositionWithin(e, t, p)
			pg, ok2 := feat.PositionWithin(e, g, p)
			pc, ok3 := feat.PositionWithin(e, chrom, p)
			ptg, ok4 := feat.PositionWithin(t, g, pt)
			pgc, ok5 := feat.PositionWithin(g, chrom, pg)
			if !ok1 || !ok2 || !ok3 || !ok4 || !ok5 || pt != p+e.Start() || pg != pt+k.Offs[0] || pc != pg+k.Offs[1] || ptg != pg || pgc != pc {
				fail("PositionWithin/additive", "exon %d pos %d: within transcript %d, gene %d, chrom %d; transcript->gene %d; gene->chrom %d", i, p, pt, pg, pc, ptg, pgc)
			}
			if _, ok := feat.PositionWithin(e, &loc{name: "other"}, p); ok {
				fail("PositionWithin/foreign", "exon located within an unrelated feature")
			}
		}
		o, _ := feat.BaseOrientationOf(e)
		if o != base {
			fail("BaseOrientationOf", "BaseOrientationOf(exon) = %v, want %v (orientations %v)", o, base, k.Oris)
		}
		if got := feat.OrientationWithin(e, g); got != feat.OrientationWithin(e, t)*feat.OrientationWithin(t, g) {
			fail("OrientationWithin/multiplicative", "exon->gene %v != exon->transcript %v x transcript->gene %v", got, feat.OrientationWithin(e, t), feat.OrientationWithin(t, g))
		}
		if got := feat.OrientationWithin(e, t); got != feat.Forward {
			fail("OrientationWithin", "exon within its transcript = %v", got)
		}
		if got := feat.OrientationWithin(t, g); got != feat.Orientation(k.Oris[0]) {
			fail("OrientationWithin", "transcript within gene = %v, want %v", got, k.Oris[0])
		}
		if got := feat.OrientationWithin(t, chrom); got != feat.Orientation(k.Oris[0])*feat.Orientation(k.Oris[1]) {
			fail("OrientationWithin", "transcript within chromosome = %v, want %v", got, k.Oris[0]*k.Oris[1])
		}
	}
	if ct != nil {
		var u5, cds, u3 feat.Feature
		if c.Guard("UTR/panic", k, func() { u5, cds, u3 = ct.UTR5(), ct.CDS(), ct.UTR3() }) {
			return true
		}
		first, last := u5, u3
		if base == feat.Reverse {
			first, last = u3, u5
		}
		if first.Start() != 0 || first.End() != cds.Start() || cds.Start() != k.CDS.S || cds.End() != k.CDS.E || last.Start() != cds.End() || last.End() != t.Len() ||
			first.Len() != first.End()-first.Start() || cds.Len() != cds.End()-cds.Start() || last.Len() != last.End()-last.Start() {
			fail("UTR-CDS-tiling", "base orientation %v: UTR5=[%d,%d) CDS=[%d,%d) UTR3=[%d,%d) on a transcript of length %d with CDS %v", base, u5.Start(), u5.End(), cds.Start(), cds.End(), u3.Start(), u3.End(), t.Len(), k.CDS)
		}
		if ct.UTR5start() != u5.Start() || ct.UTR5end() != u5.End() || ct.UTR3start() != u3.Start() || ct.UTR3end() != u3.End() {
			fail("UTR-shorthand", "UTR5start/end UTR3start/end disagree with UTR5()/UTR3()")
		}
		// the transcript is turned round after the UTRs have been asked for once: they follow the orientation
		// it has now
		if base != feat.NotOriented && ct.Orient != feat.NotOriented {
			ct.Orient = -ct.Orient
			if c.Guard("UTR/panic", k, func() { u5, cds, u3 = ct.UTR5(), ct.CDS(), ct.UTR3() }) {
				return true
			}
			first, last = u5, u3
			if -base == feat.Reverse {
				first, last = u3, u5
			}
			if first.Start() != 0 || first.End() != cds.Start() || last.Start() != cds.End() || last.End() != t.Len() {
				fail("UTR-CDS-tiling/after-reorientation", "the transcript's orientation was changed to %v after a first query (base orientation now %v): UTR5=[%d,%d) CDS=[%d,%d) UTR3=[%d,%d) on a transcript of length %d", ct.Orient, -base, u5.Start(), u5.End(), cds.Start(), cds.End(), u3.Start(), u3.End(), t.Len())
			}
			ct.Orient = -ct.Orient
		}
		// ... and when the GENE it sits on is turned round (an exported field of the location): the order of
		// the UTRs follows the orientation the chain has now
		if base != feat.NotOriented && g.Orient != feat.NotOriented {
			c.Guard("UTR/panic", k, func() { ct.UTR5() }) // asked once more with everything as it was
			g.Orient = -g.Orient
			if c.Guard("UTR/panic", k, func() { u5, cds, u3 = ct.UTR5(), ct.CDS(), ct.UTR3() }) {
				return true
			}
			first, last = u5, u3
			if -base == feat.Reverse {
				first, last = u3, u5
			}
			if first.Start() != 0 || first.End() != cds.Start() || last.Start() != cds.End() || last.End() != t.Len() ||
				ct.UTR5start() != u5.Start() || ct.UTR5end() != u5.End() || ct.UTR3start() != u3.Start() || ct.UTR3end() != u3.End() {
				fail("UTR-CDS-tiling/after-gene-reorientation", "the gene's orientation was changed to %v after a first query (base orientation now %v): UTR5=[%d,%d) CDS=[%d,%d) UTR3=[%d,%d) on a transcript of length %d", g.Orient, -base, u5.Start(), u5.End(), cds.Start(), cds.End(), u3.Start(), u3.End(), t.Len())
			}
			g.Orient = -g.Orient
		}
	}
	return true
}

func chainCase(c *enum.Ctx, k kase) bool {
	var f feat.Feature
	sum := 0
	ori := feat.Forward
	for i := 0; i < k.Depth; i++ {
		o := feat.Forward
		if i%3 == 1 {
			o = feat.Reverse
		}
		f = &loc{start: i % 7, length: 10, ori: o, parent: f}
		sum += i % 7
		ori *= o
	}
	c.Guard("chain/panic", k, func() {
		got, _ := feat.BasePositionOf(f, k.Pos)
		if got != sum+k.Pos {
			c.Fail("chain/BasePositionOf", k, "depth %d: BasePositionOf = %d, want %d", k.Depth, got, sum+k.Pos)
		}
		if o, _ := feat.BaseOrientationOf(f); o != ori {
			c.Fail("chain/BaseOrientationOf", k, "depth %d: BaseOrientationOf = %v, want %v", k.Depth, o, ori)
		}
	})
	return true
}

func convCase(c *enum.Ctx, k kase) bool {
	p := k.Pos
	c.Guard("conv/panic", k, func() {
		if got := feat.OneToZero(feat.ZeroToOne(p)); got != p {
			c.Fail("conv/OneToZero(ZeroToOne)", k, "OneToZero(ZeroToOne(%d)) = %d", p, got)
		}
		if p != 0 {
			if got := feat.ZeroToOne(feat.OneToZero(p)); got != p {
				c.Fail("conv/ZeroToOne(OneToZero)", k, "ZeroToOne(OneToZero(%d)) = %d", p, got)
			}
		}
		if p >= 0 && feat.ZeroToOne(p) != p+1 {
			c.Fail("conv/ZeroToOne", k, "ZeroToOne(%d) = %d", p, feat.ZeroToOne(p))
		}
	})
	return true
}

// ---- histories of accepted / rejected updates

type opDef struct {
	name  string
	set   bool // SetExons (else Exons.Add followed by SetExons of the result when accepted)
	only  bool // Add only: the result is discarded
	ivs   []iv
	alien bool // exons located on another transcript
	app   bool // SetExons(append(t.Exons(), ...)...): the new exons are appended to the slice the transcript handed out
}

var opDefs = []opDef{
	{"Set{[0,2)}", true, false, []iv{{0, 2}}, false, false},
	{"Set{[3,5),[0,2)}", true, false, []iv{{3, 5}, {0, 2}}, false, false},
	{"Set{[4,6),[0,1),[1,3)}", true, false, []iv{{4, 6}, {0, 1}, {1, 3}}, false, false},
	{"Set{overlap}", true, false, []iv{{0, 3}, {2, 5}}, false, false},
	{"Set{no-zero}", true, false, []iv{{1, 2}}, false, false},
	{"Set{foreign}", true, false, []iv{{0, 2}}, true, false},
	{"Add{[5,6)}", false, false, []iv{{5, 6}}, false, false},
	{"Add{[2,3)}", false, false, []iv{{2, 3}}, false, false},
	{"Add{[1,2)}", false, false, []iv{{1, 2}}, false, false},
	{"Add{[6,8),[3,4)}", false, false, []iv{{6, 8}, {3, 4}}, false, false},
	{"Add{foreign [7,8)}", false, false, []iv{{7, 8}}, true, false},
	{"AddOnly{[5,6)}", false, true, []iv{{5, 6}}, false, false},
	{"AddOnly{[1,4)}", false, true, []iv{{1, 4}}, false, false},
	{"SetAppend{[1,2)}", true, false, []iv{{1, 2}}, false, true},
	{"SetAppend{[5,6)}", true, false, []iv{{5, 6}}, false, true},
	{"SetAppend{[2,4),[0,1)}", true, false, []iv{{2, 4}, {0, 1}}, false, true},
}

func disjoint(ivs []iv) bool {
	s := append([]iv{}, ivs...)
	sort.Slice(s, func(i, j int) bool { return s[i].S < s[j].S })
	for i := 1; i < len(s); i++ {
		if s[i].S < s[i-1].E {
			return false
		}
	}
	return true
}

// historyCase applies the operations to a real transcript and to a plain model.
func historyCase(c *enum.Ctx, k kase) (key string, transitions int) {
	var t gene.Transcript = &gene.NonCodingTranscript{ID: "t"}
	if k.Coding {
		t = &gene.CodingTranscript{ID: "t"}
	}
	other := &gene.NonCodingTranscript{ID: "other"}
	var model []iv
	for step, oi := range k.Ops {
		op := opDefs[oi]
		owner := gene.Transcript(t)
		if op.alien {
			owner = other
		}
		exs := mkExons(owner, op.ivs)
		before := snapshot(t.Exons())
		transitions++
		name := fmt.Sprintf("step %d %s", step, op.name)
		if op.set && op.app {
			// the caller extends the slice the transcript handed out (re-housed with spare capacity so
			// that append writes into it) and hands the result back; a refused call leaves both as they were
			old := t.Exons()
			if k.Spare > 0 && len(old) > 0 {
				roomy := make(gene.Exons, len(old), len(old)+k.Spare+len(exs))
				copy(roomy, old)
				if t.SetExons(roomy...) != nil {
					return "", transitions
				}
				old = t.Exons()
			}
			oldSnap := snapshot(old)
			all := append(append([]iv{}, model...), op.ivs...)
			err := t.SetExons(append(old, exs...)...)
			accept := valid(all)
			if (err == nil) != accept {
				c.Fail("history/SetExons-verdict", k, "%s on %v: err=%v, want accepted=%v", name, model, err, accept)
				return "", transitions
			}
			if err != nil && fmt.Sprint(snapshot(old)) != fmt.Sprint(oldSnap) {
				c.Fail("history/SetExons-rejected-changed-old-slice", k, "%s rejected, but the exon slice the transcript had handed out changed from %v to %v", name, oldSnap, snapshot(old))
				return "", transitions
			}
			if accept {
				model = all
				sort.Slice(model, func(i, j int) bool { return model[i].S < model[j].S })
			}
		} else if op.set {
			err := t.SetExons(exs...)
			accept := valid(op.ivs) && !op.alien
			if (err == nil) != accept {
				c.Fail("history/SetExons-verdict", k, "%s: err=%v, want accepted=%v", name, err, accept)
				return "", transitions
			}
			if accept {
				model = append([]iv{}, op.ivs...)
				sort.Slice(model, func(i, j int) bool { return model[i].S < model[j].S })
			}
		} else {
			old := t.Exons()
			// spare capacity: re-house the transcript's current exons in a roomier array first
			if k.Spare > 0 && len(old) > 0 {
				roomy := make(gene.Exons, len(old), len(old)+k.Spare)
				copy(roomy, old)
				old = roomy
			}
			oldSnap := snapshot(old)
			ns, err := old.Add(exs...)
			all := append(append([]iv{}, model...), op.ivs...)
			accept := disjoint(all) && !(op.alien && len(model) > 0)
			if (err == nil) != accept {
				c.Fail("history/Add-verdict", k, "%s on %v: err=%v, want accepted=%v", name, model, err, accept)
				return "", transitions
			}
			if fmt.Sprint(snapshot(old)) != fmt.Sprint(oldSnap) && err != nil {
				c.Fail("history/Add-rejected-changed-old-slice", k, "%s rejected, but the slice it was called on changed from %v to %v", name, oldSnap, snapshot(old))
				return "", transitions
			}
			if err != nil && fmt.Sprint(snapshot(ns)) != fmt.Sprint(oldSnap) {
				c.Fail("history/Add-rejected-returned-other", k, "%s rejected, returned %v instead of the old exons %v", name, snapshot(ns), oldSnap)
				return "", transitions
			}
			if err == nil && !op.only {
				sort.Slice(all, func(i, j int) bool { return all[i].S < all[j].S })
				if e2 := t.SetExons(ns...); (e2 == nil) != valid(all) {
					c.Fail("history/SetExons-after-Add", k, "%s: SetExons(result of Add) = %v", name, e2)
					return "", transitions
				} else if e2 == nil {
					model = all
				}
			}
		}
		// the transcript's exon set is the model; after a rejected call it is exactly as before
		got := t.Exons()
		if len(got) != len(model) {
			c.Fail("history/exon-set", k, "%s: transcript has %d exons, model %v", name, len(got), model)
			return "", transitions
		}
		for i, e := range got {
			if e.Start() != model[i].S || e.End() != model[i].E || e.Location() != feat.Feature(t) {
				c.Fail("history/exon-set", k, "%s: exon %d is [%d,%d), model %v", name, i, e.Start(), e.End(), model)
				return "", transitions
			}
		}
		_ = before
		// the derived views follow the current exon set, whatever was asked of the transcript before
		if len(model) > 0 {
			in := t.Introns()
			if len(in) != len(model)-1 {
				c.Fail("history/introns", k, "%s: %d introns for exons %v", name, len(in), model)
				return "", transitions
			}
			for i, x := range in {
				if x.Start() != model[i].E || x.End() != model[i+1].S || x.Location() != feat.Feature(t) {
					c.Fail("history/introns", k, "%s: intron %d is [%d,%d), exons are %v", name, i, x.Start(), x.End(), model)
					return "", transitions
				}
			}
			if t.Len() != model[len(model)-1].E || t.End()-t.Start() != t.Len() {
				c.Fail("history/extent", k, "%s: Len=%d Start=%d End=%d, exons are %v", name, t.Len(), t.Start(), t.End(), model)
				return "", transitions
			}
		}
	}
	return fmt.Sprint(model), transitions
}

// manyCase: a transcript of k.Depth exons [10i,10i+5); at three places an exon is added that lies in an
// intron (accepted: sorted, disjoint, one more), that starts in an intron and runs into the next exon, and
// that starts inside an exon (both refused, the old slice as it was).
func manyCase(c *enum.Ctx, k kase) bool {
	n := k.Depth
	var t gene.Transcript = &gene.NonCodingTranscript{ID: "t"}
	if k.Coding {
		t = &gene.CodingTranscript{ID: "t"}
	}
	var ivs []iv
	for i := 0; i < n; i++ {
		ivs = append(ivs, iv{10 * i, 10*i + 5})
	}
	if err := t.SetExons(mkExons(t, permute(ivs, k.Shuffle))...); err != nil {
		c.Fail("many/SetExons", k, "SetExons of %d disjoint exons: %v", n, err)
		return true
	}
	// the caller extends the slice the transcript hands out (whatever capacity it happens to have) with an
	// exon that sorts between two others and overlaps the second: refused, and the transcript as it was
	for _, j := range []int{0, n / 2, n - 2} {
		if j < 0 || j+1 >= n {
			continue
		}
		before := snapshot(t.Exons())
		bad := mkExons(t, []iv{{10*j + 6, 10*j + 13}})
		if err := t.SetExons(append(t.Exons(), bad...)...); err == nil {
			c.Fail("many/SetExons-verdict", k, "SetExons(append(Exons(), [%d,%d))...) accepted an overlapping exon", 10*j+6, 10*j+13)
			return true
		}
		if after := snapshot(t.Exons()); fmt.Sprint(after) != fmt.Sprint(before) {
			c.Fail("many/SetExons-rejected-changed-exons", k, "a refused SetExons(append(Exons(), [%d,%d))...) on %d exons (capacity %d) changed the transcript's exon set", 10*j+6, 10*j+13, n, cap(t.Exons()))
			return true
		}
	}
	for _, j := range []int{0, n / 2, n - 2} {
		if j < 0 || j+1 >= n { // the probes speak of the exon that follows
			continue
		}
		for _, probe := range []struct {
			v      iv
			accept bool
		}{{iv{10*j + 6, 10*j + 9}, true}, {iv{10*j + 6, 10*j + 12}, false}, {iv{10*j + 3, 10*j + 7}, false}, {iv{10*j + 5, 10*j + 10}, true}} {
			old := t.Exons()
			if k.Spare > 0 {
				roomy := make(gene.Exons, len(old), len(old)+k.Spare)
				copy(roomy, old)
				old = roomy
			}
			oldSnap := snapshot(old)
			ns, err := old.Add(mkExons(t, []iv{probe.v})...)
			if (err == nil) != probe.accept {
				c.Fail("many/Add-verdict", k, "Add of [%d,%d) to %d exons [10i,10i+5): err=%v, want accepted=%v", probe.v.S, probe.v.E, n, err, probe.accept)
				return true
			}
			if fmt.Sprint(snapshot(old)) != fmt.Sprint(oldSnap) {
				c.Fail("many/Add-changed-old-slice", k, "Add of [%d,%d) (accepted=%v) changed the slice it was called on", probe.v.S, probe.v.E, probe.accept)
				return true
			}
			if err == nil {
				if len(ns) != n+1 {
					c.Fail("many/Add-count", k, "Add of one exon to %d gave %d", n, len(ns))
					return true
				}
				for i := 1; i < len(ns); i++ {
					if ns[i].Start() < ns[i-1].End() {
						c.Fail("many/Add-order", k, "after Add of [%d,%d): exon %d [%d,%d) does not follow exon %d [%d,%d)", probe.v.S, probe.v.E, i, ns[i].Start(), ns[i].End(), i-1, ns[i-1].Start(), ns[i-1].End())
						return true
					}
				}
			}
		}
	}
	return true
}

func check(c *enum.Ctx, k kase) bool {
	switch k.Kind {
	case "layout":
		return layoutCase(c, k)
	case "chain":
		return chainCase(c, k)
	case "conv":
		return convCase(c, k)
	case "history":
		historyCase(c, k)
		return true
	case "many":
		return manyCase(c, k)
	}
	panic("kind")
}

// genomeChain: the gene sits on an assembly fragment that sits on a chromosome (package feat/genome):
// exon -> transcript -> gene -> fragment -> chromosome, with every offset from a small set and fragments
// that use their component from its first letter or from the eighth.
func genomeChain(c *enum.Ctx) {
	for _, o0 := range []int{0, 3} {
		for _, o1 := range []int{0, 5} {
			for _, cs := range []int{0, 40} {
				for _, fs := range []int{0, 7} {
					for _, coding := range []bool{false, true} {
						k := map[string]interface{}{"family": "gene on a genome.Fragment on a genome.Chromosome", "transcript_offset": o0, "gene_offset": o1, "chr_start": cs, "frag_start": fs, "coding": coding}
						c.Doing(0, k)
						c.Eval()
						c.Nontrivial(enum.J(k))
						c.Guard("genome-chain/panic", k, func() {
							chr := &genome.Chromosome{Chr: "chr1", Length: 1000}
							frag := &genome.Fragment{Frag: "ctg", Chr: chr, ChrStart: cs, ChrEnd: cs + 200, FragStart: fs, FragEnd: fs + 200}
							g := &gene.Gene{ID: "g", Chrom: frag, Offset: o1, Orient: feat.Forward}
							var t gene.Transcript = &gene.NonCodingTranscript{ID: "t", Loc: g, Offset: o0, Orient: feat.Forward}
							if coding {
								t = &gene.CodingTranscript{ID: "t", Loc: g, Offset: o0, Orient: feat.Forward, CDSstart: 2, CDSend: 20}
							}
							if err := t.SetExons(mkExons(t, []iv{{0, 10}, {15, 30}})...); err != nil {
								c.Fail("genome-chain/SetExons", k, "%v", err)
								return
							}
							if frag.Start() != cs || frag.End() != cs+200 || frag.Len() != 200 {
								c.Fail("genome-chain/fragment-extent", k, "fragment placed at [%d,%d) reports Start=%d End=%d Len=%d", cs, cs+200, frag.Start(), frag.End(), frag.Len())
							}
							for i, e := range t.Exons() {
								for _, p := range []int{0, 1, e.Len()} {
									got, ref := feat.BasePositionOf(e, p)
									if w := p + e.Start() + o0 + o1 + cs; got != w || ref != feat.Feature(chr) {
										c.Fail("genome-chain/BasePositionOf", k, "BasePositionOf(exon %d, %d) = %d on %v, want %d on the chromosome", i, p, got, ref, w)
									}
									pf, ok1 := feat.PositionWithin(e, frag, p)
									pc, ok2 := feat.PositionWithin(e, chr, p)
									pfc, ok3 := feat.PositionWithin(frag, chr, pf)
									if !ok1 || !ok2 || !ok3 || pf != p+e.Start()+o0+o1 || pc != pf+cs || pfc != pc {
										c.Fail("genome-chain/PositionWithin", k, "exon %d pos %d: within the fragment %d, within the chromosome %d, fragment->chromosome %d (placed at %d)", i, p, pf, pc, pfc, cs)
									}
								}
							}
						})
					}
				}
			}
		}
	}
}

func run(c *enum.Ctx) {
	genomeChain(c)
	c.Rule("layouts: every set of <=3 intervals inside [0,L] (L=5 quick, 6 thorough; accepted and rejected sets alike) in 3 input orders x CDS bounds x orientation at transcript/gene/chromosome level x offsets {0,3} x coding/non-coding; chains of depth 1,2,3,999,1000; a gene on a genome.Fragment (component used from its first or its eighth letter) on a genome.Chromosome; conversions on -6..6 and the int extremes; transcripts of 2..40 and 2^k-1, 2^k, 2^k+1 (also 3*2^k, 10^j-1, 10^j, 10^j+1, 5*10^j) (63..257) exons with an exon added inside an intron, from an intron into the next exon, from inside an exon, and filling an intron; histories: BFS over sequences of <=3 (thorough 4) operations from 16 accepted/rejected SetExons/Add operations (SetExons also of the transcript's own exon slice extended with append) with spare capacity 0 and 2, on a coding and a non-coding transcript, de-duplicated on the model exon set, compared with a plain model (exon set, introns, extent) after every operation; non-trivial = accepted layouts and all histories")
	L := 5
	depth := 3
	if !c.Quick {
		L, depth = 6, 4
	}
	var ivs []iv
	for s := 0; s < L; s++ {
		for e := s + 1; e <= L; e++ {
			ivs = append(ivs, iv{s, e})
		}
	}
	var sets [][]iv
	for i := range ivs {
		sets = append(sets, []iv{ivs[i]})
		for j := i + 1; j < len(ivs); j++ {
			sets = append(sets, []iv{ivs[i], ivs[j]})
			for l := j + 1; l < len(ivs); l++ {
				if disjoint([]iv{ivs[i], ivs[j], ivs[l]}) || (i+j+l)%5 == 0 {
					sets = append(sets, []iv{ivs[i], ivs[j], ivs[l]})
				}
			}
		}
	}
	n := 0
	do := func(k kase) {
		c.Doing(0, k)
		c.Eval()
		n++
		if check(c, k) {
			c.Nontrivial(enum.J(k))
		}
		if n%50021 == 0 {
			c.Sample(k)
		}
	}
	oris := [][3]int{{1, 1, 1}, {-1, 1, 1}, {1, -1, 1}, {-1, -1, 1}, {1, 1, -1}, {-1, 1, -1}}
	offs := [][3]int{{0, 0, 0}, {3, 0, 0}, {0, 3, 3}, {3, 3, 0}}
	for _, s := range sets {
		end := 0
		for _, v := range s {
			if v.E > end {
				end = v.E
			}
		}
		for sh := 0; sh < 3; sh++ {
			if sh > 0 && len(s) == 1 {
				continue
			}
			for _, o := range oris {
				for _, of := range offs {
					do(kase{Kind: "layout", Exons: s, Oris: o, Offs: of, Shuffle: sh})
					if sh == 0 {
						for cs := 0; cs <= end; cs++ {
							for ce := cs; ce <= end; ce++ {
								do(kase{Kind: "layout", Exons: s, Oris: o, Offs: of, Coding: true, CDS: iv{cs, ce}})
							}
						}
					}
				}
			}
		}
	}
	for _, d := range []int{1, 2, 3, 999, 1000} {
		for _, p := range []int{0, 5} {
			do(kase{Kind: "chain", Depth: d, Pos: p})
		}
	}
	for p := -6; p <= 6; p++ {
		do(kase{Kind: "conv", Pos: p})
	}
	do(kase{Kind: "conv", Pos: int(^uint(0)>>1) - 1})
	do(kase{Kind: "conv", Pos: -int(^uint(0)>>1) - 1})
	// the size ladder of the exon count: transcripts of 2^k-1, 2^k, 2^k+1 (also 3*2^k, 10^j-1, 10^j, 10^j+1, 5*10^j) exons (7..257), exons added in the
	// first, a middle and the last intron
	var counts []int
	for n := 2; n <= 40; n++ { // every small count (the capacity append leaves differs from count to count)
		counts = append(counts, n)
	}
	for _, n := range append(counts, enum.Ladder(41, 257)...) {
		for _, coding := range []bool{false, true} {
			for _, spare := range []int{0, 2} {
				do(kase{Kind: "many", Depth: n, Coding: coding, Spare: spare, Shuffle: n % 3})
			}
		}
	}
	// histories
	var states, trans, traces int64
	for _, cfg := range []int{0, 2, 4, 6} {
		spare, coding := cfg%4, cfg < 4
		seen := map[string]bool{"[]": true}
		frontier := [][]int{{}}
		states++
		for d := 0; d < depth; d++ {
			var next [][]int
			for _, h := range frontier {
				for oi := range opDefs {
					nh := append(append([]int{}, h...), oi)
					k := kase{Kind: "history", Ops: nh, Spare: spare, Coding: coding}
					c.Doing(0, k)
					c.Eval()
					c.Nontrivial(enum.J(k))
					key, t := historyCase(c, k)
					trans += int64(t)
					traces++
					if key == "" {
						continue
					}
					if d == depth-1 && c.WantSample() {
						c.Sample(k)
					}
					if !seen[key] || d < 2 { // the first two levels are never merged
						if !seen[key] {
							states++
						}
						seen[key] = true
						next = append(next, nh)
					}
				}
			}
			frontier = next
		}
	}
	c.MC(states, trans, traces)
}

func main() {
	enum.Main("C20", "model_checking", run, func(c *enum.Ctx, in json.RawMessage) {
		var k kase
		if err := json.Unmarshal(in, &k); err != nil {
			panic(err)
		}
		fmt.Printf("case %+v\n", k)
		if k.Kind == "history" {
			for _, o := range k.Ops {
				fmt.Println("  ", opDefs[o].name)
			}
		}
		check(c, k)
	})
}
