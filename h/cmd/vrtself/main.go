// vrtself runs the self-check of the controlled scheduler.
package main

import (
	"fmt"
	"os"

	"verif/h/conc"
)

func main() {
	ok, rep := conc.SelfCheck()
	for _, l := range rep {
		fmt.Println(l)
	}
	if !ok {
		fmt.Println("SELF-CHECK FAILED")
		os.Exit(1)
	}
	fmt.Println("SELF-CHECK OK")
}
