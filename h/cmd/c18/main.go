// C18: quality scores encode, decode and convert consistently.
// Complete enumeration of the 8-bit domains (a decision, not a bound) plus a
// fixed grid of probabilities around every score.
package main

import (
	"encoding/json"
	"fmt"
	"github.com/biogo/biogo/feat"
	"math"
	"os"
	"os/exec"
	"strings"
	"sync"
	_ "verif/h/duoc"

	"github.com/biogo/biogo/alphabet"
	"github.com/biogo/biogo/seq/linear"
	"github.com/biogo/biogo/seq/quality"
	"verif/h/enum"
)

type kase struct {
	Kind string `json:"kind"`
	Enc  int    `json:"enc"`
	V    int    `json:"v"`
	D    int    `json:"d"`              // offset index for probability grid
	Enc2 int    `json:"enc2,omitempty"` // container histories: the encoding the container had before SetEncoding(Enc)
	Via  string `json:"via,omitempty"`  // container histories: "", "clone" (the history continues on a copy)
}

var encNames = map[alphabet.Encoding]string{alphabet.None: "None", alphabet.Sanger: "Sanger", alphabet.Solexa: "Solexa",
	alphabet.Illumina1_3: "Illumina1_3", alphabet.Illumina1_5: "Illumina1_5", alphabet.Illumina1_8: "Illumina1_8", alphabet.Illumina1_9: "Illumina1_9"}

var phredEnc = []alphabet.Encoding{alphabet.Sanger, alphabet.Illumina1_3, alphabet.Illumina1_5, alphabet.Illumina1_8, alphabet.Illumina1_9}

func offset(e alphabet.Encoding) int {
	switch e {
	case alphabet.Sanger, alphabet.Illumina1_8, alphabet.Illumina1_9:
		return 33
	}
	return 64
}

// printable range of encoded bytes for an encoding.
// place is a location (a feature that does not start at 0) for a sequence to sit on.
type place struct{ s, e int }

func (p place) Start() int             { return p.s }
func (p place) End() int               { return p.e }
func (p place) Len() int               { return p.e - p.s }
func (p place) Name() string           { return "chr" }
func (p place) Description() string    { return "" }
func (p place) Location() feat.Feature { return nil }

func printable(e alphabet.Encoding, b int) bool {
	lo := 33
	if e == alphabet.Illumina1_5 {
		lo = 'B'
	}
	return b >= lo && b <= 126
}

var deltas = []float64{-0.4, -0.2, 0, 0.2, 0.4, -0.499, -0.49, -0.47, 0.47, 0.49, 0.499}

func relErr(a, b float64) float64 {
	if a == b {
		return 0
	}
	return math.Abs(a-b) / math.Max(math.Abs(a), math.Abs(b))
}

// roundOK reports whether got is an acceptable nearest integer of x.
func roundOK(x float64, got int) bool {
	r := math.Round(x)
	if int(r) == got {
		return true
	}
	// a value numerically on a half boundary may round either way
	return math.Abs(math.Abs(x-math.Floor(x))-0.5) < 1e-9 && math.Abs(x-float64(got)) <= 0.5+1e-9
}

func check(c *enum.Ctx, k kase) (nontrivial bool) {
	fail := func(class, f string, a ...interface{}) { c.Fail(class, k, f, a...) }
	e := alphabet.Encoding(k.Enc)
	switch k.Kind {
	case "phred-encode-decode": // decode(encode(q)) = q on the printable range
		b := k.V + offset(e)
		if !printable(e, b) || k.V > 253 {
			return false
		}
		var enc byte
		if c.Guard("Qphred.Encode/"+encNames[e]+"/panic", k, func() { enc = alphabet.Qphred(k.V).Encode(e) }) {
			return true
		}
		if int(enc) != b {
			fail("Qphred.Encode/"+encNames[e], "Qphred(%d).Encode(%s) = %d, want %d", k.V, encNames[e], enc, b)
		}
		if got := e.DecodeToQphred(enc); int(got) != k.V {
			fail("DecodeToQphred/"+encNames[e], "%s.DecodeToQphred(Qphred(%d).Encode()) = %d", encNames[e], k.V, got)
		}
		return true
	case "solexa-encode-decode":
		b := k.V + 64
		if !printable(alphabet.Solexa, b) {
			return false
		}
		enc := alphabet.Qsolexa(k.V).Encode(alphabet.Solexa)
		if int(enc) != b {
			fail("Qsolexa.Encode/Solexa", "Qsolexa(%d).Encode(Solexa) = %d, want %d", k.V, enc, b)
		}
		if got := alphabet.Solexa.DecodeToQsolexa(enc); int(got) != k.V {
			fail("DecodeToQsolexa/Solexa", "Solexa.DecodeToQsolexa(Qsolexa(%d).Encode(Solexa)=%d) = %d", k.V, enc, got)
		}
		return true
	case "phred-container", "qseq-container": // the same laws through quality.Phred / linear.QSeq, after an encoding history
		// history: built with encoding Enc2, encoded once (whatever it caches is now built), optionally
		// copied, switched to Enc with SetEncoding; then encode / decode / error probability of score V
		e2 := alphabet.Encoding(k.Enc2)
		b := k.V + offset(e)
		if !printable(e, b) || k.V > 253 {
			return false
		}
		var enc byte
		var dec alphabet.Qphred
		var pe float64
		var line string
		var reported, origReported alphabet.Encoding
		var origEnc byte
		var origScores string
		if c.Guard(k.Kind+"/panic", k, func() {
			if k.Kind == "phred-container" {
				p := quality.NewPhred("p", []alphabet.Qphred{alphabet.Qphred(k.V), 7}, e2)
				p.Offset = 3
				if k.Via == "located" {
					p.SetLocation(place{5, 90})
					p.SetOffset(3)
				}
				_ = p.QEncode(3)
				orig := p
				if k.Via == "clone" {
					p = p.Copy().(*quality.Phred)
				}
				if k.Via == "field" {
					p.Encode = e // the exported field assigned directly, as a struct literal would set it
				} else {
					p.SetEncoding(e)
				}
				enc, dec, pe, reported = p.QEncode(3), p.QDecode(byte(b)), p.EAt(3), p.Encoding()
				if k.Via == "clone" {
					// the copy is written on and reversed: the original keeps its scores
					p.Set(3, 1)
					p.SetE(4, 0.5)
					p.Reverse()
				}
				origEnc, origReported = orig.QEncode(3), orig.Encoding()
				origScores = fmt.Sprint(int(orig.At(3)), int(orig.At(4)))
				return
			}
			qls := []alphabet.QLetter{{L: 'a', Q: alphabet.Qphred(k.V)}, {L: 'c', Q: 7}}
			q := linear.NewQSeq("q", qls, alphabet.DNA, e2)
			if k.Via == "empty" {
				// a record that is rendered while it still has no letters (nothing to encode), then filled
				q = linear.NewQSeq("q", nil, alphabet.DNA, e2)
				_ = fmt.Sprintf("%q", q)
				q.AppendQLetters(qls...)
				// the caller fills its buffer with the next record: the sequence keeps the scores it was given
				for i := range qls {
					qls[i] = alphabet.QLetter{L: 't', Q: 1}
				}
			}
			q.Offset = 3
			if k.Via == "located" {
				q.SetLocation(place{5, 90})
				q.SetOffset(3)
			}
			if k.Via != "empty" {
				_ = q.QEncode(3)
				_ = fmt.Sprintf("%q", q)
			}
			orig := q
			if k.Via == "clone" {
				q = q.Clone().(*linear.QSeq)
			}
			if k.Via == "field" {
				q.Encode = e
			} else {
				q.SetEncoding(e)
			}
			if k.Via == "zero" {
				_ = fmt.Sprintf("%.0q", q) // the header alone: no quality is encoded
			}
			enc, dec, pe, reported = q.QEncode(3), q.Encode.DecodeToQphred(byte(b)), q.EAt(3), q.Encoding()
			line = fmt.Sprintf("%q", q)
			if k.Via == "clone" {
				q.Set(3, alphabet.QLetter{L: 't', Q: 1})
				q.Reverse()
			}
			origEnc, origReported = orig.QEncode(3), orig.Encoding()
			origScores = fmt.Sprint(int(orig.At(3).Q), int(orig.At(4).Q))
		}) {
			return true
		}
		hist := fmt.Sprintf("built as %s, encoded, %sSetEncoding(%s)", encNames[e2], map[string]string{"": "", "clone": "copied, ", "empty": "(rendered while empty, then filled) ", "zero": "(then rendered with %.0q) ", "field": "(Encode field assigned instead of) ", "located": "(on a location starting at 5, offset set with SetOffset) "}[k.Via], encNames[e])
		if reported != e {
			fail(k.Kind+"/Encoding", "%s: Encoding() = %s", hist, encNames[reported])
		}
		if want := fmt.Sprint(k.V, 7); k.Via == "clone" && origScores != want {
			fail(k.Kind+"/original/scores", "%s, then the copy was written on and reversed: the original's scores are now %s, want %s", hist, origScores, want)
		}
		if k.Via == "clone" && e2 != alphabet.Solexa {
			// the value the copy was taken from keeps its own encoding and still encodes by it
			if origReported != e2 {
				fail(k.Kind+"/original/Encoding", "%s: the original now reports encoding %s, it was built as %s", hist, encNames[origReported], encNames[e2])
			}
			if b2 := k.V + offset(e2); printable(e2, b2) && int(origEnc) != b2 {
				fail(k.Kind+"/original/QEncode/"+encNames[e2], "%s: the original (still %s) now encodes score %d as %d, want %d", hist, encNames[e2], k.V, origEnc, b2)
			}
		}
		if int(enc) != b {
			fail(k.Kind+"/QEncode/"+encNames[e], "%s: QEncode of score %d = %d, want %d", hist, k.V, enc, b)
		}
		if int(dec) != k.V {
			fail(k.Kind+"/QDecode/"+encNames[e], "%s: decoding byte %d = %d, want %d", hist, b, dec, k.V)
		}
		if want := math.Pow(10, -float64(k.V)/10); relErr(pe, want) > 1e-12 {
			fail(k.Kind+"/EAt", "%s: EAt = %g for score %d, want %g", hist, pe, k.V, want)
		}
		if k.Kind == "qseq-container" {
			// %q renders a FASTQ record: the quality line is the last line
			ls := strings.Split(strings.TrimRight(line, "\n"), "\n")
			if ql := ls[len(ls)-1]; len(ql) != 2 || int(ql[0]) != b {
				fail("qseq-container/format/"+encNames[e], "%s: %%q renders quality line %q for scores [%d 7], want first byte %d", hist, ql, k.V, b)
			}
		}
		return true
	case "solexa-container":
		b := k.V + 64
		if !printable(alphabet.Solexa, b) {
			return false
		}
		var enc byte
		var dec alphabet.Qsolexa
		var pe float64
		var back alphabet.Qsolexa
		var origEnc byte
		var origScores string
		if c.Guard("solexa-container/panic", k, func() {
			p := quality.NewSolexa("s", []alphabet.Qsolexa{alphabet.Qsolexa(k.V), 7}, alphabet.Encoding(k.Enc2))
			p.Offset = 3
			if k.Via == "located" {
				p.SetLocation(place{5, 90})
				p.SetOffset(3)
			}
			_ = p.QEncode(3)
			orig := p
			if k.Via == "clone" {
				p = p.Copy().(*quality.Solexa)
			}
			if k.Via == "field" {
				p.Encode = alphabet.Solexa
			} else {
				p.SetEncoding(alphabet.Solexa)
			}
			enc, dec, pe = p.QEncode(3), p.QDecode(byte(b)), p.EAt(3)
			origEnc = orig.QEncode(3)
			if k.Via == "clone" {
				p.Set(3, 1)
				p.Reverse()
				origScores = fmt.Sprint(int(orig.At(3)), int(orig.At(4)))
			}
			p.SetE(4, pe)
			back = p.At(4)
		}) {
			return true
		}
		hist := fmt.Sprintf("quality.Solexa built as %s, encoded, %sSetEncoding(Solexa)", encNames[alphabet.Encoding(k.Enc2)], map[string]string{"": "", "clone": "copied, ", "field": "(Encode field assigned instead of) ", "located": "(on a location starting at 5, offset set with SetOffset) "}[k.Via])
		if int(enc) != b {
			fail("solexa-container/QEncode", "%s: QEncode of score %d = %d, want %d", hist, k.V, enc, b)
		}
		if int(dec) != k.V {
			fail("solexa-container/QDecode", "%s: QDecode(%d) = %d, want %d", hist, b, dec, k.V)
		}
		if want := 1 / (1 + math.Pow(10, float64(k.V)/10)); relErr(pe, want) > 1e-12 {
			fail("solexa-container/EAt", "%s: EAt = %g for score %d, want %g", hist, pe, k.V, want)
		}
		if want := fmt.Sprint(k.V, 7); k.Via == "clone" && origScores != want {
			fail("solexa-container/original/scores", "%s, then the copy was written on and reversed: the original's scores are now %s, want %s", hist, origScores, want)
		}
		if k.Via == "clone" && alphabet.Encoding(k.Enc2) == alphabet.Solexa && int(origEnc) != b {
			fail("solexa-container/original/QEncode", "%s: the original (still Solexa) now encodes score %d as %d, want %d", hist, k.V, origEnc, b)
		}
		if int(back) != k.V {
			fail("solexa-container/SetE", "%s: SetE(EAt) of score %d stored %d", hist, k.V, back)
		}
		return true
	case "byte-decode-encode": // encode(decode(b)) = b for printable bytes
		if !printable(e, k.V) || e == alphabet.None {
			return false
		}
		if e == alphabet.Solexa {
			s := e.DecodeToQsolexa(byte(k.V))
			if int(s) != k.V-64 {
				fail("DecodeToQsolexa/Solexa", "Solexa.DecodeToQsolexa(%d) = %d, want %d", k.V, s, k.V-64)
			}
			if got := s.Encode(e); int(got) != k.V {
				fail("Qsolexa.Encode/Solexa", "Qsolexa(%d).Encode(Solexa) = %d, want %d", s, got, k.V)
			}
			// decoding a Solexa byte to a Phred score is the analytic conversion of the decoded score
			if x := 10 * math.Log10(math.Pow(10, float64(k.V-64)/10)+1); !math.IsInf(x, 0) && !math.IsNaN(x) {
				if got := e.DecodeToQphred(byte(k.V)); !roundOK(x, int(got)) {
					fail("DecodeToQphred/Solexa", "Solexa.DecodeToQphred(%d) = %d, analytic conversion of Solexa %d is %.6f", k.V, got, k.V-64, x)
				}
			}
			return true
		}
		if k.V-offset(e) < 0 {
			return false
		}
		q := e.DecodeToQphred(byte(k.V))
		if int(q) != k.V-offset(e) {
			fail("DecodeToQphred/"+encNames[e], "%s.DecodeToQphred(%d) = %d, want %d", encNames[e], k.V, q, k.V-offset(e))
		}
		if got := q.Encode(e); int(got) != k.V {
			fail("Qphred.Encode/"+encNames[e], "Qphred(%d).Encode(%s) = %d, want %d", q, encNames[e], got, k.V)
		}
		// decoding a Phred-offset byte to a Solexa score is the analytic conversion of the decoded score
		if x := 10 * math.Log10(math.Pow(10, float64(k.V-offset(e))/10)-1); !math.IsInf(x, 0) && !math.IsNaN(x) && math.Round(x) >= -127 && math.Round(x) <= 126 {
			if got := e.DecodeToQsolexa(byte(k.V)); !roundOK(x, int(got)) {
				fail("DecodeToQsolexa/"+encNames[e], "%s.DecodeToQsolexa(%d) = %d, analytic conversion of Phred %d is %.6f", encNames[e], k.V, got, k.V-offset(e), x)
			}
		}
		return true
	case "phred-probe": // ProbE(q) = 10^(-q/10); Ephred inverse; monotone
		if k.V == 254 {
			// the top of the scale: whatever probability the score stands for (certainty, 0) converts back to
			// it, through the functions and through a container
			q := alphabet.Qphred(254)
			if got := alphabet.Ephred(q.ProbE()); got != q {
				fail("Ephred/inverse/top", "Ephred(Qphred(254).ProbE() = %g) = %d", q.ProbE(), got)
			}
			qs := alphabet.Qsolexa(127)
			if got := alphabet.Esolexa(qs.ProbE()); got != qs {
				fail("Esolexa/inverse/top", "Esolexa(Qsolexa(127).ProbE() = %g) = %d", qs.ProbE(), got)
			}
			p := quality.NewPhred("p", []alphabet.Qphred{7, 9}, alphabet.Sanger)
			p.SetE(0, q.ProbE())
			if e := p.EAt(0); math.IsNaN(e) || p.At(0) != q {
				fail("phred-container/SetE/top", "SetE(0, %g) stored score %d, EAt = %g", q.ProbE(), p.At(0), e)
			}
			return true
		}
		if k.V > 253 {
			return false
		}
		q := alphabet.Qphred(k.V)
		want := math.Pow(10, -float64(k.V)/10)
		if relErr(q.ProbE(), want) > 1e-12 {
			fail("Qphred.ProbE", "Qphred(%d).ProbE() = %g, want %g", k.V, q.ProbE(), want)
		}
		if got := alphabet.Ephred(q.ProbE()); got != q {
			fail("Ephred/inverse", "Ephred(Qphred(%d).ProbE()) = %d", k.V, got)
		}
		if nx := alphabet.Qphred(k.V + 1); !(nx.ProbE() <= q.ProbE()) {
			fail("Qphred.ProbE/monotone", "ProbE(%d)=%g > ProbE(%d)=%g", k.V+1, nx.ProbE(), k.V, q.ProbE())
		}
		return true
	case "phred-eprob-grid": // Ephred(p) is the nearest score
		if k.V > 253 {
			return false
		}
		x := float64(k.V) + deltas[k.D]
		if x < 0 {
			return false
		}
		p := math.Pow(10, -x/10)
		if got := alphabet.Ephred(p); int(got) != k.V {
			fail("Ephred/nearest", "Ephred(10^-(%g/10)) = %d, want %d", x, got, k.V)
		}
		return true
	case "solexa-probe":
		s := k.V - 127 // -127..126
		if s < -127 || s > 126 {
			return false
		}
		q := alphabet.Qsolexa(s)
		want := 1 / (1 + math.Pow(10, float64(s)/10))
		if relErr(q.ProbE(), want) > 1e-12 {
			fail("Qsolexa.ProbE", "Qsolexa(%d).ProbE() = %g, want %g", s, q.ProbE(), want)
		}
		if got := alphabet.Esolexa(q.ProbE()); got != q {
			fail("Esolexa/inverse", "Esolexa(Qsolexa(%d).ProbE()) = %d", s, got)
		}
		if s < 126 {
			if nx := alphabet.Qsolexa(s + 1); !(nx.ProbE() <= q.ProbE()) {
				fail("Qsolexa.ProbE/monotone", "ProbE(%d)=%g > ProbE(%d)=%g", s+1, nx.ProbE(), s, q.ProbE())
			}
		}
		return true
	case "solexa-eprob-grid":
		s := k.V - 127
		if s < -120 || s > 120 { // 1-p loses precision towards the ends; the property's identity clause is checked by solexa-probe
			return false
		}
		x := float64(s) + deltas[k.D]
		p := 1 / (1 + math.Pow(10, x/10))
		if got := alphabet.Esolexa(p); int(got) != s {
			fail("Esolexa/nearest", "Esolexa(1/(1+10^(%g/10))) = %d, want %d", x, got, s)
		}
		return true
	case "phred-to-solexa":
		if k.V > 253 {
			return false
		}
		x := 10 * math.Log10(math.Pow(10, float64(k.V)/10)-1)
		if math.IsInf(x, 0) || math.IsNaN(x) || math.Round(x) < -127 || math.Round(x) > 126 {
			return false
		}
		got := alphabet.Qphred(k.V).Qsolexa()
		if !roundOK(x, int(got)) {
			fail("Qphred.Qsolexa", "Qphred(%d).Qsolexa() = %d, analytic value %.6f", k.V, got, x)
		}
		// agreement of error probabilities: rounding moves the score by at most half a unit
		if r := alphabet.Qphred(k.V).ProbE() / got.ProbE(); r > math.Pow(10, 0.0501) || r < math.Pow(10, -0.0501) {
			fail("Qphred.Qsolexa/probE", "Qphred(%d).ProbE()=%g but its Solexa conversion %d has ProbE %g", k.V, alphabet.Qphred(k.V).ProbE(), got, got.ProbE())
		}
		// a Phred score written under the Solexa encoding is its conversion, written: the byte decodes to it
		if b := int(got) + 64; printable(alphabet.Solexa, b) {
			if enc := alphabet.Qphred(k.V).Encode(alphabet.Solexa); int(enc) != b {
				fail("Qphred.Encode/Solexa", "Qphred(%d).Encode(Solexa) = %d, its Solexa conversion %d is written as %d", k.V, enc, got, b)
			}
		}
		if k.V >= 10 {
			if back := got.Qphred(); int(back) != k.V {
				fail("Qphred.Qsolexa.Qphred/inverse", "Qphred(%d).Qsolexa().Qphred() = %d", k.V, back)
			}
		}
		return true
	case "solexa-to-phred":
		s := k.V - 127
		if s < -127 || s > 126 {
			return false
		}
		x := 10 * math.Log10(math.Pow(10, float64(s)/10)+1)
		if math.IsInf(x, 0) || math.IsNaN(x) || math.Round(x) < 0 || math.Round(x) > 253 {
			return false
		}
		got := alphabet.Qsolexa(s).Qphred()
		if !roundOK(x, int(got)) {
			fail("Qsolexa.Qphred", "Qsolexa(%d).Qphred() = %d, analytic value %.6f", s, got, x)
		}
		if r := alphabet.Qsolexa(s).ProbE() / got.ProbE(); r > math.Pow(10, 0.0501) || r < math.Pow(10, -0.0501) {
			fail("Qsolexa.Qphred/probE", "Qsolexa(%d).ProbE()=%g but its Phred conversion %d has ProbE %g", s, alphabet.Qsolexa(s).ProbE(), got, got.ProbE())
		}
		for _, e := range phredEnc {
			if b := int(got) + offset(e); printable(e, b) {
				if enc := alphabet.Qsolexa(s).Encode(e); int(enc) != b {
					fail("Qsolexa.Encode/"+encNames[e], "Qsolexa(%d).Encode(%s) = %d, its Phred conversion %d is written as %d", s, encNames[e], enc, got, b)
				}
			}
		}
		if s >= 10 {
			if back := got.Qsolexa(); int(back) != s {
				fail("Qsolexa.Qphred.Qsolexa/inverse", "Qsolexa(%d).Qphred().Qsolexa() = %d", s, back)
			}
		}
		return true
	}
	panic("unknown kind " + k.Kind)
}

func run(c *enum.Ctx) {
	c.Rule("complete enumeration: kind x encoding x all 256 values (x 11 offsets for the probability grids: 0, +-0.2, +-0.4 and +-0.47, +-0.49, +-0.499 next to the rounding boundary); the same encode/decode/probability laws through quality.Phred, quality.Solexa and linear.QSeq (QEncode, QDecode, EAt, SetE, %q) after every two-step encoding history (built with encoding A, encoded once, optionally copied, SetEncoding(B) or the exported Encode field assigned B; also on a location that starts at 5 with the offset set through SetOffset) x all values; each kind of law also as the first use of the package in a fresh process (12 cold-start helper processes), and with eight goroutines making the first uses at once (6 processes, free-running); a case is non-trivial when the oracle applies (value inside the printable/representable range the statement names); distinct by (kind,encoding,value,offset)")
	c.Assume("printable range: bytes 33..126 (Illumina1_5: 'B'..126; Solexa: scores from -31)", "sentinel scores 254/255 (Phred) and 127/-128 (Solexa) are excluded, except that the top scores 254 / 127 must survive score-to-probability-to-score", "math.Pow/math.Log10 of this Go toolchain are the analytic reference (1e-12 relative tolerance)")
	add := func(k kase) {
		c.Doing(0, k)
		c.Eval()
		if check(c, k) {
			c.Nontrivial(enum.J(k))
			if k.V == 40 {
				c.Sample(k)
			}
		}
	}
	enumerate(add)
	// cold start: every kind of law again as the FIRST thing a fresh process does with the package
	// (tables built lazily, caches filled on first use: the order of first uses must not matter)
	for _, kind := range kinds {
		out, err := exec.Command(os.Args[0], "--cold", kind).Output()
		if err != nil {
			c.NotExhaustive("cold-start helper for " + kind + ": " + err.Error())
			continue
		}
		var vs []*enum.Violation
		if json.Unmarshal(out, &vs) != nil {
			c.NotExhaustive("cold-start helper for " + kind + ": unreadable output")
			continue
		}
		for _, v := range vs {
			var k kase
			json.Unmarshal(v.Input, &k)
			c.Fail("cold-start/"+v.Class, k, "as the first use of the package in a process: %s", v.Message)
		}
		c.Add("cold_start_processes", 1)
	}
	// ... and with the first uses made by several goroutines at once (a free-running pass, not an
	// enumeration of schedules: tables that are built on first use must be built before anyone reads them;
	// a process gives one chance, so a few processes are started)
	for round := 0; round < 6; round++ {
		out, err := exec.Command(os.Args[0], "--cold-concurrent", fmt.Sprint(round)).Output()
		if err != nil {
			c.NotExhaustive("concurrent cold-start helper: " + err.Error())
			continue
		}
		var vs []*enum.Violation
		if json.Unmarshal(out, &vs) != nil {
			c.NotExhaustive("concurrent cold-start helper: unreadable output")
			continue
		}
		for _, v := range vs {
			var k kase
			json.Unmarshal(v.Input, &k)
			c.Fail("cold-start-concurrent/"+v.Class, k, "as one of the first uses of the package, made by eight goroutines at once in a fresh process (a single-threaded replay will not show it): %s", v.Message)
		}
		c.Add("concurrent_cold_start_processes", 1)
	}
}

var kinds = []string{"phred-encode-decode", "solexa-encode-decode", "byte-decode-encode", "phred-container", "qseq-container", "solexa-container",
	"phred-probe", "solexa-probe", "phred-to-solexa", "solexa-to-phred", "phred-eprob-grid", "solexa-eprob-grid"}

// enumerate emits every case in a fixed order.
func enumerate(add func(kase)) {
	for v := 0; v < 256; v++ {
		for _, e := range phredEnc {
			add(kase{Kind: "phred-encode-decode", Enc: int(e), V: v})
		}
		for s := -128; s < 128; s++ {
			if s == v-128 {
				add(kase{Kind: "solexa-encode-decode", V: s})
			}
		}
		for e := alphabet.None; e <= alphabet.Illumina1_9; e++ {
			add(kase{Kind: "byte-decode-encode", Enc: int(e), V: v})
		}
		for _, e := range phredEnc {
			for _, e2 := range append([]alphabet.Encoding{alphabet.Solexa}, phredEnc...) {
				for _, via := range []string{"", "clone", "field", "located"} {
					add(kase{Kind: "phred-container", Enc: int(e), Enc2: int(e2), Via: via, V: v})
					add(kase{Kind: "qseq-container", Enc: int(e), Enc2: int(e2), Via: via, V: v})
				}
				for _, via := range []string{"empty", "zero"} {
					add(kase{Kind: "qseq-container", Enc: int(e), Enc2: int(e2), Via: via, V: v})
				}
			}
		}
		for _, e2 := range []alphabet.Encoding{alphabet.Solexa, alphabet.Sanger, alphabet.Illumina1_3} {
			for _, via := range []string{"", "clone", "field", "located"} {
				add(kase{Kind: "solexa-container", Enc2: int(e2), Via: via, V: v - 128})
			}
		}
		add(kase{Kind: "phred-probe", V: v})
		add(kase{Kind: "solexa-probe", V: v})
		add(kase{Kind: "phred-to-solexa", V: v})
		add(kase{Kind: "solexa-to-phred", V: v})
		for d := range deltas {
			add(kase{Kind: "phred-eprob-grid", V: v, D: d})
			add(kase{Kind: "solexa-eprob-grid", V: v, D: d})
		}
	}
}

func main() {
	if len(os.Args) == 3 && os.Args[1] == "--cold" {
		vs := enum.Collect("C18", func(c *enum.Ctx) {
			// start three quarters into the value range: the first call of the process should be one whose
			// answer is not the zero value an unbuilt table would give
			var mine []kase
			enumerate(func(k kase) {
				if k.Kind == os.Args[2] {
					mine = append(mine, k)
				}
			})
			start := len(mine) * 75 / 100
			for i := range mine {
				check(c, mine[(start+i)%len(mine)])
			}
		})
		json.NewEncoder(os.Stdout).Encode(vs)
		return
	}
	if len(os.Args) == 3 && os.Args[1] == "--cold-concurrent" {
		var round int
		fmt.Sscan(os.Args[2], &round)
		vs := enum.Collect("C18", func(c *enum.Ctx) {
			pure := []string{"phred-encode-decode", "solexa-encode-decode", "byte-decode-encode", "phred-probe", "solexa-probe", "phred-to-solexa", "solexa-to-phred", "phred-eprob-grid"}
			per := map[string][]kase{}
			enumerate(func(k kase) { per[k.Kind] = append(per[k.Kind], k) })
			start := make(chan struct{})
			var wg sync.WaitGroup
			for g := 0; g < 8; g++ {
				mine := per[pure[(g+round)%len(pure)]]
				wg.Add(1)
				go func() {
					defer wg.Done()
					<-start
					from := len(mine) * 75 / 100
					for i := range mine {
						check(c, mine[(from+i)%len(mine)])
					}
				}()
			}
			close(start)
			wg.Wait()
		})
		json.NewEncoder(os.Stdout).Encode(vs)
		return
	}
	enum.Main("C18", "exploration", run, func(c *enum.Ctx, in json.RawMessage) {
		var k kase
		if err := json.Unmarshal(in, &k); err != nil {
			panic(err)
		}
		fmt.Printf("case %+v\n", k)
		check(c, k)
	})
}
