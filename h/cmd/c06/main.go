// C06: Truncate, Join, Stitch, Compose and Trim follow positional semantics.
package main

import (
	"encoding/json"
	"fmt"
	"sort"
	_ "verif/h/duoc"

	"github.com/biogo/biogo/alphabet"
	"github.com/biogo/biogo/feat"
	"github.com/biogo/biogo/seq"
	"github.com/biogo/biogo/seq/linear"
	"github.com/biogo/biogo/seq/sequtils"
	"verif/h/enum"
)

type fdef struct {
	S, E int
	O    int // 1 forward, -1 reverse, 0 not oriented, 2 not an Orienter at all
}

type kase struct {
	Kind  string `json:"kind"`
	Q     bool   `json:"q,omitempty"`       // linear.QSeq instead of linear.Seq
	Prot  bool   `json:"protein,omitempty"` // non-complementing alphabet
	L     int    `json:"len"`
	Off   int    `json:"off"`
	Circ  bool   `json:"circular,omitempty"`
	Start int    `json:"start,omitempty"`
	End   int    `json:"end,omitempty"`
	Same  bool   `json:"dst_is_src,omitempty"`
	Used  int    `json:"dst_used,omitempty"` // dst != src: 0 a fresh destination, 1 one that already holds a longer result (circular, offset 5), 2 a one-letter result, 3 a struct copy of the source (another object over the same array), 4 another object that was given the source's letters from its second position on (SetSlice)
	L2    int    `json:"len2,omitempty"`
	Circ2 bool   `json:"circular2,omitempty"`
	Where int    `json:"where,omitempty"`
	Feats []fdef `json:"feats,omitempty"`
	Vals  []int  `json:"vals,omitempty"` // Trim: (limit - e) in quarters
	// After: a call the package must REJECT, made on other objects of the same type directly before the
	// call of the case (what a rejected call leaves behind must not reach the next caller):
	// truncate-outside, join-circular, stitch-inverted, compose-inverted
	After string `json:"after,omitempty"`
}

// rejected makes the call named by k.After; a panic or a missing error there is not this family's business.
func rejected(k kase) {
	if k.After == "" {
		return
	}
	defer func() { recover() }()
	src := mk(k, 5, 1, false, 3)
	dst := empty(k)
	switch k.After {
	case "truncate-outside":
		sequtils.Truncate(dst, src, 3, 9)
	case "join-circular":
		sequtils.Join(mk(k, 3, 0, true, 0), src, seq.End)
	case "stitch-inverted":
		// two good features that sort first, then one whose end lies before its start
		sequtils.Stitch(dst, src, mkFeats([]fdef{{5, 3, 2}, {1, 2, 2}, {3, 4, 2}}))
	case "compose-inverted":
		sequtils.Compose(dst, src, mkFeats([]fdef{{1, 2, 1}, {3, 4, -1}, {5, 3, 1}}))
	}
}

const dnaLetters = "axcmgrsvtwyhkdbn-" // all distinct, all paired in DNAredundant (x: the masking letter, paired with itself though not a letter of the alphabet)
const protLetters = "abcdefghiklmnpq"

type sq interface {
	seq.Sequence
	sequtils.Sliceable
}

func (k kase) alpha() alphabet.Alphabet {
	if k.Prot {
		return alphabet.Protein
	}
	return alphabet.DNAredundant
}

func mk(k kase, n, off int, circ bool, shift int) sq {
	src := dnaLetters
	if k.Prot {
		src = protLetters
	}
	var s sq
	if k.Q {
		ql := make([]alphabet.QLetter, n)
		for i := range ql {
			ql[i] = alphabet.QLetter{L: alphabet.Letter(src[(i+shift)%len(src)]), Q: alphabet.Qphred(10 + i + shift)}
		}
		s = linear.NewQSeq("s", ql, k.alpha(), alphabet.Sanger)
	} else {
		ls := make([]alphabet.Letter, n)
		for i := range ls {
			ls[i] = alphabet.Letter(src[(i+shift)%len(src)])
		}
		s = linear.NewSeq("s", ls, k.alpha())
	}
	s.SetOffset(off)
	if circ {
		s.SetConformation(feat.Circular)
	}
	return s
}

func empty(k kase) sq {
	switch k.Used {
	case 1:
		return mk(k, k.L+3, 5, true, 7)
	case 2:
		return mk(k, 1, -1, false, 9)
	}
	if k.Q {
		return linear.NewQSeq("d", nil, k.alpha(), alphabet.Sanger)
	}
	return linear.NewSeq("d", nil, k.alpha())
}

// destination returns the destination of a case whose dst differs from src.
func destination(k kase, src sq) sq {
	switch k.Used {
	case 3:
		switch t := src.(type) {
		case *linear.Seq:
			cp := *t
			return &cp
		case *linear.QSeq:
			cp := *t
			return &cp
		}
	case 4:
		d := empty(kase{Q: k.Q, Prot: k.Prot})
		sl := src.Slice()
		if sl.Len() > 0 {
			d.SetSlice(sl.Slice(1, sl.Len()))
		} else {
			d.SetSlice(sl)
		}
		return d
	}
	return empty(k)
}

// meta renders what a sequence holds besides its letters (name, strand, conformation, offset, alphabet):
// "the source is unchanged" covers that too.
func meta(s sq) string {
	switch t := s.(type) {
	case *linear.Seq:
		return fmt.Sprint(t.ID, "|", t.Desc, "|", t.Strand, "|", t.Conform, "|", t.Offset, "|", t.Alpha == nil, "|", len(t.Seq))
	case *linear.QSeq:
		return fmt.Sprint(t.ID, "|", t.Desc, "|", t.Strand, "|", t.Conform, "|", t.Offset, "|", t.Alpha == nil, "|", len(t.Seq), "|", t.Encode)
	}
	return ""
}

func read(s sq) []alphabet.QLetter {
	out := make([]alphabet.QLetter, 0, s.Len())
	for i := s.Start(); i < s.End(); i++ {
		out = append(out, s.At(i))
	}
	return out
}

func str(q []alphabet.QLetter, withQ bool) string {
	b := ""
	for _, l := range q {
		b += string(rune(l.L))
		if withQ {
			b += fmt.Sprintf("%d.", l.Q)
		}
	}
	return b
}

// scribble overwrites every position of s (to detect shared storage).
func scribble(s sq) {
	for i := s.Start(); i < s.End(); i++ {
		s.Set(i, alphabet.QLetter{L: '!', Q: 1})
	}
}

type feature struct {
	s, e int
	o    feat.Orientation
}

func (f *feature) Start() int                    { return f.s }
func (f *feature) End() int                      { return f.e }
func (f *feature) Len() int                      { return f.e - f.s }
func (f *feature) Name() string                  { return "" }
func (f *feature) Description() string           { return "" }
func (f *feature) Location() feat.Feature        { return nil }
func (f *feature) Orientation() feat.Orientation { return f.o }

type plain struct{ s, e int }

func (f *plain) Start() int             { return f.s }
func (f *plain) End() int               { return f.e }
func (f *plain) Len() int               { return f.e - f.s }
func (f *plain) Name() string           { return "" }
func (f *plain) Description() string    { return "" }
func (f *plain) Location() feat.Feature { return nil }

type fset []feat.Feature

func (f fset) Features() []feat.Feature { return f }

func mkFeats(fd []fdef) fset {
	var out fset
	for _, d := range fd {
		if d.O == 2 {
			out = append(out, &plain{d.S, d.E})
		} else {
			out = append(out, &feature{d.S, d.E, feat.Orientation(d.O)})
		}
	}
	return out
}

type qfeat struct {
	off int
	e   []float64
}

func (q *qfeat) Start() int             { return q.off }
func (q *qfeat) End() int               { return q.off + len(q.e) }
func (q *qfeat) Len() int               { return len(q.e) }
func (q *qfeat) Name() string           { return "" }
func (q *qfeat) Description() string    { return "" }
func (q *qfeat) Location() feat.Feature { return nil }
func (q *qfeat) EAt(i int) float64      { return q.e[i-q.off] }

func check(c *enum.Ctx, k kase) {
	fail := func(class, f string, a ...interface{}) { c.Fail(k.Kind+"/"+class, k, "%s", fmt.Sprintf(f, a...)) }
	rejected(k)
	wq := k.Q
	switch k.Kind {
	case "truncate":
		src := mk(k, k.L, k.Off, k.Circ, 0)
		orig := read(src)
		meta0 := meta(src)
		dst := src
		if !k.Same {
			dst = destination(k, src)
		}
		var err error
		if c.Guard("truncate/panic", k, func() { err = sequtils.Truncate(dst, src, k.Start, k.End) }) {
			return
		}
		end := k.Off + k.L
		inside := k.Start >= k.Off && k.End <= end && k.Start <= end && k.End >= k.Off
		var want []alphabet.QLetter
		ok := false
		switch {
		case k.Start <= k.End && inside:
			want, ok = orig[k.Start-k.Off:k.End-k.Off], true
		case k.Start > k.End && k.Circ && inside:
			want = append(append([]alphabet.QLetter{}, orig[k.Start-k.Off:]...), orig[:k.End-k.Off]...)
			ok = true
		}
		if !ok {
			if err == nil {
				fail("no-error", "Truncate(%d,%d) of [%d,%d) circular=%v returned no error", k.Start, k.End, k.Off, end, k.Circ)
			}
			return
		}
		if err != nil {
			fail("error", "Truncate(%d,%d) of [%d,%d) circular=%v: %v", k.Start, k.End, k.Off, end, k.Circ, err)
			return
		}
		if got := read(dst); str(got, wq) != str(want, wq) {
			fail("letters", "Truncate(%d,%d) of %q at %d gave %q, want %q", k.Start, k.End, str(orig, wq), k.Off, str(got, wq), str(want, wq))
		}
		if dst.Start() != k.Start {
			fail("start", "result starts at %d, want %d", dst.Start(), k.Start)
		}
		if dst.Conformation() != feat.Linear {
			fail("conformation", "result conformation %v", dst.Conformation())
		}
		if !k.Same {
			if str(read(src), wq) != str(orig, wq) || src.Start() != k.Off {
				fail("src-changed", "source changed to %q at %d", str(read(src), wq), src.Start())
			}
			if k.Used < 3 && meta(src) != meta0 {
				fail("src-changed/annotation", "the source's name|description|strand|conformation|offset|... changed from %s to %s", meta0, meta(src))
			}
			scribble(dst)
			if str(read(src), wq) != str(orig, wq) {
				fail("shared-storage", "writing to the result changed the source to %q", str(read(src), wq))
			}
		}
	case "join":
		dst := mk(k, k.L, k.Off, k.Circ, 0)
		src := mk(k, k.L2, 1, k.Circ2, 7)
		d0, s0 := read(dst), read(src)
		var err error
		where := seq.Start
		if k.Where == 1 {
			where = seq.End
		}
		if c.Guard("join/panic", k, func() { err = sequtils.Join(dst, src, where) }) {
			return
		}
		if k.Circ || k.Circ2 {
			if err == nil {
				fail("circular-no-error", "joining a circular sequence returned no error")
			}
			return
		}
		if err != nil {
			fail("error", "Join: %v", err)
			return
		}
		want := append(append([]alphabet.QLetter{}, s0...), d0...)
		if where == seq.End {
			want = append(append([]alphabet.QLetter{}, d0...), s0...)
		}
		if got := read(dst); str(got, wq) != str(want, wq) {
			fail("letters", "Join(where=%d) of %q and %q gave %q, want %q", where, str(d0, wq), str(s0, wq), str(got, wq), str(want, wq))
		}
		if str(read(src), wq) != str(s0, wq) {
			fail("src-changed", "source changed")
		}
		scribble(dst)
		if str(read(src), wq) != str(s0, wq) {
			fail("shared-storage", "writing to the result changed the source to %q", str(read(src), wq))
		}
	case "stitch", "compose":
		src := mk(k, k.L, k.Off, k.Circ, 0)
		orig := read(src)
		meta0 := meta(src)
		dst := src
		if !k.Same {
			dst = destination(k, src)
		}
		fs := mkFeats(k.Feats)
		end := k.Off + k.L
		var want []alphabet.QLetter
		if k.Kind == "stitch" {
			covered := make([]bool, k.L)
			for _, f := range k.Feats {
				for p := f.S; p < f.E; p++ {
					if p >= k.Off && p < end {
						covered[p-k.Off] = true
					}
				}
			}
			for i, cv := range covered {
				if cv {
					want = append(want, orig[i])
				}
			}
		} else {
			for _, f := range k.Feats {
				lo, hi := f.S, f.E
				if lo < k.Off {
					lo = k.Off
				}
				if hi > end {
					hi = end
				}
				seg := append([]alphabet.QLetter{}, orig[lo-k.Off:hi-k.Off]...)
				if f.O == -1 {
					for i, j := 0, len(seg)-1; i < j; i, j = i+1, j-1 {
						seg[i], seg[j] = seg[j], seg[i]
					}
					if cm, ok := k.alpha().(alphabet.Complementor); ok {
						for i := range seg {
							seg[i].L, _ = cm.Complement(seg[i].L)
						}
					}
				}
				want = append(want, seg...)
			}
		}
		var err error
		if c.Guard(k.Kind+"/panic", k, func() {
			if k.Kind == "stitch" {
				err = sequtils.Stitch(dst, src, fs)
			} else {
				err = sequtils.Compose(dst, src, fs)
			}
		}) {
			return
		}
		if err != nil {
			fail("error", "%s: %v", k.Kind, err)
			return
		}
		if got := read(dst); str(got, wq) != str(want, wq) {
			fail("letters", "%s of %q at %d with %v gave %q, want %q", k.Kind, str(orig, wq), k.Off, k.Feats, str(got, wq), str(want, wq))
		}
		if dst.Start() != 0 || dst.Conformation() != feat.Linear {
			fail("start-conformation", "result starts at %d, conformation %v", dst.Start(), dst.Conformation())
		}
		if !k.Same {
			if str(read(src), wq) != str(orig, wq) || src.Start() != k.Off {
				fail("src-changed", "source changed to %q at %d", str(read(src), wq), src.Start())
			}
			if k.Used < 3 && meta(src) != meta0 {
				fail("src-changed/annotation", "the source's name|description|strand|conformation|offset|... changed from %s to %s", meta0, meta(src))
			}
			scribble(dst)
			if str(read(src), wq) != str(orig, wq) {
				fail("shared-storage", "writing to the result changed the source to %q", str(read(src), wq))
			}
		}
	case "trim":
		const limit = 0.5
		q := &qfeat{off: k.Off}
		d := make([]float64, len(k.Vals))
		for i, v := range k.Vals {
			d[i] = float64(v) / 4
			q.e = append(q.e, limit-d[i])
		}
		var s, e int
		if c.Guard("trim/panic", k, func() { s, e = sequtils.Trim(q, limit) }) {
			return
		}
		best := 0.0 // the empty window
		for i := 0; i <= len(d); i++ {
			sum := 0.0
			for j := i; j < len(d); j++ {
				sum += d[j]
				if sum > best {
					best = sum
				}
			}
		}
		got := 0.0
		if s < e {
			if s < k.Off || e > k.Off+len(d) {
				fail("out-of-range", "Trim returned [%d,%d) for a feature over [%d,%d) (values %v)", s, e, k.Off, k.Off+len(d), d)
				return
			}
			for i := s; i < e; i++ {
				got += d[i-k.Off]
			}
		}
		if got != best {
			fail("not-maximal", "Trim returned [%d,%d) with sum %v, but a window with sum %v exists (limit-e = %v, offset %d)", s, e, got, best, d, k.Off)
		}
	}
}

func run(c *enum.Ctx) {
	c.Rule("Truncate: every (start,end) in [off-2,off+L+2]^2 for L=0..5 (thorough 6), offsets {-2,0,3}, linear/circular, dst==src, a fresh dst, a dst that already holds an earlier (longer circular / one-letter) result, a dst that is a struct copy of the source and one that was handed the source's letters from the second on, linear.Seq and linear.QSeq; Join: all length pairs 0..3 x both ends x conformations; Stitch/Compose: every list of <=2 (thorough 3) features whose interval intersects or abuts the sequence within [off-1,off+L+1], orientation forward/reverse/none/not-an-Orienter, complementing (DNAredundant) and non-complementing (Protein) alphabets, both sequence types, dst==src / fresh / previously used, L=0..4; Trim: every vector of length 0..6 (thorough 7) over (limit-e) in {-2,-1,0,1,2}/4 at offsets {0,3}; feature lists of 2^k-1, 2^k, 2^k+1 (also 3*2^k, 10^j-1, 10^j, 10^j+1, 5*10^j) features (3..257, thorough 1025) in three fixed patterns around a 15-letter sequence; sequences of ladder length (16..2050) with long overlapping features of both orientations; sequences sitting at +-2^40 and around +-2^31; every Truncate/Join case again directly after a rejected call of the same function, every Stitch/Compose case after a rejected Stitch and a rejected Compose (an inverted feature behind two good ones) on other sequences; all positions carry distinct letters (and qualities); non-trivial = cases where the operation is expected to succeed on a non-empty result")
	c.Assume("Compose features are at least abutting the sequence (a feature entirely outside is out of scope)", "Trim: an empty window is accepted anywhere; values are dyadic so sums are exact")
	maxL, maxF, maxT := 5, 2, 6
	if !c.Quick {
		maxL, maxF, maxT = 6, 3, 7
	}
	var cases []kase
	for _, q := range []bool{false, true} {
		for L := 0; L <= maxL; L++ {
			for _, off := range []int{-2, 0, 3} {
				for _, circ := range []bool{false, true} {
					for s := off - 2; s <= off+L+2; s++ {
						for e := off - 2; e <= off+L+2; e++ {
							for _, same := range []bool{false, true} {
								cases = append(cases, kase{Kind: "truncate", Q: q, L: L, Off: off, Circ: circ, Start: s, End: e, Same: same})
							}
							for used := 1; used <= 4; used++ {
								cases = append(cases, kase{Kind: "truncate", Q: q, L: L, Off: off, Circ: circ, Start: s, End: e, Used: used})
							}
						}
					}
				}
			}
		}
		for l1 := 0; l1 <= 3; l1++ {
			for l2 := 0; l2 <= 3; l2++ {
				for w := 0; w < 2; w++ {
					for cc := 0; cc < 4; cc++ {
						for _, off := range []int{0, 3} {
							cases = append(cases, kase{Kind: "join", Q: q, L: l1, L2: l2, Off: off, Where: w, Circ: cc&1 != 0, Circ2: cc&2 != 0})
						}
					}
				}
			}
		}
	}
	c.Set("fixed_cases", len(cases))
	enum.Parallel(16, func(sh int) {
		nt := enum.NontrivialSet{}
		for i := sh; i < len(cases); i += 16 {
			c.Doing(sh, cases[i])
			c.Eval()
			check(c, cases[i])
			nt.Add(enum.J(cases[i]))
			// ... and directly after a rejected call of the same function
			k := cases[i]
			k.After = map[string]string{"truncate": "truncate-outside", "join": "join-circular"}[k.Kind]
			c.Eval()
			check(c, k)
		}
		c.Merge(nt)
	})
	c.Sample(cases[len(cases)/3])
	// Stitch / Compose
	type cfg struct {
		kind       string
		q, prot    bool
		L, off     int
		same, circ bool
		used       int
	}
	var cfgs []cfg
	for _, kind := range []string{"stitch", "compose"} {
		for _, q := range []bool{false, true} {
			for _, prot := range []bool{false, true} {
				for L := 0; L <= 4; L++ {
					for _, off := range []int{-2, 0, 3} {
						for _, same := range []bool{false, true} {
							cfgs = append(cfgs, cfg{kind, q, prot, L, off, same, L == 3 && off == 0, 0})
						}
						if off != -2 {
							cfgs = append(cfgs, cfg{kind, q, prot, L, off, false, false, 1 + (L+off)%2})
							cfgs = append(cfgs, cfg{kind, q, prot, L, off, false, false, 3 + (L+off)%2})
						}
					}
				}
			}
		}
	}
	enum.Parallel(len(cfgs), func(ci int) {
		g := cfgs[ci]
		nt := enum.NontrivialSet{}
		var fds []fdef
		for s := g.off - 1; s <= g.off+g.L+1; s++ {
			for e := s; e <= g.off+g.L+1; e++ {
				if e < g.off || s > g.off+g.L { // entirely outside (not even abutting)
					continue
				}
				if g.kind == "stitch" {
					fds = append(fds, fdef{s, e, 2})
				} else {
					for _, o := range []int{1, -1, 0, 2} {
						fds = append(fds, fdef{s, e, o})
					}
				}
			}
		}
		var rec func(prefix []fdef)
		rec = func(prefix []fdef) {
			k := kase{Kind: g.kind, Q: g.q, Prot: g.prot, L: g.L, Off: g.off, Same: g.same, Circ: g.circ, Used: g.used, Feats: append([]fdef{}, prefix...)}
			c.Doing(ci, k)
			c.Eval()
			check(c, k)
			if len(prefix) > 0 {
				nt.Add(enum.J(k))
			}
			// ... and directly after a rejected Stitch / Compose (feature list with an inverted feature)
			for _, after := range []string{"stitch-inverted", "compose-inverted"} {
				if len(prefix) == maxF && after[:3] != g.kind[:3] {
					continue
				}
				ka := k
				ka.After = after
				c.Eval()
				check(c, ka)
			}
			if len(prefix) == 2 && g.L == 4 && g.off == 3 && c.WantSample() {
				c.Sample(k)
			}
			if len(prefix) == maxF {
				return
			}
			for _, f := range fds {
				rec(append(prefix, f))
			}
		}
		rec(nil)
		c.Merge(nt)
	})
	// the size ladder for feature lists: 2^k-1, 2^k, 2^k+1 (also 3*2^k, 10^j-1, 10^j, 10^j+1, 5*10^j) features (3..257, thorough 1025) laid by three
	// fixed patterns over and around a 15-letter sequence at offset 20 (many lie wholly before or behind
	// it, some reach in from outside); Compose gets those that at least abut the sequence
	topF := 257
	if !c.Quick {
		topF = 1025
	}
	var ladder []kase
	for _, n := range enum.Ladder(3, topF) {
		for g := 0; g < 3; g++ {
			var st, co []fdef
			for i := 0; len(st) < n || len(co) < n; i++ {
				s := 8 + (i*(3+2*g)+i/7)%31
				e := s + (i*5+g+i/3)%10
				if g == 2 && i%9 == 0 {
					s, e = 9, 21+i%4 // a long one from upstream reaching in
				}
				if len(st) < n {
					st = append(st, fdef{s, e, 2})
				}
				if len(co) < n && e >= 20 && s <= 35 {
					co = append(co, fdef{s, e, []int{1, -1, 0, 2}[i%4]})
				}
			}
			for _, q := range []bool{false, true} {
				ladder = append(ladder,
					kase{Kind: "stitch", Q: q, L: 15, Off: 20, Feats: st},
					kase{Kind: "compose", Q: q, L: 15, Off: 20, Feats: co},
					kase{Kind: "compose", Q: q, Prot: true, L: 15, Off: 20, Same: true, Feats: co})
			}
		}
	}
	// long segments: sequences of ladder length with a handful of features that are long themselves (a
	// quarter, a half of the sequence, overlapping, in both orientations, a later one no longer than an earlier)
	for _, n := range enum.Ladder(16, 2050) {
		fs := []fdef{{0, n / 2, 1}, {n / 4, 3 * n / 4, -1}, {n / 2, n, 1}, {1, n / 2, -1}, {n/2 - 1, n - 1, 0}, {n / 3, n/3 + 2, 2}}
		for _, q := range []bool{false, true} {
			ladder = append(ladder,
				kase{Kind: "stitch", Q: q, L: n, Off: 3, Feats: fs[:4]},
				kase{Kind: "compose", Q: q, L: n, Off: 3, Feats: fs},
				kase{Kind: "compose", Q: q, L: n, Off: -2, Feats: fs[1:5]},
				kase{Kind: "truncate", Q: q, L: n, Off: 3, Start: 3 + n/4, End: 3 + n - 1},
				kase{Kind: "truncate", Q: q, L: n, Off: 3, Circ: true, Start: 3 + n - 2, End: 3 + n/2})
		}
	}
	// coordinates far from the origin: the sequence sits at +-2^40 and just around +-2^31
	for _, off := range []int{1 << 40, -(1 << 40), 1<<31 - 3, -(1 << 31) - 2, 1 << 31} {
		fs := []fdef{{off + 1, off + 3, 1}, {off + 2, off + 5, -1}, {off - 1, off + 2, 1}, {off + 4, off + 9, 2}}
		for _, q := range []bool{false, true} {
			ladder = append(ladder,
				kase{Kind: "stitch", Q: q, L: 6, Off: off, Feats: fs},
				kase{Kind: "stitch", Q: q, L: 6, Off: off, Feats: fs[1:3]},
				kase{Kind: "compose", Q: q, L: 6, Off: off, Feats: fs},
				kase{Kind: "truncate", Q: q, L: 6, Off: off, Start: off + 1, End: off + 5},
				kase{Kind: "truncate", Q: q, L: 6, Off: off, Circ: true, Start: off + 4, End: off + 2},
				kase{Kind: "truncate", Q: q, L: 6, Off: off, Start: off - 1, End: off + 2})
		}
	}
	enum.Parallel(len(ladder), func(i int) {
		c.Doing(i, ladder[i])
		c.Eval()
		check(c, ladder[i])
		c.Nontrivial(enum.J(ladder[i]))
	})
	c.Set("feature_list_ladder_cases", len(ladder))
	// Trim
	var vecs [][]int
	enum.Strings("\x00\x01\x02\x03\x04", 0, maxT, func(s []byte) {
		v := make([]int, len(s))
		for i := range s {
			v[i] = int(s[i]) - 2
		}
		vecs = append(vecs, v)
	})
	enum.Parallel(16, func(sh int) {
		nt := enum.NontrivialSet{}
		for i := sh; i < len(vecs); i += 16 {
			for _, off := range []int{0, 3} {
				k := kase{Kind: "trim", Vals: vecs[i], Off: off}
				c.Doing(sh, k)
				c.Eval()
				check(c, k)
				nt.Add(enum.J(k))
			}
		}
		c.Merge(nt)
	})
	_ = sort.Ints
}

func main() {
	enum.Main("C06", "exploration", run, func(c *enum.Ctx, in json.RawMessage) {
		var k kase
		if err := json.Unmarshal(in, &k); err != nil {
			panic(err)
		}
		fmt.Printf("case %+v\n", k)
		check(c, k)
	})
}
