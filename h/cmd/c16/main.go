// C16: piles are exactly the overlap-connected components of the added features.
package main

import (
	"encoding/json"
	"fmt"
	"sort"
	"strings"
	"sync/atomic"
	_ "verif/h/duoc"

	"github.com/biogo/biogo/align/pals"
	"github.com/biogo/biogo/align/pals/dp"
	"github.com/biogo/biogo/alphabet"
	"github.com/biogo/biogo/seq/linear"
	"verif/h/enum"
)

// a feature is (location index, start, end); a pair is two features
type ft struct{ L, S, E int }
type pr struct {
	A, B ft
}

type kase struct {
	slot     int    // worker announcing this case to the progress watchdog (not part of the case)
	Pairs    []pr   `json:"pairs"`            // in insertion order
	Flip     []bool `json:"flip"`             // insert pair i as (B,A)
	Filter   int    `json:"filter"`           // 0 nil, 1 all, 2 none, 3 by score (even pairs)
	Twice    bool   `json:"twice"`            // call Piles a second time (after a 'none' call)
	Before   []int  `json:"before,omitempty"` // filters of earlier Piles calls on the same piler
	Redo     int    `json:"redo"`             // after all, add pair Redo again (-1: no), flipped if RedoFlip
	RedoFlip bool   `json:"redoflip"`
}

var locs = []pals.Contig{"A", "B", "C"}

func same(a, b pr) bool { return (a == b) || (a.A == b.B && a.B == b.A) }

func overlapOrAbut(a, b ft) bool { return a.L == b.L && a.E >= b.S && b.E >= a.S }

// reference: union-find over features of accepted (non-duplicate) pairs
func reference(pairs []pr) (accepted []bool, comps map[string][]string) {
	var acc []pr
	accepted = make([]bool, len(pairs))
	for i, p := range pairs {
		dup := false
		for _, q := range acc {
			if same(p, q) {
				dup = true
			}
		}
		if !dup {
			acc = append(acc, p)
			accepted[i] = true
		}
	}
	type node struct {
		f    ft
		name string
	}
	var nodes []node
	k := 0
	for i, p := range pairs {
		if !accepted[i] {
			continue
		}
		nodes = append(nodes, node{p.A, fmt.Sprintf("p%da", i)}, node{p.B, fmt.Sprintf("p%db", i)})
		k++
	}
	parent := make([]int, len(nodes))
	for i := range parent {
		parent[i] = i
	}
	var find func(int) int
	find = func(x int) int {
		for parent[x] != x {
			parent[x] = parent[parent[x]]
			x = parent[x]
		}
		return x
	}
	for i := range nodes {
		for j := i + 1; j < len(nodes); j++ {
			if overlapOrAbut(nodes[i].f, nodes[j].f) {
				parent[find(i)] = find(j)
			}
		}
	}
	comps = map[string][]string{}
	byRoot := map[int][]int{}
	for i := range nodes {
		byRoot[find(i)] = append(byRoot[find(i)], i)
	}
	for _, ms := range byRoot {
		lo, hi := 1<<30, -(1 << 30)
		var names []string
		for _, m := range ms {
			if nodes[m].f.S < lo {
				lo = nodes[m].f.S
			}
			if nodes[m].f.E > hi {
				hi = nodes[m].f.E
			}
			names = append(names, nodes[m].name)
		}
		sort.Strings(names)
		comps[fmt.Sprintf("%s[%d,%d)", locs[nodes[ms[0]].f.L], lo, hi)] = names
	}
	return
}

func canon(m map[string][]string) string {
	var ks []string
	for k, v := range m {
		ks = append(ks, k+"="+strings.Join(v, ","))
	}
	sort.Strings(ks)
	return strings.Join(ks, ";")
}

func mk(f ft, id string) *pals.Feature {
	return &pals.Feature{ID: id, From: f.S, To: f.E, Loc: locs[f.L]}
}

func check(c *enum.Ctx, k kase) {
	c.Doing(k.slot, k)
	fail := func(class, f string, a ...interface{}) { c.Fail(class, k, "%s", fmt.Sprintf(f, a...)) }
	p := pals.NewPiler(0)
	accepted, comps := reference(k.Pairs)
	type rec struct {
		a, b *pals.Feature
		pair *pals.Pair
	}
	var recs []rec
	name := map[*pals.Feature]string{}
	for i, q := range k.Pairs {
		a, b := mk(q.A, fmt.Sprintf("p%da", i)), mk(q.B, fmt.Sprintf("p%db", i))
		fp := &pals.Pair{A: a, B: b, Score: i}
		if i < len(k.Flip) && k.Flip[i] {
			fp.A, fp.B = b, a
		}
		a.Pair, b.Pair = fp, fp
		err := p.Add(fp)
		if (err == nil) != accepted[i] {
			fail("Add/duplicate-verdict", "Add of pair %d %v: err=%v, want accepted=%v", i, q, err, accepted[i])
			return
		}
		if err == nil {
			recs = append(recs, rec{a, b, fp})
			name[a], name[b] = a.ID, b.ID
		}
	}
	if k.Redo >= 0 && k.Redo < len(k.Pairs) {
		q := k.Pairs[k.Redo]
		a, b := mk(q.A, "dupa"), mk(q.B, "dupb")
		fp := &pals.Pair{A: a, B: b}
		if k.RedoFlip {
			fp.A, fp.B = b, a
		}
		a.Pair, b.Pair = fp, fp
		if err := p.Add(fp); err == nil {
			fail("Add/duplicate-accepted", "pair %d %v added a second time (flipped=%v) was accepted", k.Redo, q, k.RedoFlip)
			return
		}
	}
	filter := func(n int) pals.PairFilter {
		switch n {
		case 1:
			return func(*pals.Pair) bool { return true }
		case 2:
			return func(*pals.Pair) bool { return false }
		case 3:
			return func(fp *pals.Pair) bool { return fp.Score%2 == 0 }
		case 4:
			// a filter that looks at the piles the two images lie on (as the package's own coverage filter
			// does): both piles at least two positions long.  Every image is on its pile before any pair is judged.
			return func(fp *pals.Pair) bool {
				pa, oka := fp.A.Location().(*pals.Pile)
				pb, okb := fp.B.Location().(*pals.Pile)
				return oka && okb && pa.To-pa.From >= 2 && pb.To-pb.From >= 2
			}
		}
		return nil
	}
	if k.Twice {
		p.Piles(filter(2))
	}
	for _, f := range k.Before {
		p.Piles(filter(f))
	}
	piles := p.Piles(filter(k.Filter))
	pass := func(fp *pals.Pair) bool { f := filter(k.Filter); return f == nil || f(fp) }
	got := map[string][]string{}
	seen := map[*pals.Feature]int{}
	for _, pl := range piles {
		key := fmt.Sprintf("%s[%d,%d)", pl.Loc.Name(), pl.From, pl.To)
		if _, dup := got[key]; dup {
			fail("piles/duplicate-pile", "two piles %s", key)
			return
		}
		got[key] = []string{}
		for _, im := range pl.Images {
			seen[im]++
			if _, ok := name[im]; !ok {
				fail("piles/unknown-image", "pile %s holds a feature that was never added (or was rejected)", key)
				return
			}
			if im.Location() != pl {
				fail("piles/image-location", "feature %s is in pile %s but its Location is %v", im.ID, key, im.Location())
			}
			if im.Start() < pl.From || im.End() > pl.To {
				fail("piles/image-outside", "feature %s [%d,%d) lies outside its pile %s", im.ID, im.Start(), im.End(), key)
			}
		}
	}
	// every feature in exactly one pile (those whose pair passes the filter), mate links intact
	want := map[string][]string{}
	for key, names := range comps {
		want[key] = []string{}
		_ = names
	}
	for _, r := range recs {
		for _, f := range []*pals.Feature{r.a, r.b} {
			pl, ok := f.Location().(*pals.Pile)
			if !ok {
				fail("piles/feature-not-piled", "feature %s is not located on a pile after Piles", f.ID)
				return
			}
			key := fmt.Sprintf("%s[%d,%d)", pl.Loc.Name(), pl.From, pl.To)
			if pass(r.pair) {
				if seen[f] != 1 {
					fail("piles/feature-count", "feature %s appears %d times in the piles' images", f.ID, seen[f])
					return
				}
			} else if seen[f] != 0 {
				fail("piles/filter", "feature %s of a filtered-out pair appears in a pile", f.ID)
				return
			}
			got2 := key
			_ = got2
			want[key] = want[key]
			if m := f.Mate(); m == nil || m.Mate() != f || (m != r.a && m != r.b) || m == f {
				fail("piles/mate", "mate link of %s is broken", f.ID)
			}
		}
	}
	// partition: by feature location (covers filtered-out features too)
	gotPart := map[string][]string{}
	for key := range got {
		gotPart[key] = nil
	}
	for _, r := range recs {
		for _, f := range []*pals.Feature{r.a, r.b} {
			pl := f.Location().(*pals.Pile)
			key := fmt.Sprintf("%s[%d,%d)", pl.Loc.Name(), pl.From, pl.To)
			if _, ok := gotPart[key]; !ok {
				fail("piles/unlisted-pile", "feature %s is located on pile %s which Piles did not return", f.ID, key)
				return
			}
			gotPart[key] = append(gotPart[key], f.ID)
		}
	}
	for k2 := range gotPart {
		sort.Strings(gotPart[k2])
	}
	if a, b := canon(gotPart), canon(comps); a != b {
		fail("piles/partition", "piles %s, overlap-connected components %s", a, b)
		return
	}
	// pairwise disjoint per location (not even abutting)
	type span struct {
		loc  string
		s, e int
	}
	var spans []span
	for _, pl := range piles {
		spans = append(spans, span{pl.Loc.Name(), pl.From, pl.To})
	}
	for i := range spans {
		for j := i + 1; j < len(spans); j++ {
			if spans[i].loc == spans[j].loc && spans[i].e >= spans[j].s && spans[j].e >= spans[i].s {
				fail("piles/not-disjoint", "piles %v and %v touch", spans[i], spans[j])
			}
		}
	}
}

func perms(n int) [][]int {
	if n == 0 {
		return [][]int{{}}
	}
	var out [][]int
	for _, p := range perms(n - 1) {
		for i := 0; i <= len(p); i++ {
			q := append(append(append([]int{}, p[:i]...), n-1), p[i:]...)
			out = append(out, q)
		}
	}
	return out
}

// packedPairs: the pairs come from NewPair over a packed sequence (how cmd/pals makes them from hits),
// every list of two hits over a few intervals with shared and distinct ends; the caller links the
// features to their pair as cmd/pals does.  Every feature is an object of its pair, lies in exactly one
// pile exactly once, and its mate's mate is itself.
func packedPairs(c *enum.Ctx) {
	letters := make(alphabet.Letters, 600)
	for i := range letters {
		letters[i] = alphabet.Letter("acgt"[(i*7+i/5)%4])
	}
	pk := pals.NewPacker("pk")
	if _, err := pk.Pack(linear.NewSeq("contig", letters, alphabet.DNA)); err != nil {
		c.Note("packedPairs: Pack failed: %v", err)
		return
	}
	packed := pk.FinalisePack()
	ivs := [][2]int{{0, 10}, {5, 15}, {100, 110}, {300, 320}, {305, 320}}
	var hits []dp.Hit
	for _, a := range ivs {
		for _, b := range ivs {
			if a != b {
				hits = append(hits, dp.Hit{Abpos: a[0], Aepos: a[1], Bbpos: b[0], Bepos: b[1], Score: len(hits)})
			}
		}
	}
	n := 0
	for i := range hits {
		for j := range hits {
			if i == j {
				continue
			}
			k := map[string]interface{}{"family": "pairs made by NewPair from hits on a packed sequence", "hits": []dp.Hit{hits[i], hits[j]}}
			c.Doing(0, k)
			c.Eval()
			n++
			c.Guard("packed/panic", k, func() {
				p := pals.NewPiler(0)
				var pairs []*pals.Pair
				for _, h := range []dp.Hit{hits[i], hits[j]} {
					fp, err := pals.NewPair(packed, packed, h, false)
					if err != nil {
						c.Fail("packed/NewPair", k, "NewPair(%+v): %v", h, err)
						return
					}
					fp.A.Pair, fp.B.Pair = fp, fp
					if err := p.Add(fp); err == nil {
						pairs = append(pairs, fp)
					}
				}
				piles := p.Piles(nil)
				count := map[*pals.Feature]int{}
				for _, pl := range piles {
					for _, im := range pl.Images {
						count[im]++
					}
				}
				for pi, fp := range pairs {
					for _, f := range []*pals.Feature{fp.A, fp.B} {
						if f.Pair != fp || f.Mate() == nil || f.Mate().Mate() != f {
							c.Fail("packed/mate-link", k, "pair %d: feature %v is linked to pair %v, mate %v", pi, f, f.Pair, f.Mate())
						}
						if count[f] != 1 {
							c.Fail("packed/feature-count", k, "pair %d: feature %v appears %d times in the piles", pi, f, count[f])
						}
						if pl, ok := f.Location().(*pals.Pile); !ok || pl.From > f.From || pl.To < f.To {
							c.Fail("packed/image-location", k, "pair %d: feature %v lies on %v", pi, f, f.Location())
						}
					}
				}
				if len(count) != 2*len(pairs) {
					c.Fail("packed/feature-count", k, "%d accepted pairs but %d distinct features in the piles", len(pairs), len(count))
				}
			})
			c.Nontrivial(enum.J(k))
		}
	}
	c.Set("hit_lists_through_NewPair", n)
}

func run(c *enum.Ctx) {
	packedPairs(c)
	c.Rule("every multiset of <=3 feature pairs over the 15 intervals [s,e) 0<=s<e<=5 on one location (thorough: 0..6, 21 intervals) and every multiset of <=2 pairs over two locations, in every insertion order, every orientation of each pair, with the five pair filters (nil, all, none, by score, by the extent of the piles the images lie on), a pile of 2^k-1, 2^k, 2^k+1 (also 3*2^k, 10^j-1, 10^j, 10^j+1, 5*10^j) images (7..257) joined to a neighbouring pile by one feature added last, first or in the middle, the same after sequences of earlier Piles calls with other filters (partial, partial+nil, nil+partial; thorough also partial+none, all+partial), a repeated Piles call and a re-insertion of each pair in either orientation; every list of two hits over five intervals (shared and distinct ends) turned into pairs by NewPair on a packed sequence; every multiset again with all coordinates negative; a comb of 40 separate piles of which one feature bridges every run of 2..40 (then a feature in every former gap), and combs of ladder size to 257; reference = union-find over 'same location and overlapping or abutting'; distinct = (multiset, order, flips, filter); non-trivial = multisets with at least two features on one location that overlap or abut")
	maxE := 5
	if !c.Quick {
		maxE = 6
	}
	var fa []ft
	for s := 0; s < maxE; s++ {
		for e := s + 1; e <= maxE; e++ {
			fa = append(fa, ft{0, s, e})
		}
	}
	var pa []pr
	for i := range fa {
		for j := i; j < len(fa); j++ {
			pa = append(pa, pr{fa[i], fa[j]})
		}
	}
	// two locations: features on A and B over [0,4]
	var fb []ft
	for l := 0; l < 2; l++ {
		for s := 0; s < 4; s++ {
			for e := s + 1; e <= 4; e++ {
				fb = append(fb, ft{l, s, e})
			}
		}
	}
	var pb []pr
	for i := range fb {
		for j := i; j < len(fb); j++ {
			pb = append(pb, pr{fb[i], fb[j]})
		}
	}
	var states, trans atomic.Int64
	nontrivial := func(ps []pr) bool {
		var fs []ft
		for _, p := range ps {
			fs = append(fs, p.A, p.B)
		}
		for i := range fs {
			for j := i + 1; j < len(fs); j++ {
				if overlapOrAbut(fs[i], fs[j]) {
					return true
				}
			}
		}
		return false
	}
	doSet := func(slot int, set []pr, full bool) {
		states.Add(1)
		nt := nontrivial(set)
		{
			// the same multiset left of the origin (every coordinate negative), in the given order and reversed
			sh := make([]pr, len(set))
			for i, p := range set {
				sh[i] = pr{ft{p.A.L, p.A.S - 7, p.A.E - 7}, ft{p.B.L, p.B.S - 7, p.B.E - 7}}
			}
			rv := make([]pr, len(sh))
			for i := range sh {
				rv[i] = sh[len(sh)-1-i]
			}
			for _, o := range [][]pr{sh, rv} {
				k := kase{Pairs: o, Flip: make([]bool, len(o)), Filter: 0, Redo: -1}
				k.slot = slot
				c.Eval()
				trans.Add(int64(len(o)))
				check(c, k)
			}
		}
		// the cases of one multiset are de-duplicated here (orders of equal pairs coincide); cases of
		// different multisets differ, so the distinct ones are counted, not kept
		local := map[uint64]struct{}{}
		defer func() { c.NontrivialN(int64(len(local))) }()
		for _, pm := range perms(len(set)) {
			ord := make([]pr, len(set))
			for i, x := range pm {
				ord[i] = set[x]
			}
			flips := 1
			if full {
				flips = 1 << len(set)
			}
			for fl := 0; fl < flips; fl++ {
				fv := make([]bool, len(set))
				for i := range fv {
					fv[i] = fl>>i&1 == 1
				}
				for filt := 0; filt < 5; filt++ {
					if !full && filt > 0 {
						continue
					}
					k := kase{Pairs: ord, Flip: fv, Filter: filt, Redo: -1}
					k.slot = slot
					c.Eval()
					trans.Add(int64(len(set)))
					check(c, k)
					if nt {
						local[enum.Hash64(enum.J(k))] = struct{}{}
					}
				}
				if full && len(set) > 1 {
					// earlier Piles calls with other filters must not change what a later call reports
					befores := [][]int{{3}, {3, 0}, {0, 3}, {3, 2}, {1, 3}}
					if c.Quick {
						befores = befores[:3]
					}
					for _, before := range befores {
						for filt := 0; filt < 4; filt++ {
							if c.Quick && filt == 1 {
								continue
							}
							k := kase{Pairs: ord, Flip: fv, Filter: filt, Before: before, Redo: -1}
							k.slot = slot
							c.Eval()
							trans.Add(int64(len(set) + len(before)))
							check(c, k)
							if nt {
								local[enum.Hash64(enum.J(k))] = struct{}{}
							}
						}
					}
				}
				if full {
					for r := range set {
						for _, rf := range []bool{false, true} {
							k := kase{Pairs: ord, Flip: fv, Filter: 3, Twice: true, Redo: r, RedoFlip: rf}
							k.slot = slot
							c.Eval()
							trans.Add(int64(len(set) + 1))
							check(c, k)
						}
					}
				}
			}
		}
	}
	// one location: all multisets of <=3 pairs; orders always, flips/filters for <=2 pairs (thorough: 3)
	enum.Parallel(len(pa), func(i int) {
		doSet(i, []pr{pa[i]}, true)
		for j := i; j < len(pa); j++ {
			doSet(i, []pr{pa[i], pa[j]}, true)
			for l := j; l < len(pa); l++ {
				doSet(i, []pr{pa[i], pa[j], pa[l]}, !c.Quick && maxE == 6 && (i+j+l)%7 == 0)
			}
		}
	})
	enum.Parallel(len(pb), func(i int) {
		for j := i; j < len(pb); j++ {
			if pb[i].A.L == 0 && pb[i].B.L == 0 && pb[j].A.L == 0 && pb[j].B.L == 0 {
				continue // everything on the first location: enumerated above
			}
			doSet(i, []pr{pb[i], pb[j]}, true)
		}
	})
	// the size ladder of the pile depth: a pile of 2^k-1, 2^k, 2^k+1 (also 3*2^k, 10^j-1, 10^j, 10^j+1, 5*10^j) images on A[10,21) (mates far apart on
	// B), a small pile on A[0,5), and one feature A[4,11) that joins the two - added last, first or in the
	// middle; every filter
	var deep []kase
	for _, n := range enum.Ladder(7, 257) {
		var ps []pr
		for i := 0; i < n; i++ {
			ps = append(ps, pr{ft{0, 10 + i%3, 19 + i%3}, ft{1, 100 * i, 100*i + 5}})
		}
		left := []pr{{ft{0, 0, 3}, ft{2, 50, 55}}, {ft{0, 2, 5}, ft{2, 60, 65}}}
		bridge := pr{ft{0, 4, 11}, ft{2, 0, 3}}
		orders := [][]pr{
			append(append(append([]pr{}, left...), ps...), bridge),
			append(append([]pr{bridge}, ps...), left...),
			append(append(append(append([]pr{}, ps[:n/2]...), left...), bridge), ps[n/2:]...),
			append(append(append([]pr{}, ps...), left...), bridge),
		}
		for _, o := range orders {
			for filt := 0; filt < 5; filt++ {
				deep = append(deep, kase{Pairs: o, Flip: make([]bool, len(o)), Filter: filt, Redo: -1})
			}
			deep = append(deep, kase{Pairs: o, Flip: make([]bool, len(o)), Filter: 0, Before: []int{3}, Redo: 0, RedoFlip: true})
		}
	}
	// the comb: 40 separate piles on A (teeth two wide, gaps two wide), then ONE feature that bridges `span`
	// of them starting at tooth `first` (every span 2..40 x every first: the other teeth stay piles of their
	// own), then a feature in every former gap of the merged pile; plus combs of ladder size bridged whole
	comb := func(n, first, span int) kase {
		var ps []pr
		for i := 0; i < n; i++ {
			ps = append(ps, pr{ft{0, 4 * i, 4*i + 2}, ft{1, 10 * i, 10*i + 3}})
		}
		ps = append(ps, pr{ft{0, 4*first + 1, 4*(first+span-1) + 1}, ft{2, 0, 5}}) // the bridge
		for j := first; j < first+span-1; j++ {
			ps = append(ps, pr{ft{0, 4*j + 2, 4*j + 3}, ft{2, 30 + 10*j, 35 + 10*j}})
		}
		return kase{Pairs: ps, Flip: make([]bool, len(ps)), Filter: 0, Redo: -1}
	}
	for span := 2; span <= 40; span++ {
		for first := 0; first+span <= 40; first++ {
			deep = append(deep, comb(40, first, span))
		}
	}
	for _, n := range enum.Ladder(41, 257) {
		deep = append(deep, comb(n+4, 2, n))
	}
	enum.Parallel(len(deep), func(i int) {
		k := deep[i]
		k.slot = i
		c.Eval()
		trans.Add(int64(len(k.Pairs)))
		check(c, k)
		c.NontrivialH(enum.Hash64(enum.J(k)))
	})
	c.Set("deep_pile_cases", len(deep))
	c.MC(states.Load(), trans.Load(), c.Evals())
	c.Sample(kase{Pairs: []pr{pa[3], pa[40], pa[77]}, Flip: []bool{false, true, false}, Redo: -1})
}

func main() {
	enum.Main("C16", "model_checking", run, func(c *enum.Ctx, in json.RawMessage) {
		var k kase
		if err := json.Unmarshal(in, &k); err != nil {
			panic(err)
		}
		fmt.Printf("case %+v\n", k)
		check(c, k)
	})
}
