// C03: readers are total: malformed input yields errors, never panics or hangs.
package main

import (
	"bytes"
	"encoding/json"
	"errors"
	"fmt"
	"github.com/biogo/biogo/seq"
	"io"
	"os"
	"os/exec"
	"reflect"
	"strings"
	"sync"
	"sync/atomic"
	"time"
	_ "verif/h/duoc"

	"github.com/biogo/biogo/alphabet"
	"github.com/biogo/biogo/io/featio/bed"
	"github.com/biogo/biogo/io/featio/gff"
	"github.com/biogo/biogo/io/seqio/fasta"
	"github.com/biogo/biogo/io/seqio/fastq"
	"github.com/biogo/biogo/seq/linear"
	"verif/h/enum"
)

type kase struct {
	Format    string `json:"format"` // fasta fastq bed3 bed4 bed5 bed6 bed12 gff
	Data      []byte `json:"data"`
	MustError bool   `json:"must_error,omitempty"`
	Why       string `json:"why,omitempty"`
	// Groups: Data is a FASTQ file of four-line groups "@g<i>", letters, "+" or "+g<i>", qualities; reading
	// continues past errors and every record that comes back must be its own group, never a mismatched one.
	Groups bool `json:"groups,omitempty"`
}

var formats = []string{"fasta", "fasta-picky", "fastq", "fastq-picky", "fastq-solexa", "fastq-illumina1_3", "bed3", "bed4", "bed5", "bed6", "bed12", "gff", "gff-notime"} // gff-notime: the GFF reader with date parsing switched off (TimeFormat "")

// pickySeq / pickyQSeq are templates of the caller's own that refuse some names and descriptions (a
// reader reports such an error with the record; it must not come to grief over it).
var errPicky = errors.New("template: name or description refused")

type pickySeq struct{ *linear.Seq }

func (p pickySeq) Clone() seq.Sequence { return pickySeq{p.Seq.Clone().(*linear.Seq)} }
func (p pickySeq) SetName(n string) error {
	if strings.HasPrefix(n, "id") || n == "" {
		return errPicky
	}
	return p.Seq.SetName(n)
}
func (p pickySeq) SetDescription(d string) error {
	if d == "" || strings.Contains(d, "more") {
		return errPicky
	}
	return p.Seq.SetDescription(d)
}

type pickyQSeq struct{ *linear.QSeq }

func (p pickyQSeq) Clone() seq.Sequence { return pickyQSeq{p.QSeq.Clone().(*linear.QSeq)} }
func (p pickyQSeq) SetName(n string) error {
	if strings.HasPrefix(n, "id") || n == "" {
		return errPicky
	}
	return p.QSeq.SetName(n)
}
func (p pickyQSeq) SetDescription(d string) error {
	if d == "" || d == "d" {
		return errors.New("template: description refused") // another error value than the name's
	}
	return p.QSeq.SetDescription(d)
}

// fastqEncoding: the quality encoding of the template a FASTQ format name stands for.
func fastqEncoding(format string) alphabet.Encoding {
	switch format {
	case "fastq-solexa":
		return alphabet.Solexa
	case "fastq-illumina1_3":
		return alphabet.Illumina1_3
	}
	return alphabet.Sanger
}

func isNil(v interface{}) bool {
	if v == nil {
		return true
	}
	rv := reflect.ValueOf(v)
	switch rv.Kind() {
	case reflect.Ptr, reflect.Slice, reflect.Map, reflect.Interface:
		return rv.IsNil()
	}
	return false
}

// readAll drives one reader to its first error.
func readAll(k kase) (calls int, records int, err error, bad string) {
	lines := bytes.Count(k.Data, []byte{'\n'})
	if len(k.Data) > 0 && k.Data[len(k.Data)-1] != '\n' {
		lines++
	}
	var read func() (interface{}, error)
	switch {
	case k.Format == "fasta-picky":
		r := fasta.NewReader(bytes.NewReader(k.Data), pickySeq{linear.NewSeq("", nil, alphabet.DNA)})
		read = func() (interface{}, error) { s, e := r.Read(); return s, e }
	case k.Format == "fastq-picky":
		r := fastq.NewReader(bytes.NewReader(k.Data), pickyQSeq{linear.NewQSeq("", nil, alphabet.DNA, alphabet.Sanger)})
		read = func() (interface{}, error) { s, e := r.Read(); return s, e }
	case k.Format == "fasta":
		r := fasta.NewReader(bytes.NewReader(k.Data), linear.NewSeq("", nil, alphabet.DNA))
		read = func() (interface{}, error) { s, e := r.Read(); return s, e }
	case strings.HasPrefix(k.Format, "fastq"):
		r := fastq.NewReader(bytes.NewReader(k.Data), linear.NewQSeq("", nil, alphabet.DNA, fastqEncoding(k.Format)))
		read = func() (interface{}, error) { s, e := r.Read(); return s, e }
	case strings.HasPrefix(k.Format, "bed"):
		var n int
		fmt.Sscan(k.Format[3:], &n)
		r, e := bed.NewReader(bytes.NewReader(k.Data), n)
		if e != nil {
			return 0, 0, e, ""
		}
		read = func() (interface{}, error) { f, e := r.Read(); return f, e }
	default:
		r := gff.NewReader(bytes.NewReader(k.Data))
		if k.Format == "gff-notime" {
			r.TimeFormat = ""
		}
		read = func() (interface{}, error) { f, e := r.Read(); return f, e }
	}
	for {
		calls++
		v, e := read()
		if e != nil {
			// reading on after the end (or after an error) still answers every call with a record or an error
			for extra := 0; extra < 2; extra++ {
				if v2, e2 := read(); e2 == nil && isNil(v2) {
					return calls, records, e, fmt.Sprintf("call %d, after an earlier call had returned %q, returned neither a record nor an error", calls+extra+1, e.Error())
				}
			}
			return calls, records, e, ""
		}
		if isNil(v) {
			return calls, records, nil, "a call returned neither a record nor an error"
		}
		records++
		if calls > lines+1 {
			return calls, records, nil, fmt.Sprintf("%d successful calls for %d input lines without reaching io.EOF or an error", calls, lines)
		}
	}
}

// checkGroups: no record of a FASTQ file of four-line groups is ever returned with letters or qualities
// other than its own, and a group whose lengths differ is never returned at all - also after an earlier
// call on the same reader has failed.
func checkGroups(c *enum.Ctx, k kase) {
	lines := strings.Split(strings.TrimSuffix(string(k.Data), "\n"), "\n")
	type group struct{ letters, quals string }
	groups := map[string]group{}
	for i := 0; i+3 < len(lines); i += 4 {
		// white space inside a quality line does not count (the reader joins its fields)
		groups[strings.TrimPrefix(lines[i], "@")] = group{lines[i+1], strings.Join(strings.Fields(lines[i+3]), "")}
	}
	c.Guard("fastq/panic", k, func() {
		r := fastq.NewReader(bytes.NewReader(k.Data), linear.NewQSeq("", nil, alphabet.DNA, alphabet.Sanger))
		failed := false
		for calls := 0; calls <= len(lines)+2; calls++ {
			s, err := r.Read()
			if err == io.EOF {
				return
			}
			if err != nil {
				failed = true
				continue
			}
			if isNil(s) {
				c.Fail("fastq/contract", k, "a call returned neither a record nor an error (input %q)", k.Data)
				return
			}
			q := s.(*linear.QSeq)
			g, ok := groups[q.Name()]
			when := ""
			if failed {
				when = " after an earlier call had failed"
			}
			var got, gq []byte
			for _, ql := range q.Seq {
				got = append(got, byte(ql.L))
				gq = append(gq, ql.Q.Encode(alphabet.Sanger))
			}
			switch {
			case !ok:
				c.Fail("fastq/groups/unknown-record", k, "record %q returned%s, no such group in %q", q.Name(), when, k.Data)
			case len(g.letters) != len(g.quals):
				c.Fail("fastq/invalid-accepted/sequence-quality length mismatch", k, "group %q has %d letters and %d qualities but was returned%s as a record with letters %q (input %q)", q.Name(), len(g.letters), len(g.quals), when, got, k.Data)
			case string(got) != g.letters || string(gq) != g.quals:
				c.Fail("fastq/groups/wrong-content", k, "group %q returned%s with letters %q qualities %q, the file says %q %q (input %q)", q.Name(), when, got, gq, g.letters, g.quals, k.Data)
			default:
				continue
			}
			return
		}
	})
}

var current [16]atomic.Value // per worker: the case being evaluated (for the hang watchdog)

func check(c *enum.Ctx, k kase) {
	if k.Groups {
		checkGroups(c, k)
		return
	}
	var calls int
	var err error
	var bad string
	if c.Guard(k.Format+"/panic", k, func() { calls, _, err, bad = readAll(k) }) {
		return
	}
	if bad != "" {
		c.Fail(k.Format+"/contract", k, "%s (input %q)", bad, k.Data)
		return
	}
	_ = calls
	if k.MustError && (err == nil || err == io.EOF) {
		c.Fail(k.Format+"/invalid-accepted/"+k.Why, k, "input %q contains a structurally invalid line (%s) but reading ended with %v", k.Data, k.Why, err)
	}
}

// ---- line tokens

type token struct {
	text    string
	invalid string // non-empty: a structurally invalid line of the kinds the statement lists
}

func bedTokens(n int) []token {
	cols := []string{"chr1", "10", "20", "name", "5", "+", "12", "18", "1,2,3", "2", "3,4", "0,6"}
	mk := func(c []string) string { return strings.Join(c, "\t") }
	with := func(i int, v string) string {
		c := append([]string{}, cols[:n]...)
		c[i] = v
		return mk(c)
	}
	t := []token{
		{mk(cols[:n]), ""},
		{mk(cols[:n-1]), "missing column"},
		{mk(cols[:n]) + "\textra", ""},
		{with(1, "x"), "non-numeric start"},
		{with(2, "99999999999999999999"), "coordinate overflow"},
		{with(2, ""), "empty end"},
		{with(1, ""), "empty start"},
		{with(1, " "), "blank start"},
		{with(2, " "), "blank end"},
		{with(2, "1e3"), "non-integer end"},
		{with(1, "+"), "sign-only start"},
		{with(2, "-"), "sign-only end"},
		{"", "blank line"},
		{"\t\t", "empty columns"},
		{with(1, "-5"), ""},
		{with(0, "#c"), ""},
	}
	if n >= 5 {
		t = append(t, token{with(4, "1.5"), "non-integer score"})
	}
	if n >= 6 {
		t = append(t, token{with(5, "x"), "bad strand"}, token{with(5, "++"), "bad strand"}, token{with(5, "."), ""})
	}
	if n == 12 {
		t = append(t, token{with(8, "1,2"), "bad colour"}, token{with(8, "0"), ""}, token{with(9, "3"), "block count mismatch"},
			token{with(10, "3,4,"), ""}, token{with(11, "0,x"), "non-numeric block start"}, token{with(8, "256,0,0"), "colour overflow"})
		// no blocks at all: a count of zero with lists that hold nothing but the separator
		c := append([]string{}, cols...)
		c[9], c[10], c[11] = "0", ",", ","
		t = append(t, token{mk(c), ""})
		c = append([]string{}, cols...)
		c[9], c[10], c[11] = "1", "10,", "0,"
		t = append(t, token{mk(c), ""})
	}
	return t
}

var gffTokens = []token{
	{"seq\tsrc\tfeat\t1\t5\t.\t+\t.\tID x", ""},
	{"seq\tsrc\tfeat\t1\t5\t0.5\t-\t0", ""},
	{"seq\tsrc\tfeat\t1\t5\t.\t+", "missing frame column"},
	{"seq\tsrc\tfeat\t1\t5\t.", "missing columns"},
	{"seq\tsrc\tfeat\t1\t5\t.\t+\t.\tID x\tcomment text", ""},
	{"seq\tsrc\tfeat\t1\t5\t.\t+\t.\t; gene_id \"a\"; gene_id \"b\"", ""}, // an empty entry, then a tag that occurs twice
	{"seq\tsrc\tfeat\t1\t5\t.\t+\t.\tNote a; Note b;; Note a", ""},
	{"seq\tsrc\tfeat\t0\t5\t.\t+\t.", "start of zero"},
	{"seq\tsrc\tfeat\t-1\t5\t.\t+\t.", ""},
	{"seq\tsrc\tfeat\t1\t5\t.\tx\t.", "bad strand"},
	{"seq\tsrc\tfeat\t1\t5\t.\t+\tx", "bad frame"},
	{"seq\tsrc\tfeat\t1\tx\t.\t+\t.", "non-numeric end"},
	{"seq\tsrc\tfeat\t\t5\t.\t+\t.", "empty start"},
	{"seq\tsrc\tfeat\t1\t\t.\t+\t.", "empty end"},
	{"seq\tsrc\tfeat\t1\t \t.\t+\t.", "blank end"},
	{"seq\tsrc\tfeat\t1\t1e3\t.\t+\t.", "non-integer end"},
	{"seq\tsrc\tfeat\t+\t5\t.\t+\t.", "sign-only start"},
	{"seq\tsrc\tfeat\t1\t-\t.\t+\t.", "sign-only end"},
	{"##sequence-region chr1 1  5", "empty region end"},
	{"##sequence-region chr1 x 5", "non-numeric region start"},
	{"##sequence-region chr1 1 5x", "non-numeric region end"},
	{"seq\tsrc\tfeat\t1\t5\tx\t+\t.", "non-numeric score"},
	{"##gff-version 2", ""},
	{"##gff-version", "incomplete metadata line"},
	{"##source-version", "incomplete metadata line"},
	{"##source-version prog 1.0", ""},
	{"##date", "incomplete metadata line"},
	{"##date 2020-1-02", ""},
	{"##Type", "incomplete metadata line"},
	{"##Type DNA chr1", ""},
	{"##Type  chr1", ""}, // an emptied field between two separators (what the reader makes of it is not demanded)
	{"##type  ", ""},
	{"##sequence-region  1 5", ""},
	{"##source-version  1.0", ""},
	{"##DNA ", ""},
	{"##sequence-region chr1 1", "incomplete metadata line"},
	{"##sequence-region chr1 0 5", "start of zero"},
	{"##sequence-region chr1 1 5", ""},
	{"##DNA", "incomplete metadata line"},
	{"##DNA s1", "<open>"},
	{"##acgt", "<seqdata>"},
	{"##end-DNA", "<close>"},
	{"# a comment", ""},
	{"", ""},
	{"##", ""},
}

var fastaTokens = []token{{">id", ""}, {">id desc more", ""}, {">", ""}, {"acgt", ""}, {"ac gt", ""}, {"", ""}, {"  \t", ""}, {">>x", ""}, {"@x", ""}, {"+", ""}}

var fastqTokens = []token{{"@id", ""}, {"@id d", ""}, {"acgt", ""}, {"ac", ""}, {"+", ""}, {"+id", ""}, {"@@@@", ""}, {"++", ""}, {"", ""}, {" ", ""}, {"!!!!", ""}, {"garbage here", ""},
	{"\x00\x7f\x80\xbf", ""}, {"\xc0\xff", ""}} // quality bytes outside every printable range

// expect computes whether a token sequence must end in a non-EOF error.
func expect(format string, toks []token) (bool, string) {
	switch {
	case strings.HasPrefix(format, "bed"):
		for _, t := range toks {
			if t.invalid != "" {
				return true, t.invalid
			}
		}
	case strings.HasPrefix(format, "gff"):
		open := false
		for _, t := range toks {
			switch {
			case open:
				if t.invalid == "<close>" {
					open = false
				} else if !strings.HasPrefix(strings.TrimSpace(t.text), "##") && strings.TrimSpace(t.text) != "" {
					return true, "line without ## inside an inline sequence"
				}
			case t.invalid == "<open>":
				open = true
			case t.invalid == "<seqdata>" || t.invalid == "<close>":
				// outside a sequence these are unknown metadata lines: an error, but not one the statement lists
			case t.invalid != "":
				return true, t.invalid
			}
		}
	case format == "fasta":
		for _, t := range toks {
			s := strings.TrimSpace(t.text)
			if s == "" {
				continue
			}
			if !strings.HasPrefix(s, ">") {
				return true, "sequence line before any header"
			}
			break
		}
	case strings.HasPrefix(format, "fastq"):
		// (valid record)* then one record whose quality length differs
		if len(toks)%4 != 0 || len(toks) == 0 {
			return false, ""
		}
		for i := 0; i < len(toks); i += 4 {
			h, l, p, q := toks[i].text, toks[i+1].text, toks[i+2].text, toks[i+3].text
			if !strings.HasPrefix(h, "@") || h == "@@@@" || (l != "acgt" && l != "ac") || p != "+" || (q != "@@@@" && q != "!!!!" && q != "++") {
				return false, ""
			}
			if len(l) != len(q) {
				return true, "sequence/quality length mismatch"
			}
		}
	}
	return false, ""
}

func tokensFor(format string) []token {
	switch format {
	case "fasta", "fasta-picky":
		return fastaTokens
	case "fastq", "fastq-picky", "fastq-solexa", "fastq-illumina1_3":
		return fastqTokens
	case "gff", "gff-notime":
		return gffTokens
	}
	var n int
	fmt.Sscan(format[3:], &n)
	return bedTokens(n)
}

// ---- seeds for mutation

var seeds = map[string][]string{
	"fasta":             {">s1 first\nacgtacgt\nacgt\n>s2\nttga\n"},
	"fastq":             {"@r1 d\nacgt\n+\n!!!!\n@r2\nac\n+r2\n@+\n"},
	"fastq-picky":       {"@id1 d\nacgt\n+\n!!!!\n@r2\nac\n+r2\n@+\n"},
	"fasta-picky":       {">id1 first more\nacgtacgt\nacgt\n>s2\nttga\n"},
	"fastq-solexa":      {"@r1 d\nacgt\n+\n;@h~\n@r2\nac\n+r2\n\xc0\xff\n"},
	"fastq-illumina1_3": {"@r1 d\nacgt\n+\n@Bh~\n@r2\nac\n+r2\n\x00\xff\n"},
	"bed3":              {"chr1\t10\t20\nchr2\t0\t5\n"},
	"bed4":              {"chr1\t10\t20\tn1\nchr2\t0\t5\tn2\n"},
	"bed5":              {"chr1\t10\t20\tn1\t3\nchr2\t0\t5\tn2\t0\n"},
	"bed6":              {"chr1\t10\t20\tn1\t3\t+\nchr2\t0\t5\tn2\t0\t-\n"},
	"bed12":             {"chr1\t10\t20\tn1\t3\t+\t12\t18\t1,2,3\t2\t3,4\t0,6\nchr2\t0\t5\tn2\t0\t.\t0\t0\t0\t1\t5\t0\n"},
	"gff-notime":        {"##gff-version 2\n##date 2020-1-02\nchr1\tsrc\tgene\t3\t9\t0.5\t+\t0\tID g1\n##date x\n##DNA s1\n##acgt\n##end-DNA\nchr1\tsrc\texon\t4\t6\t.\t-\t.\n"},
	"gff":               {"##gff-version 2\n##sequence-region chr1 1 100\nchr1\tsrc\tgene\t3\t9\t0.5\t+\t0\tID g1; Note \"a b\"\tfree text\n# c\n##DNA s1\n##acgt\n##ac\n##end-DNA\nchr1\tsrc\texon\t4\t6\t.\t-\t.\n"},
}

func mutations(seed string) [][]byte {
	var out [][]byte
	lines := strings.SplitAfter(seed, "\n")
	if lines[len(lines)-1] == "" {
		lines = lines[:len(lines)-1]
	}
	join := func(ls []string) []byte { return []byte(strings.Join(ls, "")) }
	for li, line := range lines {
		// delete / duplicate the line
		out = append(out, join(append(append([]string{}, lines[:li]...), lines[li+1:]...)))
		out = append(out, join(append(append(append([]string{}, lines[:li+1]...), line), lines[li+1:]...)))
		body := strings.TrimSuffix(line, "\n")
		sep := "\t"
		if !strings.Contains(body, "\t") {
			sep = " "
		}
		cols := strings.Split(body, sep)
		for ci := range cols {
			variants := [][]string{
				append(append([]string{}, cols[:ci]...), cols[ci+1:]...),                     // delete column
				append(append(append([]string{}, cols[:ci+1]...), cols[ci]), cols[ci+1:]...), // duplicate column
			}
			for _, v := range []string{"", "0", "-1", "9223372036854775808", "x", "1e3", " "} {
				nc := append([]string{}, cols...)
				nc[ci] = v
				variants = append(variants, nc)
			}
			for _, v := range variants {
				nl := append([]string{}, lines...)
				nl[li] = strings.Join(v, sep) + "\n"
				out = append(out, join(nl))
			}
		}
	}
	for i := 0; i <= len(seed); i++ {
		out = append(out, []byte(seed[:i]))
	}
	return out
}

func run(c *enum.Ctx) {
	c.Rule("per format (FASTA, FASTQ with a Sanger, a Solexa and an Illumina 1.3 template, FASTA and FASTQ with a template of the caller's own that refuses some names and descriptions, BED3/4/5/6/12, GFF): (a) every sequence of <=3 (thorough 4) line tokens from an alphabet of 10-30 line shapes (valid lines and every invalid shape the statement lists; metadata lines with an emptied field, BED12 lines without blocks), each with and without a final newline and with CRLF; (b) every byte string of length <=4 (thorough 5) over 15 structural bytes; (c) every single mutation (thorough: every pair) of a valid seed file: delete/duplicate a line, delete/duplicate/replace a column by {'',0,-1,2^63,x,1e3,' '}, truncate at every byte offset; oracle: no panic, every call returns a record or an error, io.EOF or an error within lines+1 calls, and inputs with an invalid line of a listed kind end in a non-EOF error; (d) the size ladder (one field of a well-formed file - letters, name, block lists with and without trailing comma, attributes, comment, inline sequence - with 2^k-1, 2^k, 2^k+1 (also 3*2^k, 10^j-1, 10^j, 10^j+1, 5*10^j) elements up to 1025, thorough 8193); FASTQ files of <=3 (4) four-line groups over 9 letters/qualities shapes (two with white space inside the quality line: as many raw bytes as letters but fewer scores, and the reverse) x 2 '+'-line styles, read on past errors: every record that comes back is its own group and no group with differing lengths ever comes back; distinct = distinct inputs; non-trivial = inputs with at least one complete line")
	c.Assume("a hang is detected by a progress watchdog and confirmed by re-running the single input in a child process before it is reported")
	depth, blen := 3, 4
	if !c.Quick {
		depth, blen = 4, 5
	}
	// watchdog
	done := make(chan struct{})
	go watchdog(c, done)
	var mu sync.Mutex
	_ = mu
	type job struct {
		format string
		part   int
	}
	var jobs []job
	for _, f := range formats {
		for p := 0; p < 4; p++ {
			jobs = append(jobs, job{f, p})
		}
	}
	jobs = append(jobs, job{"fastq", 4})
	for _, f := range formats {
		jobs = append(jobs, job{f, 5})
	}
	enum.Parallel(len(jobs), func(ji int) {
		j := jobs[ji]
		nt := enum.NontrivialSet{}
		slot := ji % 16
		eval := func(k kase) {
			current[slot].Store(k)
			c.Eval()
			check(c, k)
			if bytes.IndexByte(k.Data, '\n') >= 0 {
				nt.AddH(enum.Hash64(k.Format + string(k.Data)))
			}
		}
		toks := tokensFor(j.format)
		switch j.part {
		case 0, 1: // token sequences; part 1 = CRLF / no final newline variants
			idx := make([]int, 0, depth)
			var rec func()
			rec = func() {
				if len(idx) > 0 {
					seq := make([]token, len(idx))
					var sb strings.Builder
					for i, x := range idx {
						seq[i] = toks[x]
						sb.WriteString(toks[x].text)
						sb.WriteByte('\n')
					}
					must, why := expect(j.format, seq)
					text := sb.String()
					if j.part == 0 {
						eval(kase{Format: j.format, Data: []byte(text), MustError: must, Why: why})
					} else {
						if strings.TrimSpace(seq[len(seq)-1].text) != "" { // a blank last line would disappear with its terminator
							eval(kase{Format: j.format, Data: []byte(strings.TrimSuffix(text, "\n")), MustError: must, Why: why})
						}
						eval(kase{Format: j.format, Data: []byte(strings.ReplaceAll(text, "\n", "\r\n")), MustError: must, Why: why})
					}
				}
				if len(idx) == depth {
					return
				}
				for x := range toks {
					idx = append(idx, x)
					rec()
					idx = idx[:len(idx)-1]
				}
			}
			rec()
		case 5: // the size ladder: one field of a well-formed file has 2^k-1, 2^k, 2^k+1 (also 3*2^k, 10^j-1, 10^j, 10^j+1, 5*10^j) elements / letters
			top := 1025
			if !c.Quick {
				top = 8193
			}
			for _, n := range enum.Ladder(3, top) {
				rep := func(unit string, sep string) string {
					parts := make([]string, n)
					for i := range parts {
						parts[i] = fmt.Sprintf(unit, i%9+1)
					}
					return strings.Join(parts, sep)
				}
				var texts []string
				switch {
				case j.format == "fasta":
					texts = []string{">id d\n" + strings.Repeat("acgt", n)[:n] + "\n>b\nac\n", ">" + strings.Repeat("i", n) + " " + strings.Repeat("d", n) + "\nac\n"}
				case strings.HasPrefix(j.format, "fastq"):
					texts = []string{"@id\n" + strings.Repeat("acgt", n)[:n] + "\n+\n" + strings.Repeat("I", n) + "\n@b\nac\n+\nII\n", "@id\n" + strings.Repeat("a", n) + "\n+\n" + strings.Repeat("I", n-1) + "\n"}
				case j.format == "bed12":
					for _, tail := range []string{"", ","} {
						texts = append(texts, fmt.Sprintf("chr1\t0\t%d\tn\t0\t+\t0\t0\t0\t%d\t%s%s\t%s%s\nchr2\t0\t5\tn2\t0\t.\t0\t0\t0\t1\t5\t0\n", 20*n, n, rep("%d", ","), tail, rep("%d", ","), tail))
					}
					texts = append(texts, fmt.Sprintf("chr1\t0\t9\tn\t0\t+\t0\t0\t%s\t1\t5\t0\n", rep("%d", ",")))
				case strings.HasPrefix(j.format, "bed"):
					var nc int
					fmt.Sscan(j.format[3:], &nc)
					cols := []string{strings.Repeat("c", n), "10", "20", strings.Repeat("n", n), "5", "+"}
					texts = []string{strings.Join(cols[:nc], "\t") + "\n" + strings.Join(cols[:nc], "\t") + "\n"}
				default: // gff
					texts = []string{
						"seq\tsrc\tfeat\t1\t5\t.\t+\t.\t" + rep("tag%d v", "; ") + "\tcomment\n",
						"seq\tsrc\tfeat\t1\t5\t.\t+\t.\tID x\t" + strings.Repeat("c", n) + "\n",
						"##DNA s1\n##" + strings.Repeat("acgt", n)[:n] + "\n##end-DNA\nseq\tsrc\tfeat\t1\t5\t.\t+\t.\n",
						"##sequence-region " + strings.Repeat("r", n) + " 1 5\n",
					}
				}
				for _, t := range texts {
					eval(kase{Format: j.format, Data: []byte(t)})
					eval(kase{Format: j.format, Data: []byte(strings.TrimSuffix(t, "\n"))})
				}
			}
		case 4: // FASTQ files of <=depth four-line groups, read on past errors
			type shape struct{ letters, quals string }
			shapes := []shape{{"acgt", "IIII"}, {"acgt", "II"}, {"ac", "IIII"}, {"ac", "5I"}, {"", "IIII"}, {"", "II"}, {"", ""}, {"acgt", "II I"}, {"acg", "I\tII"}}
			idx := make([]int, 0, depth)
			var rec func()
			rec = func() {
				if len(idx) > 0 {
					var sb strings.Builder
					for i, x := range idx {
						sh, plus := shapes[x/2], "+"
						if x%2 == 1 {
							plus = fmt.Sprintf("+g%d", i)
						}
						fmt.Fprintf(&sb, "@g%d\n%s\n%s\n%s\n", i, sh.letters, plus, sh.quals)
					}
					eval(kase{Format: "fastq", Data: []byte(sb.String()), Groups: true})
				}
				if len(idx) == depth {
					return
				}
				for x := 0; x < 2*len(shapes); x++ {
					idx = append(idx, x)
					rec()
					idx = idx[:len(idx)-1]
				}
			}
			rec()
		case 2:
			enum.Strings("\n\r\t #>@+.-;,0a\xff", 0, blen, func(s []byte) {
				eval(kase{Format: j.format, Data: append([]byte{}, s...)})
			})
		case 3:
			for _, seed := range seeds[j.format] {
				ms := mutations(seed)
				for _, m := range ms {
					eval(kase{Format: j.format, Data: m})
				}
				if !c.Quick {
					for i, m := range ms {
						if i%3 != 0 {
							continue
						}
						for _, m2 := range mutations(string(m)) {
							eval(kase{Format: j.format, Data: m2})
						}
					}
				}
			}
		}
		c.Merge(nt)
		if j.part == 0 {
			c.Sample(kase{Format: j.format, Data: []byte(toks[1].text + "\n" + toks[0].text + "\n")})
		}
	})
	close(done)
}

func watchdog(c *enum.Ctx, done chan struct{}) {
	last, stalled := int64(-1), 0
	for {
		select {
		case <-done:
			return
		case <-time.After(5 * time.Second):
		}
		if n := c.Evals(); n == last {
			stalled++
		} else {
			last, stalled = n, 0
		}
		if stalled < 4 {
			continue
		}
		// no progress for 20 s: confirm each in-flight input in a child process
		for i := range current {
			k, ok := current[i].Load().(kase)
			if !ok {
				continue
			}
			data, _ := json.Marshal(k)
			cmd := exec.Command(os.Args[0], "--probe", string(data))
			fin := make(chan error, 1)
			cmd.Start()
			go func() { fin <- cmd.Wait() }()
			select {
			case <-fin:
			case <-time.After(20 * time.Second):
				cmd.Process.Kill()
				c.Fail(k.Format+"/hang", k, "Read does not return on input %q (confirmed in a separate process)", k.Data)
			}
		}
		c.NotExhaustive("progress watchdog fired; the run was abandoned after examining the in-flight inputs")
		os.Exit(c.Finish())
	}
}

func main() {
	if len(os.Args) == 3 && os.Args[1] == "--probe" {
		var k kase
		json.Unmarshal([]byte(os.Args[2]), &k)
		defer func() { recover() }()
		readAll(k)
		return
	}
	enum.Main("C03", "exploration", run, func(c *enum.Ctx, in json.RawMessage) {
		var k kase
		if err := json.Unmarshal(in, &k); err != nil {
			panic(err)
		}
		fmt.Printf("format %s input %q\n", k.Format, k.Data)
		check(c, k)
	})
}
