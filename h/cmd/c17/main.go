// C17: alphabets map letters, indices and complements consistently.
// Complete over the 7 built-in alphabets x 256 letters; bounded-exhaustive over
// generated alphabet and pairing definitions.
package main

import (
	"encoding/json"
	"fmt"
	"github.com/biogo/biogo/seq/linear"
	"strings"
	"unicode"
	_ "verif/h/duoc"

	"github.com/biogo/biogo/alphabet"
	"github.com/biogo/biogo/feat"
	"verif/h/enum"
)

type kase struct {
	Kind    string `json:"kind"`
	Name    string `json:"name,omitempty"`   // built-in
	Def     string `json:"def,omitempty"`    // definition letters
	Cased   bool   `json:"cased,omitempty"`  // case sensitive
	Reused  bool   `json:"reused,omitempty"` // the Pairing was given to a case-insensitive complementor first
	S       string `json:"s,omitempty"`      // pairing definition
	C       string `json:"c,omitempty"`
	Letters []byte `json:"letters,omitempty"` // AllValid input
	Used    bool   `json:"used,omitempty"`    // built-in: sequences over the alphabet were reverse-complemented first
	// Prev: an alphabet with this definition and the OTHER case sensitivity (same molecule type, gap and
	// ambiguity letter) is built directly before the one of the case
	Prev string `json:"prev,omitempty"`
	Gap  byte   `json:"gap,omitempty"` // gap letter handed to the constructors (default '-')
	// AgreeOnly: a case-insensitive complementor over a pairing spelt in one case only; what such a
	// complementor makes of the other case is left open, but its method and its table must agree
	AgreeOnly bool `json:"agree_only,omitempty"`
}

type builtin struct {
	name   string
	a      alphabet.Alphabet
	def    string
	s, c   string
	fourNt bool
}

var builtins = []builtin{
	{"DNA", alphabet.DNA, "acgt", "acgtnxACGTNX-", "tgcanxTGCANX-", true},
	{"DNAgapped", alphabet.DNAgapped, "-acgt", "acgtnxACGTNX-", "tgcanxTGCANX-", false},
	{"DNAredundant", alphabet.DNAredundant, "-acmgrsvtwyhkdbn", "acmgrsvtwyhkdbnxACMGRSVTWYHKDBNX-", "tgkcysbawrdmhvnxTGKCYSBAWRDMHVNX-", false},
	{"RNA", alphabet.RNA, "acgu", "acgunxACGUNX-", "ugcanxUGCANX-", true},
	{"RNAgapped", alphabet.RNAgapped, "-acgu", "acgunxACGUNX-", "ugcanxUGCANX-", false},
	{"RNAredundant", alphabet.RNAredundant, "-acmgrsvuwyhkdbn", "acmgrsvuwyhkdbnxACMGRSVUWYHKDBNX-", "ugkcysbawrdmhvnxUGKCYSBAWRDMHVNX-", false},
	{"Protein", alphabet.Protein, "-abcdefghijklmnpqrstvwxyz*", "", "", false},
}

func lower(b byte) byte {
	if b >= 'A' && b <= 'Z' {
		return b + 32
	}
	return b
}
func isUpper(b byte) bool { return b >= 'A' && b <= 'Z' }
func isLower(b byte) bool { return b >= 'a' && b <= 'z' }

// refIndex is the reference: index of l in def (-1 if absent), case folded unless cased.
func refIndex(def string, cased bool, l byte) int {
	for i := 0; i < len(def); i++ {
		if def[i] == l || (!cased && lower(def[i]) == lower(l)) {
			return i
		}
	}
	return -1
}

// alphabetLaws checks validity, IndexOf/Letter and AllValid for one alphabet against its definition.
func alphabetLaws(c *enum.Ctx, k kase, a alphabet.Alphabet, def string, cased bool, tag string) {
	fail := func(class, f string, x ...interface{}) { c.Fail(tag+"/"+class, k, "%s", fmt.Sprintf(f, x...)) }
	if a.Len() != len(def) {
		fail("Len", "Len() = %d, definition %q has %d letters", a.Len(), def, len(def))
	}
	for l := 0; l < 256; l++ {
		want := refIndex(def, cased, byte(l))
		if got := a.IsValid(alphabet.Letter(l)); got != (want >= 0) {
			fail("IsValid", "IsValid(%q) = %v for definition %q (cased=%v)", byte(l), got, def, cased)
		}
		got := a.IndexOf(alphabet.Letter(l))
		if want < 0 && got >= 0 {
			fail("IndexOf/invalid-nonnegative", "IndexOf(%q) = %d for a letter outside %q", byte(l), got, def)
		}
		if want >= 0 && got != want {
			fail("IndexOf", "IndexOf(%q) = %d, want %d in %q", byte(l), got, want, def)
		}
		if want >= 0 && got >= 0 && got < a.Len() {
			if back := byte(a.Letter(got)); back != byte(l) && (cased || lower(back) != lower(byte(l))) {
				fail("Letter", "Letter(IndexOf(%q)) = %q", byte(l), back)
			}
		}
		if v := a.ValidLetters(); len(v) == 256 && v[l] != (want >= 0) {
			fail("ValidLetters", "ValidLetters()[%d] = %v", l, v[l])
		}
		if ix := a.LetterIndex(); ix != nil && want >= 0 && ix[l] != want {
			fail("LetterIndex", "LetterIndex()[%q] = %d, want %d", byte(l), ix[l], want)
		} else if ix != nil && want < 0 && ix[l] >= 0 {
			fail("LetterIndex", "LetterIndex()[%q] = %d for an invalid letter", byte(l), ix[l])
		}
	}
	for i := 0; i < a.Len() && i < len(def); i++ {
		var l alphabet.Letter
		if c.Guard(tag+"/Letter/panic", k, func() { l = a.Letter(i) }) {
			continue
		}
		if got := a.IndexOf(l); got != i {
			fail("IndexOf(Letter)", "IndexOf(Letter(%d)=%q) = %d in %q", i, byte(l), got, def)
		}
	}
}

func allValid(c *enum.Ctx, k kase, a alphabet.Alphabet, def string, cased bool, tag string) {
	want := -1
	for i, l := range k.Letters {
		if refIndex(def, cased, l) < 0 {
			want = i
			break
		}
	}
	ls := make([]alphabet.Letter, len(k.Letters))
	qs := make([]alphabet.QLetter, len(k.Letters))
	for i, l := range k.Letters {
		ls[i] = alphabet.Letter(l)
		qs[i] = alphabet.QLetter{L: alphabet.Letter(l), Q: 7}
	}
	var ok bool
	var pos int
	if c.Guard(tag+"/AllValid/panic", k, func() {
		ok, pos = a.AllValid(ls)
		if len(ls) == 0 {
			a.AllValid(nil) // a nil slice is an empty slice
			a.AllValidQLetter(nil)
		}
	}) {
		return
	}
	if ok != (want < 0) || (want >= 0 && pos != want) || (want < 0 && pos >= 0) {
		c.Fail(tag+"/AllValid", k, "AllValid(%q) = (%v,%d), first invalid position is %d (definition %q)", k.Letters, ok, pos, want, def)
	}
	if c.Guard(tag+"/AllValidQLetter/panic", k, func() { ok, pos = a.AllValidQLetter(qs) }) {
		return
	}
	if ok != (want < 0) || (want >= 0 && pos != want) || (want < 0 && pos >= 0) {
		c.Fail(tag+"/AllValidQLetter", k, "AllValidQLetter(%q) = (%v,%d), first invalid position is %d", k.Letters, ok, pos, want)
	}
}

// complementLaws: involution, case preservation, valid->valid, method = table, high bit <=> unpaired.
func complementLaws(c *enum.Ctx, k kase, a alphabet.Complementor, s, cs string, fourNt bool, tag string) {
	fail := func(class, f string, x ...interface{}) { c.Fail(tag+"/"+class, k, "%s", fmt.Sprintf(f, x...)) }
	ref := map[byte]byte{}
	for i := 0; i < len(s); i++ {
		ref[s[i]] = cs[i]
	}
	tab := a.ComplementTable()
	// the table is kept while the tables of alphabets with other pairings are asked for
	alphabet.RNA.ComplementTable()
	alphabet.DNAredundant.ComplementTable()
	if len(tab) != 256 {
		fail("table-len", "ComplementTable has %d entries", len(tab))
		return
	}
	for l := 0; l < 256; l++ {
		got, ok := a.Complement(alphabet.Letter(l))
		want, paired := ref[byte(l)]
		if ok != paired {
			fail("Complement/ok", "Complement(%q) ok=%v but the pairing definition pairs=%v", byte(l), ok, paired)
			continue
		}
		if paired && byte(got) != want {
			fail("Complement/value", "Complement(%q) = %q, want %q", byte(l), byte(got), want)
		}
		if !paired && byte(got) != byte(l) {
			fail("Complement/unpaired-changed", "Complement(%q) = %q for an unpaired letter", byte(l), byte(got))
		}
		if (tab[l]&0x80 != 0) != !ok {
			fail("table/high-bit", "table[%q]=%#x but method ok=%v", byte(l), byte(tab[l]), ok)
		}
		if ok && tab[l] != got {
			fail("table/value", "table[%q]=%q, method %q", byte(l), byte(tab[l]), byte(got))
		}
		if !a.IsValid(alphabet.Letter(l)) {
			continue
		}
		// laws on valid letters
		if !ok {
			fail("valid-unpaired", "valid letter %q has no complement", byte(l))
			continue
		}
		if !a.IsValid(got) {
			fail("valid-to-invalid", "Complement(%q) = %q is not a valid letter", byte(l), byte(got))
		}
		if back, _ := a.Complement(got); byte(back) != byte(l) {
			fail("involution", "Complement(Complement(%q)) = %q", byte(l), byte(back))
		}
		if isUpper(byte(l)) != isUpper(byte(got)) || isLower(byte(l)) != isLower(byte(got)) {
			fail("case", "Complement(%q) = %q changes case", byte(l), byte(got))
		}
		if fourNt {
			if i, j := a.IndexOf(alphabet.Letter(l)), a.IndexOf(got); j != 3-i {
				fail("index-complement", "IndexOf(%q)=%d but IndexOf(complement %q)=%d, want %d", byte(l), i, byte(got), j, 3-i)
			}
		}
	}
}

// pairingValid is the reference for NewPairing: ASCII, equal length, and the
// definition is an involution closed over its own letters.
func pairingValid(s, cs string) bool {
	if len(s) != len(cs) {
		return false
	}
	for i := 0; i < len(s); i++ {
		if s[i] > 127 || cs[i] > 127 {
			return false
		}
	}
	f := map[byte]byte{}
	for i := 0; i < len(s); i++ {
		if v, ok := f[s[i]]; ok && v != cs[i] {
			return false
		}
		f[s[i]] = cs[i]
	}
	for a, b := range f {
		if back, ok := f[b]; !ok || back != a {
			return false
		}
	}
	return true
}

func contradictory(s, cs string) bool {
	if len(s) != len(cs) {
		return false
	}
	f := map[byte]byte{}
	for i := 0; i < len(s); i++ {
		if v, ok := f[s[i]]; ok && v != cs[i] {
			return true
		}
		f[s[i]] = cs[i]
	}
	return false
}

func check(c *enum.Ctx, k kase) bool {
	switch k.Kind {
	case "builtin":
		for _, b := range builtins {
			if b.name != k.Name {
				continue
			}
			if b.a.IsCased() {
				c.Fail("builtin/"+b.name+"/cased", k, "built-in alphabet reports IsCased")
			}
			if k.Used {
				// the alphabet has been at work first: sequences over it that hold every byte value (paired,
				// unpaired and invalid letters alike) are reverse-complemented and validated
				c.Guard("builtin/"+b.name+"/use-panic", k, func() {
					all := make([]alphabet.Letter, 256)
					qall := make([]alphabet.QLetter, 256)
					for i := range all {
						all[i] = alphabet.Letter(i)
						qall[i] = alphabet.QLetter{L: alphabet.Letter(i), Q: 20}
					}
					if _, ok := b.a.(alphabet.Complementor); ok {
						linear.NewSeq("u", all, b.a).RevComp()
						linear.NewQSeq("u", qall, b.a, alphabet.Sanger).RevComp()
					}
					linear.NewSeq("u", all, b.a).Validate()
				})
			}
			alphabetLaws(c, k, b.a, b.def, false, "builtin/"+b.name)
			if cm, ok := b.a.(alphabet.Complementor); ok && b.s != "" {
				complementLaws(c, k, cm, b.s, b.c, b.fourNt, "builtin/"+b.name)
			} else if b.s != "" {
				c.Fail("builtin/"+b.name+"/not-complementor", k, "nucleotide alphabet is not a Complementor")
			}
		}
		return true
	case "builtin-allvalid":
		for _, b := range builtins {
			if b.name == k.Name {
				allValid(c, k, b.a, b.def, false, "builtin/"+b.name)
			}
		}
		return true
	case "new-alphabet":
		var a alphabet.Alphabet
		var err error
		gap := alphabet.Letter('-')
		if k.Gap != 0 {
			gap = alphabet.Letter(k.Gap)
		}
		if k.Prev != "" {
			alphabet.NewAlphabet(k.Prev, feat.DNA, gap, 'n', !k.Cased)
		}
		if c.Guard("NewAlphabet/panic", k, func() { a, err = alphabet.NewAlphabet(k.Def, feat.DNA, gap, 'n', k.Cased) }) {
			return true
		}
		ascii := true
		for _, r := range k.Def {
			if r > 127 {
				ascii = false
			}
		}
		if !ascii {
			if err == nil {
				c.Fail("NewAlphabet/non-ascii-accepted", k, "NewAlphabet(%q) accepted a non-ASCII definition", k.Def)
			}
			return true
		}
		if err != nil {
			c.Fail("NewAlphabet/valid-rejected", k, "NewAlphabet(%q) = %v", k.Def, err)
			return true
		}
		if a.IsCased() != k.Cased {
			c.Fail("NewAlphabet/IsCased", k, "IsCased() = %v", a.IsCased())
		}
		alphabetLaws(c, k, a, k.Def, k.Cased, "generated")
		if len(k.Letters) > 0 {
			allValid(c, k, a, k.Def, k.Cased, "generated")
		}
		return true
	case "new-pairing":
		var p *alphabet.Pairing
		var err error
		if c.Guard("NewPairing/panic", k, func() { p, err = alphabet.NewPairing(k.S, k.C) }) {
			return true
		}
		valid := pairingValid(k.S, k.C)
		if contradictory(k.S, k.C) {
			// the same letter paired with two different partners: the package lets the last
			// pair win (as NewAlphabet documents for repeated letters); whether that is
			// "non-bijective" is a matter of reading, so neither outcome is demanded
			return false
		}
		if !valid && err == nil {
			c.Fail("NewPairing/invalid-accepted", k, "NewPairing(%q,%q) accepted a mismatched, non-ASCII or non-bijective definition", k.S, k.C)
		}
		if valid && err != nil {
			c.Fail("NewPairing/valid-rejected", k, "NewPairing(%q,%q) = %v", k.S, k.C, err)
		}
		if valid && err == nil && k.Def != "" && k.AgreeOnly {
			cm, err := alphabet.NewComplementor(k.Def, feat.DNA, p, '-', 'n', false)
			if err != nil {
				return false // whether a one-case pairing closes a case-insensitive alphabet is left open
			}
			tab := cm.ComplementTable()
			for l := 0; l < 256 && len(tab) == 256; l++ {
				got, ok := cm.Complement(alphabet.Letter(l))
				if (tab[l]&0x80 != 0) != !ok || (ok && tab[l] != got) {
					c.Fail("complementor/one-case-pairing/method-vs-table", k, "Complement(%q) = (%q,%v) but table[%q] = %#x", byte(l), byte(got), ok, byte(l), byte(tab[l]))
				}
			}
			return true
		}
		if valid && err == nil && k.Def != "" {
			// complementor over an alphabet the pairing is closed over
			if k.Reused {
				// the same Pairing value served another complementor before (what that one makes of
				// lower-case-only pairs is not judged here; the Pairing must come out of it unchanged)
				alphabet.NewComplementor(k.Def, feat.DNA, p, '-', 'n', !k.Cased)
			}
			cm, err := alphabet.NewComplementor(k.Def, feat.DNA, p, '-', 'n', k.Cased)
			if err != nil {
				c.Fail("NewComplementor/closed-pairing-rejected", k, "NewComplementor(%q, pairing %q/%q) = %v", k.Def, k.S, k.C, err)
				return true
			}
			alphabetLaws(c, k, cm, k.Def, k.Cased, "complementor")
			complementLaws(c, k, cm, k.S, k.C, false, "complementor")
		}
		return valid
	}
	panic("unknown kind")
}

func run(c *enum.Ctx) {
	c.Rule("complete: 7 built-in alphabets x all 256 letters (validity, index, letter, complement method/table; the table kept while other alphabets' tables are asked for; again after sequences holding every byte value were reverse-complemented over the alphabet) and every letter slice of length <=3 over {valid lower, valid upper, invalid, 0xFF} and every slice of length 4..19, 63..66, 258, 259 and 2^k-1, 2^k, 2^k+1 (also 3*2^k, 10^j-1, 10^j, 10^j+1, 5*10^j) (127..1025) of valid letters with zero, one or two invalid letters at every position; bounded-exhaustive: every alphabet definition of length 1..4 over {a,B,c,-,*} without case-duplicates, cased and uncased, every case-sensitive definition of length 1..4 over {a,A,B,b,c} that holds a letter in both cases, and every non-letter ASCII byte 0x21..0x7f as a letter of a definition (alone, after 'a', before 'Z'), both case modes; a case-insensitive alphabet and the case-sensitive one with the same expanded letters built in turn, in either order; every pair of strings of length <=3 over {a,c,g,t} (plus mismatched lengths and a non-ASCII rune at every position) as a pairing definition, with a complementor over every alphabet it is closed over, cased and uncased, the uncased ones also spelt in upper and mixed case (also with a Pairing value that served a case-insensitive complementor first), and a case-insensitive complementor over the pairing spelt in one case only (method and table must agree on all 256 letters); distinct = distinct case descriptors; non-trivial = cases where a constructor succeeded or a built-in was queried")
	c.Assume("reference definitions of the built-in alphabets are restated in the harness from the package documentation")
	n := 0
	do := func(k kase) {
		c.Doing(0, k)
		c.Eval()
		n++
		if check(c, k) {
			c.Nontrivial(enum.J(k))
		}
		if n%997 == 0 {
			c.Sample(k)
		}
	}
	for _, b := range builtins {
		do(kase{Kind: "builtin", Name: b.name})
		do(kase{Kind: "builtin", Name: b.name, Used: true})
		pool := []byte{b.def[len(b.def)-1], b.def[1], strings.ToUpper(b.def)[1], 'j', '!', 0xFF}
		enum.Strings(string([]byte{0, 1, 2, 3, 4, 5}), 0, 3, func(ix []byte) {
			ls := make([]byte, len(ix))
			for i, x := range ix {
				ls[i] = pool[x]
			}
			do(kase{Kind: "builtin-allvalid", Name: b.name, Letters: ls})
		})
		// longer slices (block-wise scans): every length 4..19 (and 63..66) of valid letters with no, one
		// or two invalid letters at every position
		var lens []int
		for n := 4; n <= 19; n++ {
			lens = append(lens, n)
		}
		lens = append(lens, 63, 64, 65, 66)
		lens = append(lens, enum.Ladder(127, 1025)...) // the size ladder (block-wise scans with a tail)
		lens = append(lens, 258, 259)
		for _, n := range lens {
			base := make([]byte, n)
			for i := range base {
				base[i] = b.def[(i*3+i/5)%len(b.def)]
			}
			do(kase{Kind: "builtin-allvalid", Name: b.name, Letters: append([]byte{}, base...)})
			for i := 0; i < n; i++ {
				for j := i; j < n; j++ {
					if n > 19 && j != i && j != n-1 {
						continue
					}
					ls := append([]byte{}, base...)
					ls[i], ls[j] = '!', 0xFF
					do(kase{Kind: "builtin-allvalid", Name: b.name, Letters: ls})
				}
			}
		}
	}
	defAlpha, defMax, wordMax := "aBc-*", 4, 3
	if !c.Quick {
		defAlpha, defMax, wordMax = "aBc-*N", 5, 4
	}
	enum.Strings(defAlpha, 1, defMax, func(d []byte) {
		seen := map[byte]bool{}
		for _, l := range d {
			if seen[lower(l)] {
				return
			}
			seen[lower(l)] = true
		}
		for _, cased := range []bool{false, true} {
			do(kase{Kind: "new-alphabet", Def: string(d), Cased: cased})
			for _, ls := range [][]byte{{d[0]}, {'b', d[0]}, {d[0], 'A', 'z'}, {'B', 'b'}, {d[len(d)-1], 0xFF}} {
				do(kase{Kind: "new-alphabet", Def: string(d), Cased: cased, Letters: ls})
			}
		}
	})
	// every other ASCII byte as a letter of a definition (punctuation above 'z' and below 'A', digits, DEL),
	// alone and next to an ordinary letter, case-insensitive and case-sensitive
	for b := 0x21; b <= 0x7f; b++ {
		if isUpper(byte(b)) || isLower(byte(b)) {
			continue
		}
		for _, d := range []string{string([]byte{byte(b)}), string([]byte{'a', byte(b)}), string([]byte{byte(b), 'Z'})} {
			for _, cased := range []bool{false, true} {
				do(kase{Kind: "new-alphabet", Def: d, Cased: cased, Gap: byte(0x20)})
			}
		}
	}
	// case-sensitive alphabets that hold a letter in both cases (distinct letters there): every
	// definition of length 1..4 over {a,A,B,b,c} of distinct bytes
	enum.Strings("aABbc", 1, defMax, func(d []byte) {
		seen, both := map[byte]bool{}, false
		for _, l := range d {
			if seen[l] {
				return
			}
			both = both || seen[l^0x20]
			seen[l] = true
		}
		if !both {
			return
		}
		do(kase{Kind: "new-alphabet", Def: string(d), Cased: true})
		do(kase{Kind: "new-alphabet", Def: string(d), Cased: true, Letters: []byte{d[0], d[0] ^ 0x20, 'C', d[len(d)-1]}})
	})
	// two alphabets used in turn whose letters are the same once case is expanded: case-insensitive D
	// and case-sensitive lower(D)+upper(D), in either order of construction (the second order with
	// another gap letter, so that neither has been built before in this process)
	for _, d := range []string{"a", "ac", "acg", "acgt", "tgca"} {
		full := d + strings.ToUpper(d)
		for _, ls := range [][]byte{nil, {d[0], full[len(full)-1], 'n'}} {
			do(kase{Kind: "new-alphabet", Def: full, Cased: true, Prev: d, Letters: ls})
			do(kase{Kind: "new-alphabet", Def: d, Cased: false, Prev: full, Gap: '*', Letters: ls})
			do(kase{Kind: "new-alphabet", Def: full, Cased: true, Gap: '*', Letters: ls})
		}
	}
	for pos := 0; pos <= 2; pos++ {
		d := []rune("ac")
		nd := append(append(append([]rune{}, d[:pos]...), 'é'), d[pos:]...)
		do(kase{Kind: "new-alphabet", Def: string(nd)})
		do(kase{Kind: "new-alphabet", Def: string(nd), Cased: true})
	}
	var words []string
	enum.Strings("acgt", 0, wordMax, func(s []byte) { words = append(words, string(s)) })
	for _, s := range words {
		for _, cs := range words {
			if len(s) != len(cs) {
				if len(s) <= 2 && len(cs) <= 2 {
					do(kase{Kind: "new-pairing", S: s, C: cs})
				}
				continue
			}
			do(kase{Kind: "new-pairing", S: s, C: cs})
			if pairingValid(s, cs) && len(s) > 0 {
				// alphabets the pairing is closed over: the set of paired letters, in definition order, both casings
				def := ""
				for i := 0; i < len(s); i++ {
					if !strings.Contains(def, string(s[i])) {
						def += string(s[i])
					}
				}
				do(kase{Kind: "new-pairing", S: s, C: cs, Def: def, Cased: true})
				do(kase{Kind: "new-pairing", S: s, C: cs, Def: def, Cased: true, Reused: true})
				do(kase{Kind: "new-pairing", S: s, C: cs, Def: def, AgreeOnly: true})
				do(kase{Kind: "new-pairing", S: strings.ToUpper(s), C: strings.ToUpper(cs), Def: def, AgreeOnly: true})
				up := strings.ToUpper(s)
				upc := strings.ToUpper(cs)
				do(kase{Kind: "new-pairing", S: s + up, C: cs + upc, Def: def, Cased: false})
				// a case-insensitive alphabet may be spelt in upper or mixed case
				mixed := []byte(def)
				for i := range mixed {
					if i%2 == 1 {
						mixed[i] = byte(unicode.ToUpper(rune(mixed[i])))
					}
				}
				do(kase{Kind: "new-pairing", S: s + up, C: cs + upc, Def: strings.ToUpper(def), Cased: false})
				do(kase{Kind: "new-pairing", S: s + up, C: cs + upc, Def: string(mixed), Cased: false})
			}
			// a non-ASCII rune at every position of either string
			for p := 0; p < len(s); p++ {
				do(kase{Kind: "new-pairing", S: s[:p] + "é" + s[p+1:], C: cs})
				do(kase{Kind: "new-pairing", S: s, C: cs[:p] + "é" + cs[p+1:]})
				// the same with equal byte lengths, and with the rune in both strings
				do(kase{Kind: "new-pairing", S: s[:p] + "é" + s[p+1:], C: cs + "a"})
				do(kase{Kind: "new-pairing", S: s + "a", C: cs[:p] + "é" + cs[p+1:]})
				do(kase{Kind: "new-pairing", S: s[:p] + "é" + s[p+1:], C: cs[:p] + "é" + cs[p+1:]})
			}
		}
	}
}

func main() {
	enum.Main("C17", "exploration", run, func(c *enum.Ctx, in json.RawMessage) {
		var k kase
		if err := json.Unmarshal(in, &k); err != nil {
			panic(err)
		}
		fmt.Printf("case %+v\n", k)
		check(c, k)
	})
}
