// C19: workers deliver each result once and stop cleanly; promises settle once.
// Every interleaving of small closed drivers over the real (overlay-instrumented)
// package concurrent, explored by the controlled scheduler.
package main

import (
	"encoding/json"
	"errors"
	"fmt"
	"os"
	"sort"
	"strings"
	"time"

	"github.com/biogo/biogo/concurrent"
	"github.com/biogo/biogo/verifrt/vrt"
	"verif/h/conc"
	"verif/h/enum"
)

type opv struct {
	v   int
	err error
}

func (o opv) Operation() (interface{}, error) {
	if o.err == errBoom {
		panic("boom") // the Processor turns a panicking operation into that operation's error result
	}
	return o.v, o.err
}

var errBoom = errors.New("the operation panics")

var errOp = errors.New("operation failed")

func bad(r *vrt.Result) (string, string) {
	switch {
	case len(r.Panics) > 0:
		return "panic", strings.Join(r.Panics, "; ")
	case len(r.Races) > 0:
		return "race", strings.Join(r.Races, "; ")
	case r.Outcome == "deadlock":
		return "deadlock", strings.Join(r.Blocked, "; ")
	case r.Outcome == "horizon":
		// complete executions of these drivers take fewer than a hundred scheduling steps
		return "livelock", fmt.Sprintf("the execution does not end within the step horizon (%d scheduling steps): the calls never return", len(r.Trace))
	}
	return "", ""
}

// processor driver: w workers, queue capacity c, result buffer b, n operations
// (the k-th operation fails when errAt == k).
func processor(w, c, b, n, errAt int) func() vrt.Run { return processorP(w, c, b, n, errAt, -1) }

// processorP: additionally the panicAt-th operation panics.
func processorP(w, c, b, n, errAt, panicAt int) func() vrt.Run {
	return processorX(w, c, b, n, errAt, panicAt, false)
}

// processorX: with waits, Wait has three callers - the submitting goroutine after Close, and the
// collecting goroutine twice in a row (Wait may be called by anybody, any number of times).
func processorX(w, c, b, n, errAt, panicAt int, waits bool) func() vrt.Run {
	return func() vrt.Run {
		var got []string
		var extra string
		working := 0
		batchKept := true
		return vrt.Run{Body: func() {
			queue := make(chan concurrent.Operator, c)
			p := concurrent.NewProcessor(queue, b, w)
			sub := vrt.Go(func() {
				// the operations are submitted as one batch; the batch is the caller's and stays as it was
				var batch []concurrent.Operator
				for i := 0; i < n; i++ {
					var e error
					if i == errAt {
						e = errOp
					}
					if i == panicAt {
						e = errBoom
					}
					batch = append(batch, opv{i + 1, e})
				}
				p.Process(batch...)
				for i, o := range batch {
					if v, ok := o.(opv); !ok || v.v != i+1 {
						batchKept = false
					}
				}
				p.Close()
				if waits {
					p.Wait()
				}
			})
			for i := 0; i < n; i++ {
				v, e := p.Result()
				got = append(got, fmt.Sprint(v, e))
			}
			p.Wait()
			working = p.Working() // Wait has returned: no worker is still at work
			if waits {
				p.Wait()
			}
			v, e := p.Result() // the result channel must be closed by now
			extra = fmt.Sprint(v, e)
			vrt.Join(sub)
		}, Verdict: func(r *vrt.Result) (string, string, string) {
			sig := strings.Join(got, ",") + "|" + extra // arrival order is part of the observable outcome
			sort.Strings(got)
			if cl, msg := bad(r); cl != "" {
				return "processor/" + cl, msg, sig
			}
			if r.Outcome == "leak" {
				return "processor/workers-not-stopped", strings.Join(r.Blocked, "; "), sig
			}
			var want []string
			for i := 0; i < n; i++ {
				var e error
				if i == errAt {
					e = errOp
				}
				if i == panicAt {
					want = append(want, fmt.Sprint(nil, fmt.Errorf("concurrent: processor panic: %v", "boom")))
					continue
				}
				want = append(want, fmt.Sprint(i+1, e))
			}
			sort.Strings(want)
			if strings.Join(want, ",") != strings.Join(got, ",") {
				return "processor/results", fmt.Sprintf("results %v, want %v", got, want), sig
			}
			if extra != "<nil> <nil>" {
				return "processor/not-closed", "receive after Wait returned " + extra + ", want closed channel", sig
			}
			if working != 0 {
				return "processor/wait-returned-early", fmt.Sprintf("Wait returned while Working() = %d", working), sig
			}
			if !batchKept {
				return "processor/batch-modified", "Process changed the slice of operations it was given", sig
			}
			return "", "", sig
		}}
	}
}

type ints []int

func (s ints) Operation() (interface{}, error)  { return []int(s), nil }
func (s ints) Slice(i, j int) concurrent.Mapper { return s[i:j] }
func (s ints) Len() int                         { return len(s) }

func mapper(size, threads, maxChunk int) func() vrt.Run {
	return mapDriver(size, threads, maxChunk, false)
}

// mapDriver: Map called directly, or through PromiseMap and one Wait on its promise.
func mapDriver(size, threads, maxChunk int, viaPromise bool) func() vrt.Run {
	return func() vrt.Run {
		var res []interface{}
		var err error
		return vrt.Run{Body: func() {
			set := make(ints, size)
			for i := range set {
				set[i] = i
			}
			if viaPromise {
				w := concurrent.PromiseMap(set, threads, maxChunk).Wait()
				vrt.Recv(w) // the listener's receive is a step of its own: other listeners may call Wait in between, and a channel nobody fills is a deadlock, not a hang
				r := <-w
				res, _ = r.Value.([]interface{})
				err = r.Err
				return
			}
			res, err = concurrent.Map(set, threads, maxChunk)
		}, Verdict: func(r *vrt.Result) (string, string, string) {
			var chunks []string
			var all []int
			for _, v := range res {
				c, _ := v.([]int)
				chunks = append(chunks, fmt.Sprint(c))
				all = append(all, c...)
			}
			sort.Strings(chunks)
			sig := strings.Join(chunks, "") + fmt.Sprint(err)
			if cl, msg := bad(r); cl != "" {
				return "map/" + cl, msg, sig
			}
			if err != nil {
				return "map/error", err.Error(), sig
			}
			// one result per chunk, chunks partition the input
			if size > 0 {
				cs := (size + threads - 1) / threads
				if maxChunk < cs {
					cs = maxChunk
				}
				if want := (size + cs - 1) / cs; len(res) != want {
					return "map/chunk-count", fmt.Sprintf("%d results, want %d", len(res), want), sig
				}
			} else if len(res) != 0 {
				return "map/chunk-count", fmt.Sprintf("%d results for an empty set", len(res)), sig
			}
			sort.Ints(all)
			for i, v := range all {
				if v != i {
					return "map/partition", fmt.Sprintf("chunks %v do not partition 0..%d", chunks, size-1), sig
				}
			}
			if len(all) != size {
				return "map/partition", fmt.Sprintf("chunks %v do not partition 0..%d", chunks, size-1), sig
			}
			return "", "", sig
		}}
	}
}

// mapPair: two goroutines call Map at the same time, each on a set of its own (whatever Map and the
// helpers it calls keep outside their own frames is then used by both).
func mapPair(size, threads, maxChunk int) func() vrt.Run {
	return func() vrt.Run {
		var res [2][]interface{}
		var errs [2]error
		return vrt.Run{Body: func() {
			var hs []vrt.Handle
			for g := 0; g < 2; g++ {
				g := g
				hs = append(hs, vrt.Go(func() {
					set := make(ints, size+g)
					for i := range set {
						set[i] = i
					}
					res[g], errs[g] = concurrent.Map(set, threads, maxChunk)
				}))
			}
			for _, h := range hs {
				vrt.Join(h)
			}
		}, Verdict: func(r *vrt.Result) (string, string, string) {
			sig := ""
			msg := ""
			for g := 0; g < 2; g++ {
				var chunks []string
				var all []int
				for _, v := range res[g] {
					c, _ := v.([]int)
					chunks = append(chunks, fmt.Sprint(c))
					all = append(all, c...)
				}
				sort.Strings(chunks)
				sig += strings.Join(chunks, "") + fmt.Sprint(errs[g]) + "|"
				sort.Ints(all)
				ok := len(all) == size+g && errs[g] == nil
				for i, v := range all {
					ok = ok && v == i
				}
				if !ok && msg == "" {
					msg = fmt.Sprintf("Map call %d of two concurrent ones: chunks %v (error %v) do not partition 0..%d", g, chunks, errs[g], size+g-1)
				}
			}
			if cl, m := bad(r); cl != "" {
				return "map/" + cl, m, sig
			}
			if msg != "" {
				return "map/partition", msg, sig
			}
			return "", "", sig
		}}
	}
}

// promise driver: pre operations run by the main thread first, then the
// concurrent operations each in its own thread.  Operations: "F<v>" Fulfill(v),
// "X<v>" Fail(v, err), "N" Fulfill(nil), "W" Wait.  (N is never combined with X: Fail looks at the content
// of the mailbox, and whether it may follow a fulfilment with nil is not something the statement says.)
func promise(pre []string, par []string) func() vrt.Run {
	return func() vrt.Run {
		all := append(append([]string{}, pre...), par...)
		out := make([]string, len(all))
		do := func(p *concurrent.Promise, i int) {
			o := all[i]
			switch o[0] {
			case 'F':
				err := p.Fulfill(int(o[1] - '0'))
				if err == nil {
					out[i] = "ok"
				} else {
					out[i] = "err"
				}
			case 'N': // a Fulfill whose value is nil: as much a fulfilment as any other
				if p.Fulfill(nil) == nil {
					out[i] = "ok"
				} else {
					out[i] = "err"
				}
			case 'X':
				if p.Fail(int(o[1]-'0'), errOp) {
					out[i] = "ok"
				} else {
					out[i] = "err"
				}
			case 'W':
				w := p.Wait()
				vrt.Recv(w) // the listener's receive is a step of its own: other listeners may call Wait in between, and a channel nobody fills is a deadlock, not a hang
				r := <-w
				out[i] = fmt.Sprint(r.Value, r.Err)
			}
		}
		return vrt.Run{Body: func() {
			p := concurrent.NewPromise(false, false, false)
			for i := range pre {
				do(p, i)
			}
			var hs []vrt.Handle
			for i := range par {
				i := i + len(pre)
				hs = append(hs, vrt.Go(func() { do(p, i) }))
			}
			for _, h := range hs {
				vrt.Join(h)
			}
		}, Verdict: func(r *vrt.Result) (string, string, string) {
			sig := strings.Join(out, ",")
			if cl, msg := bad(r); cl != "" {
				return "promise/" + cl, msg + " results=" + sig, sig
			}
			if r.Outcome == "leak" {
				return "promise/blocked-forever", strings.Join(r.Blocked, "; "), sig
			}
			// exactly one mutator wins; with a pre-settled promise the first wins
			winner := -1
			for i, o := range all {
				if o[0] != 'W' && out[i] == "ok" {
					if winner >= 0 {
						return "promise/settled-twice", fmt.Sprintf("%s and %s both succeeded (results %s)", all[winner], o, sig), sig
					}
					winner = i
				}
			}
			if winner < 0 {
				return "promise/never-settled", "no Fulfill/Fail succeeded: " + sig, sig
			}
			for i := range pre {
				if all[i][0] != 'W' && winner != i {
					return "promise/overwritten", fmt.Sprintf("%s completed first but %s succeeded later", all[i], all[winner]), sig
				}
				if all[i][0] != 'W' {
					break
				}
			}
			var want string
			if all[winner][0] == 'N' {
				want = fmt.Sprint(nil, error(nil))
			} else if want = fmt.Sprint(int(all[winner][1]-'0'), error(nil)); all[winner][0] == 'X' {
				want = fmt.Sprint(int(all[winner][1]-'0'), errOp)
			}
			for i, o := range all {
				if o[0] == 'W' && out[i] != want {
					return "promise/wait-value", fmt.Sprintf("Wait returned %s, want %s (winner %s; results %s)", out[i], want, all[winner], sig), sig
				}
			}
			return "", "", sig
		}}
	}
}

func drivers(quick bool) []conc.Driver {
	budget := 90 * time.Second
	if !quick {
		budget = 10 * time.Minute
	}
	// Symmetry: the workers NewProcessor starts are interchangeable (the instrumenter shows that their
	// closure captures nothing that differs between iterations); states that differ by a permutation of
	// them are visited once
	cfg := vrt.Config{PreemptBound: -1, Budget: budget, Symmetry: true}
	var ds []conc.Driver
	add := func(name string, mk func() vrt.Run) {
		ds = append(ds, conc.Driver{Name: name, Cfg: cfg, Mk: mk, Fallback: []int{0, 1, 2, 3, 4, 5, 6}})
	}
	type pc struct{ w, c, b, n, e int }
	pcs := []pc{{2, 2, 2, 0, -1}, {2, 2, 2, 1, -1}, {1, 0, 0, 2, -1}, {2, 1, 0, 3, 1}, {2, 0, 1, 2, 0}, {3, 1, 1, 0, -1}}
	if !quick {
		pcs = append(pcs, pc{2, 2, 2, 2, -1}, pc{3, 1, 1, 1, -1}, pc{3, 3, 3, 3, -1}, pc{4, 0, 0, 0, -1}, pc{4, 0, 0, 2, -1}, pc{3, 0, 1, 4, 0})
	}
	for _, p := range pcs {
		add(fmt.Sprintf("processor-w%d-c%d-b%d-n%d-e%d", p.w, p.c, p.b, p.n, p.e), processor(p.w, p.c, p.b, p.n, p.e))
	}
	// an operation that panics: its result carries the error the Processor makes of the panic, every other
	// operation its own; the worker that ran it is gone afterwards, the others go on
	add("processor-w1-c1-b1-n1-panic0", processorP(1, 1, 1, 1, -1, 0))
	add("processor-w2-c2-b2-n2-panic1", processorP(2, 2, 2, 2, -1, 1))
	add("processor-w2-c0-b0-n2-panic0", processorP(2, 0, 0, 2, -1, 0))
	// Wait called by two goroutines, and twice in a row by one of them
	add("processor-w1-c1-b1-n1-waits3", processorX(1, 1, 1, 1, -1, -1, true))
	add("processor-w2-c0-b1-n2-waits3", processorX(2, 0, 1, 2, -1, -1, true))
	if quick {
		add("map-s1-t3-c1", mapper(1, 3, 1)) // fewer elements than half the threads (thorough has every t3 driver)
	}
	sizes, threads, chunks := []int{0, 1, 3}, []int{1, 2}, []int{1, 2, 4}
	if !quick {
		sizes, threads, chunks = []int{0, 1, 3, 4}, []int{1, 2, 3}, []int{1, 2, 4}
	}
	for _, s := range sizes {
		for _, t := range threads {
			for _, c := range chunks {
				if s == 0 && (t > 1 || c > 1) {
					continue
				}
				add(fmt.Sprintf("map-s%d-t%d-c%d", s, t, c), mapper(s, t, c))
			}
		}
	}
	// the size ladder of the chunk count: 2^k-1, 2^k, 2^k+1 (also 3*2^k, 10^j-1, 10^j, 10^j+1, 5*10^j) one-element chunks on two and three workers,
	// ONE schedule each (the canonical one) - the number of schedules of such a run is beyond enumeration;
	// what these drivers decide is only that the calls return and the chunks partition the input there
	topChunks := 513
	if !quick {
		topChunks = 2049
	}
	for _, n := range enum.Ladder(7, topChunks) {
		cfg0 := cfg
		cfg0.Canonical = true
		cfg0.Symmetry = false
		cfg0.Horizon = 1000000
		ds = append(ds, conc.Driver{Name: fmt.Sprintf("map-s%d-t%d-c1-canonical", n, 2+n%2), Cfg: cfg0, Mk: mapper(n, 2+n%2, 1)})
	}
	// two Map calls at the same time (sets of 1 and 2 elements, one worker each)
	add("map-pair-s1-t1-c1", mapPair(1, 1, 1))
	// chunks of more than one element: every set size 5..64 on four workers with no limit on the chunk
	// size (chunks of 2..16, every remainder), ONE schedule each
	for n := 5; n <= 64; n++ {
		cfg0 := cfg
		cfg0.Canonical = true
		cfg0.Symmetry = false
		cfg0.Horizon = 1000000
		ds = append(ds, conc.Driver{Name: fmt.Sprintf("map-s%d-t4-c1000-canonical", n), Cfg: cfg0, Mk: mapper(n, 4, 1000)})
	}
	add("promisemap-s0-t1-c1", mapDriver(0, 1, 1, true))
	add("promisemap-s1-t2-c1", mapDriver(1, 2, 1, true))
	if !quick {
		add("promisemap-s2-t2-c1", mapDriver(2, 2, 1, true))
		add("promisemap-s3-t2-c1", mapDriver(3, 2, 1, true))
		add("promisemap-s3-t2-c2", mapDriver(3, 2, 2, true))
	}
	type pd struct{ pre, par []string }
	pds := []pd{
		{nil, []string{"F1", "F2", "W"}},
		{nil, []string{"F1", "W", "W"}},
		{nil, []string{"F1", "X2", "W"}},
		{[]string{"F1"}, []string{"F2", "W"}},
		{[]string{"F1"}, []string{"F2", "W", "W"}},
		{[]string{"X1"}, []string{"F2", "W"}},
		{nil, []string{"X1", "W"}}, // nothing but the failure wakes the waiter
		{[]string{"N"}, []string{"F2", "W"}},
		{nil, []string{"N", "F2", "W"}},
	}
	if !quick {
		pds = append(pds, pd{nil, []string{"F1", "F2", "W", "W"}}, pd{[]string{"F1"}, []string{"X2", "W", "W"}}, pd{nil, []string{"X1", "X2", "W"}})
	}
	for _, p := range pds {
		add("promise-"+strings.Join(p.pre, "")+"-then-"+strings.Join(p.par, "|"), promise(p.pre, p.par))
	}
	return ds
}

// ---- sequential promise laws (no scheduler: one goroutine, Wait only once settled)

type seqCase struct {
	Kind        string   `json:"kind"`
	Recoverable bool     `json:"recoverable"`
	Relay       bool     `json:"relay"`
	Ops         []string `json:"ops"`
}

// seqLaw runs one sequential history under the scheduler (one thread): a call that would block for
// ever is then a deadlock verdict of that history instead of a hang of the harness.
func seqLaw(c *enum.Ctx, k seqCase) {
	e := vrt.NewExplorer(vrt.Config{PreemptBound: -1, Budget: time.Minute})
	st := e.Explore(func() vrt.Run {
		var class, msg string
		fail := func(cl, f string, a ...interface{}) {
			if class == "" {
				class, msg = cl, fmt.Sprintf(f, a...)
			}
		}
		return vrt.Run{Body: func() {
			p := concurrent.NewPromise(false, k.Recoverable, k.Relay)
			winner := ""
			for i, o := range k.Ops {
				switch o[0] {
				case 'F':
					err := p.Fulfill(int(o[1] - '0'))
					if (err == nil) != (winner == "") {
						fail("promise-seq/fulfill-verdict", "step %d %s: err=%v although the promise was settled by %q", i, o, err, winner)
						return
					}
					if err == nil {
						winner = o
					}
				case 'X':
					ok := p.Fail(int(o[1]-'0'), errOp)
					if ok != (winner == "") {
						fail("promise-seq/fail-verdict", "step %d %s: ok=%v although the promise was settled by %q", i, o, ok, winner)
						return
					}
					if ok {
						winner = o
					}
				case 'W':
					if winner == "" {
						continue // would block: not part of a sequential history
					}
					w := p.Wait()
					vrt.Recv(w) // the listener's receive is a step of its own: other listeners may call Wait in between, and a channel nobody fills is a deadlock, not a hang
					r := <-w
					if r.Value != int(winner[1]-'0') {
						fail("promise-seq/value-changed", "step %d: Wait returned value %v, the promise was settled by %s", i, r.Value, winner)
						return
					}
					if winner[0] == 'X' && r.Err != errOp {
						fail("promise-seq/failure-error", "step %d: Wait returned error %v, the promise was failed with %v", i, r.Err, errOp)
						return
					}
					if winner[0] == 'F' && r.Err != nil && !k.Relay {
						fail("promise-seq/spurious-error", "step %d: Wait on a fulfilled non-relaying promise returned error %v", i, r.Err)
						return
					}
				}
			}
		}, Verdict: func(r *vrt.Result) (string, string, string) {
			if cl, m := bad(r); cl != "" {
				return "promise-seq/" + cl, "history " + strings.Join(k.Ops, " ") + ": " + m, ""
			}
			return class, msg, ""
		}}
	})
	for _, v := range st.Violations {
		c.Fail(v.Class, k, "%s", v.Msg)
	}
	if !st.Exhaustive && len(st.Violations) == 0 {
		c.NotExhaustive("sequential promise history " + strings.Join(k.Ops, " ") + ": " + st.Why)
	}
}

func seqLaws(c *enum.Ctx) {
	ops := []string{"F1", "F2", "X3", "X4", "W"}
	depth := 4
	if !c.Quick {
		depth = 6
	}
	n := 0
	for _, rec := range []bool{false, true} {
		for _, rel := range []bool{false, true} {
			idx := make([]int, 0, depth)
			var rec2 func()
			rec2 = func() {
				if len(idx) > 0 {
					k := seqCase{Kind: "promise-seq", Recoverable: rec, Relay: rel}
					for _, x := range idx {
						k.Ops = append(k.Ops, ops[x])
					}
					c.Eval()
					c.Nontrivial(enum.J(k))
					seqLaw(c, k)
					n++
				}
				if len(idx) == depth {
					return
				}
				for x := range ops {
					idx = append(idx, x)
					rec2()
					idx = idx[:len(idx)-1]
				}
			}
			rec2()
		}
	}
	c.Set("sequential_promise_histories", n)
}

func main() {
	_ = os.Args
	conc.Extra = seqLaws
	conc.ExtraReplay = func(c *enum.Ctx, in json.RawMessage) bool {
		var k seqCase
		if json.Unmarshal(in, &k) != nil || k.Kind != "promise-seq" {
			return false
		}
		fmt.Printf("sequential promise case %+v\n", k)
		seqLaw(c, k)
		return true
	}
	conc.Main("C19", "model_checking", drivers, func(c *enum.Ctx) {
		c.Rule("every interleaving (happens-before exhaustive, no preemption bound unless stated per driver) of closed drivers over the real package concurrent at the granularity of channel/mutex/waitgroup/go operations; distinct = (driver, observable outcome) pairs; non-trivial = all (every driver has >= 2 threads)")
		c.Assume("threads communicate only through operations the instrumenter sees (checked by the vector-clock race oracle on every schedule)", "GOMAXPROCS=4 so that up to 4 workers are created", "Operator implementations are pure")
	})
}
