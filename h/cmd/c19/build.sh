#!/bin/bash
exec "$(dirname "$0")/../../../tools/build_e1.sh" "$1" c19 concurrent util
