// C05: RevComp / Reverse / Clone algebra on all sequence types.
//
// Explicit-state search over operation sequences applied to real sequence
// objects; after every operation the snapshot of the object is related to the
// snapshot before it (reverse-complement relation, double application,
// untouched clones).
package main

import (
	"encoding/json"
	"fmt"
	"strings"
	"sync/atomic"
	_ "verif/h/duoc"

	"github.com/biogo/biogo/alphabet"
	"github.com/biogo/biogo/seq"
	"github.com/biogo/biogo/seq/alignment"
	"github.com/biogo/biogo/seq/linear"
	"github.com/biogo/biogo/seq/multi"
	"verif/h/enum"
	"verif/h/seqgen"
)

type rowDef struct {
	Off     int    `json:"off"`
	Letters string `json:"letters"`
}

type kase struct {
	slot  int      // worker announcing this case to the progress watchdog (not part of the case)
	Kind  string   `json:"kind"` // lseq lqseq aseq aqseq multi mqulti set
	Alpha string   `json:"alpha"`
	Rows  []rowDef `json:"rows"` // alignment: rows are equally long, offsets ignored
	Ops   []string `json:"ops"`
	// Emptied (linear kinds): the sequence held two letters and was cut back to length zero, so it is
	// empty but owns storage (what Truncate(s, s, k, k) or a reused template leaves)
	Emptied bool `json:"emptied,omitempty"`
	// Names: "" rows r0, r1, ...; "same" every row is called "read"; "none" every row has the empty name
	// (rows are told apart by their position, never by what they are called)
	Names string `json:"names,omitempty"`
}

var alphas = map[string]alphabet.Alphabet{
	"DNA": alphabet.DNA, "DNAgapped": alphabet.DNAgapped, "DNAredundant": alphabet.DNAredundant,
	"RNA": alphabet.RNA, "RNAgapped": alphabet.RNAgapped, "RNAredundant": alphabet.RNAredundant,
}

type rowSnap struct {
	Name       string
	Start, End int
	Strand     int
	Cells      []alphabet.QLetter
}

type snapshot struct {
	Start, End int
	Strand     int
	HasStrand  bool
	Rows       []rowSnap
}

func (s snapshot) String() string {
	var b strings.Builder
	fmt.Fprintf(&b, "[%d,%d) strand=%d", s.Start, s.End, s.Strand)
	for _, r := range s.Rows {
		fmt.Fprintf(&b, " | %s[%d,%d)%+d:", r.Name, r.Start, r.End, r.Strand)
		for _, c := range r.Cells {
			fmt.Fprintf(&b, "%c%d", c.L, c.Q)
		}
	}
	return b.String()
}

func lettersOf(s snapshot) string {
	var b strings.Builder
	for _, r := range s.Rows {
		for _, c := range r.Cells {
			b.WriteByte(byte(c.L))
		}
		b.WriteByte('|')
	}
	return b.String()
}

type object struct {
	kind string
	v    interface{}
}

func readRow(r seq.Sequence, withStrand bool) rowSnap {
	rs := rowSnap{Name: r.Name(), Start: r.Start(), End: r.End()}
	if withStrand {
		rs.Strand = int(r.CloneAnnotation().Strand)
	}
	for i := r.Start(); i < r.End(); i++ {
		rs.Cells = append(rs.Cells, r.At(i))
	}
	return rs
}

func snap(o object) snapshot {
	switch v := o.v.(type) {
	case *linear.Seq:
		return snapshot{Start: v.Start(), End: v.End(), Strand: int(v.Strand), HasStrand: true, Rows: []rowSnap{readRow(v, true)}}
	case *linear.QSeq:
		return snapshot{Start: v.Start(), End: v.End(), Strand: int(v.Strand), HasStrand: true, Rows: []rowSnap{readRow(v, true)}}
	case *alignment.Seq:
		s := snapshot{Start: v.Start(), End: v.End(), Strand: int(v.Strand), HasStrand: true}
		for i := 0; i < v.Rows(); i++ {
			r := v.Row(i)
			rs := rowSnap{Name: r.Name(), Start: r.Start(), End: r.End(), Strand: int(r.CloneAnnotation().Strand)}
			for p := v.Start(); p < v.End(); p++ {
				rs.Cells = append(rs.Cells, r.At(p))
			}
			s.Rows = append(s.Rows, rs)
		}
		return s
	case *alignment.QSeq:
		s := snapshot{Start: v.Start(), End: v.End(), Strand: int(v.Strand), HasStrand: true}
		for i := 0; i < v.Rows(); i++ {
			r := v.Row(i)
			rs := rowSnap{Name: r.Name(), Start: r.Start(), End: r.End(), Strand: int(r.CloneAnnotation().Strand)}
			for p := v.Start(); p < v.End(); p++ {
				rs.Cells = append(rs.Cells, r.At(p))
			}
			s.Rows = append(s.Rows, rs)
		}
		return s
	case *multi.Multi:
		s := snapshot{}
		if v.Rows() > 0 {
			s.Start, s.End = v.Start(), v.End()
		}
		for i := 0; i < v.Rows(); i++ {
			s.Rows = append(s.Rows, readRow(v.Row(i), true))
		}
		return s
	case multi.Set:
		s := snapshot{}
		for i := 0; i < v.Rows(); i++ {
			s.Rows = append(s.Rows, readRow(v.Row(i), true))
		}
		return s
	}
	panic("kind")
}

func qual(r, i int) alphabet.Qphred { return alphabet.Qphred(10 + 7*r + i) }

func build(k kase) object {
	a := alphas[k.Alpha]
	mkLin := func(r int, d rowDef, q bool) (made seq.Sequence) {
		defer func() {
			switch n, ok := made.(interface{ SetName(string) error }); {
			case ok && k.Names == "same":
				n.SetName("read")
			case ok && k.Names == "none":
				n.SetName("")
			}
		}()
		if q {
			ql := make([]alphabet.QLetter, len(d.Letters))
			for i := range ql {
				ql[i] = alphabet.QLetter{L: alphabet.Letter(d.Letters[i]), Q: qual(r, i)}
			}
			s := linear.NewQSeq(fmt.Sprint("r", r), ql, a, alphabet.Sanger)
			s.SetOffset(d.Off)
			return s
		}
		s := linear.NewSeq(fmt.Sprint("r", r), alphabet.BytesToLetters([]byte(d.Letters)), a)
		s.SetOffset(d.Off)
		return s
	}
	switch k.Kind {
	case "lseq":
		if k.Emptied {
			s := mkLin(0, rowDef{k.Rows[0].Off, "ac"}, false).(*linear.Seq)
			s.Seq = s.Seq[:0]
			return object{k.Kind, s}
		}
		return object{k.Kind, mkLin(0, k.Rows[0], false)}
	case "lqseq":
		if k.Emptied {
			s := mkLin(0, rowDef{k.Rows[0].Off, "ac"}, true).(*linear.QSeq)
			s.Seq = s.Seq[:0]
			return object{k.Kind, s}
		}
		return object{k.Kind, mkLin(0, k.Rows[0], true)}
	case "aseq", "aqseq":
		n := len(k.Rows[0].Letters)
		ids := make([]string, len(k.Rows))
		for r := range ids {
			ids[r] = fmt.Sprint("r", r)
		}
		if k.Kind == "aseq" {
			cols := make([][]alphabet.Letter, n)
			for c := range cols {
				cols[c] = make([]alphabet.Letter, len(k.Rows))
				for r := range k.Rows {
					cols[c][r] = alphabet.Letter(k.Rows[r].Letters[c])
				}
			}
			if n == 0 {
				ids = nil
			}
			s, err := alignment.NewSeq("aln", ids, cols, a, seq.DefaultConsensus)
			if err != nil {
				panic(err)
			}
			s.Strand = seq.Plus
			return object{k.Kind, s}
		}
		cols := make([][]alphabet.QLetter, n)
		for c := range cols {
			cols[c] = make([]alphabet.QLetter, len(k.Rows))
			for r := range k.Rows {
				cols[c][r] = alphabet.QLetter{L: alphabet.Letter(k.Rows[r].Letters[c]), Q: qual(r, c)}
			}
		}
		if n == 0 {
			ids = nil
		}
		s, err := alignment.NewQSeq("aln", ids, cols, a, alphabet.Sanger, seq.DefaultQConsensus)
		if err != nil {
			panic(err)
		}
		s.Strand = seq.Plus
		return object{k.Kind, s}
	case "multi", "mqulti", "set":
		var rows []seq.Sequence
		for r, d := range k.Rows {
			rows = append(rows, mkLin(r, d, k.Kind == "mqulti" || (k.Kind == "set" && r%2 == 1)))
		}
		if k.Kind == "set" {
			return object{k.Kind, multi.Set(rows)}
		}
		m, err := multi.NewMulti("m", rows, seq.DefaultConsensus)
		if err != nil {
			panic(err)
		}
		return object{k.Kind, m}
	}
	panic("kind " + k.Kind)
}

func clone(o object) object {
	switch v := o.v.(type) {
	case *linear.Seq:
		return object{o.kind, v.Clone()}
	case *linear.QSeq:
		return object{o.kind, v.Clone()}
	case *alignment.Seq:
		return object{o.kind, v.Clone()}
	case *alignment.QSeq:
		return object{o.kind, v.Clone()}
	case *multi.Multi:
		return object{o.kind, v.Clone()}
	case multi.Set:
		c := make(multi.Set, len(v))
		for i, r := range v {
			c[i] = r.Clone()
		}
		return object{o.kind, c}
	}
	panic("kind")
}

func rowOf(o object, i int) seq.Sequence {
	switch v := o.v.(type) {
	case seq.Sequence:
		return v
	case seq.Rower:
		if i < v.Rows() {
			return v.Row(i)
		}
	}
	return nil
}

func rows(o object) int {
	switch v := o.v.(type) {
	case seq.Sequence:
		return 1
	case seq.Rower:
		return v.Rows()
	}
	return 0
}

// apply performs op on o; applicable=false when the operation does not exist for this kind/state.
func apply(o object, op string, step int) (applicable bool) {
	ap := alphabet.Letter("cgat"[step%4]) // what Append appends depends on when it is called
	switch op {
	case "R0", "RL", "V0":
		// the operation on ONE row, through the row view
		if _, ok := o.v.(seq.Rower); !ok {
			return false
		}
		ri := 0
		if op == "RL" {
			if ri = rows(o) - 1; ri < 1 {
				return false
			}
		}
		r := rowOf(o, ri)
		if r == nil {
			return false
		}
		if op == "V0" {
			r.(interface{ Reverse() }).Reverse()
		} else {
			r.(interface{ RevComp() }).RevComp()
		}
	case "RC":
		o.v.(interface{ RevComp() }).RevComp()
	case "RV":
		o.v.(interface{ Reverse() }).Reverse()
	case "S0", "SL":
		ri := 0
		if op == "SL" {
			ri = rows(o) - 1
		}
		r := rowOf(o, ri)
		if r == nil {
			return false
		}
		// rows of column-stored alignments are addressed in alignment coordinates
		lo, hi := r.Start(), r.End()
		if a, ok := o.v.(seq.Aligned); ok && (o.kind == "aseq" || o.kind == "aqseq") {
			lo, hi = a.Start(), a.End()
		}
		if hi <= lo {
			return false
		}
		if op == "S0" {
			r.Set(lo, alphabet.QLetter{L: 'n', Q: 9})
		} else {
			r.Set(hi-1, alphabet.QLetter{L: '-', Q: 8})
		}
	case "OF":
		if _, ok := o.v.(seq.Rower); !ok {
			s := o.v.(seq.Sequence)
			s.SetOffset(s.Start() + 1)
			return true
		}
		r := rowOf(o, 0)
		if r == nil {
			return false
		}
		r.SetOffset(r.Start() + 1)
	case "DL":
		d, ok := o.v.(interface{ Delete(int) })
		if !ok || rows(o) < 2 {
			return false
		}
		d.Delete(0)
	case "AP":
		switch v := o.v.(type) {
		case *linear.Seq:
			v.AppendLetters(ap)
		case *linear.QSeq:
			v.AppendQLetters(alphabet.QLetter{L: ap, Q: 30})
		case *multi.Multi:
			if v.Rows() == 0 {
				return false
			}
			v.Append(0, alphabet.QLetter{L: ap, Q: 30})
		case *alignment.Seq:
			if v.Rows() == 0 {
				return false
			}
			col := make([]alphabet.QLetter, v.Rows())
			for i := range col {
				col[i] = alphabet.QLetter{L: ap, Q: 30}
			}
			v.AppendColumns(col)
		case *alignment.QSeq:
			if v.Rows() == 0 {
				return false
			}
			col := make([]alphabet.QLetter, v.Rows())
			for i := range col {
				col[i] = alphabet.QLetter{L: ap, Q: 30}
			}
			v.AppendColumns(col)
		default:
			return false
		}
	default:
		panic("op " + op)
	}
	return true
}

func comp(a alphabet.Alphabet, l alphabet.Letter) alphabet.Letter {
	c, _ := a.(alphabet.Complementor).Complement(l)
	return c
}

// revcompRelation checks S1 = RevComp(S0).
func revcompRelation(k kase, s0, s1 snapshot) string {
	a := alphas[k.Alpha]
	if len(s0.Rows) != len(s1.Rows) {
		return "row count changed"
	}
	if s0.HasStrand && s1.Strand != -s0.Strand {
		return fmt.Sprintf("strand %d -> %d, want negation", s0.Strand, s1.Strand)
	}
	for i, r0 := range s0.Rows {
		r1 := s1.Rows[i]
		if len(r0.Cells) != len(r1.Cells) {
			return fmt.Sprintf("row %d length changed", i)
		}
		n := len(r0.Cells)
		for j := range r0.Cells {
			w := r0.Cells[n-1-j]
			if r1.Cells[j].L != comp(a, w.L) {
				return fmt.Sprintf("row %d position %d holds %q, want complement of %q = %q", i, j, byte(r1.Cells[j].L), byte(w.L), byte(comp(a, w.L)))
			}
			if r1.Cells[j].Q != w.Q {
				return fmt.Sprintf("row %d position %d has quality %d, want %d (qualities travel with letters)", i, j, r1.Cells[j].Q, w.Q)
			}
		}
		switch k.Kind {
		case "multi", "mqulti":
			if r1.Strand != -r0.Strand {
				return fmt.Sprintf("row %d strand %d -> %d", i, r0.Strand, r1.Strand)
			}
			if want := s0.Start + s0.End - r0.End; r1.Start != want || r1.End != want+n {
				return fmt.Sprintf("row %d [%d,%d) moved to [%d,%d), want mirror about [%d,%d) = [%d,%d)", i, r0.Start, r0.End, r1.Start, r1.End, s0.Start, s0.End, want, want+n)
			}
		case "set":
			if r1.Strand != -r0.Strand {
				return fmt.Sprintf("row %d strand %d -> %d", i, r0.Strand, r1.Strand)
			}
			if r1.Start != r0.Start {
				return fmt.Sprintf("row %d moved", i)
			}
		default:
			if r1.Start != r0.Start || r1.End != r0.End {
				return fmt.Sprintf("row %d coordinates changed [%d,%d) -> [%d,%d)", i, r0.Start, r0.End, r1.Start, r1.End)
			}
		}
	}
	if s1.Start != s0.Start || s1.End != s0.End {
		return fmt.Sprintf("span [%d,%d) -> [%d,%d)", s0.Start, s0.End, s1.Start, s1.End)
	}
	return ""
}

// rowRelation checks that S1 is S0 with row ri reverse-complemented (or reversed) in place: its
// letters reversed (and complemented), qualities travelling, strand negated by RevComp, its
// coordinates and every other row as they were.
func rowRelation(k kase, s0, s1 snapshot, ri int, rc bool) string {
	a := alphas[k.Alpha]
	if len(s0.Rows) != len(s1.Rows) {
		return "row count changed"
	}
	if s1.Start != s0.Start || s1.End != s0.End {
		return fmt.Sprintf("span [%d,%d) -> [%d,%d)", s0.Start, s0.End, s1.Start, s1.End)
	}
	for i, r0 := range s0.Rows {
		r1 := s1.Rows[i]
		if i != ri {
			if fmt.Sprint(r0) != fmt.Sprint(r1) {
				return fmt.Sprintf("row %d changed although the operation was on row %d", i, ri)
			}
			continue
		}
		if len(r0.Cells) != len(r1.Cells) || r0.Start != r1.Start || r0.End != r1.End {
			return fmt.Sprintf("row %d [%d,%d) became [%d,%d) with %d letters", i, r0.Start, r0.End, r1.Start, r1.End, len(r1.Cells))
		}
		n := len(r0.Cells)
		for j := range r0.Cells {
			w := r0.Cells[n-1-j]
			wl := w.L
			if rc {
				wl = comp(a, w.L)
			}
			if r1.Cells[j].L != wl {
				return fmt.Sprintf("position %d holds %q, want %q", j, byte(r1.Cells[j].L), byte(wl))
			}
			if r1.Cells[j].Q != w.Q {
				return fmt.Sprintf("position %d has quality %d, want %d (qualities travel with letters)", j, r1.Cells[j].Q, w.Q)
			}
		}
		if rc && r1.Strand != -r0.Strand {
			return fmt.Sprintf("row strand %d -> %d, want negation", r0.Strand, r1.Strand)
		}
	}
	return ""
}

func reversedLetters(s0, s1 snapshot) string {
	if len(s0.Rows) != len(s1.Rows) {
		return "row count changed"
	}
	for i, r0 := range s0.Rows {
		r1 := s1.Rows[i]
		if len(r0.Cells) != len(r1.Cells) {
			return fmt.Sprintf("row %d length changed", i)
		}
		n := len(r0.Cells)
		for j := range r0.Cells {
			if r1.Cells[j] != r0.Cells[n-1-j] {
				return fmt.Sprintf("row %d position %d holds %c%d, want %c%d", i, j, r1.Cells[j].L, r1.Cells[j].Q, r0.Cells[n-1-j].L, r0.Cells[n-1-j].Q)
			}
		}
	}
	return ""
}

type frozen struct {
	o    object
	s    string
	what string
}

// play runs the operation list and checks every step; returns the canonical key of the final situation.
func play(c *enum.Ctx, k kase) (key string, steps int, ok bool) {
	c.Doing(k.slot, k)
	fail := func(class, f string, a ...interface{}) {
		c.Fail(k.Kind+"/"+class, k, "%s  [%s]", fmt.Sprintf(f, a...), enum.J(k))
	}
	var cur object
	if c.Guard(k.Kind+"/build-panic", k, func() { cur = build(k) }) {
		return "", 0, false
	}
	var frz []frozen
	hist := []snapshot{snap(cur)}
	for i, op := range k.Ops {
		steps++
		var applicable bool
		if op == "CL" || op == "CK" {
			var cl object
			if c.Guard(k.Kind+"/clone-panic", k, func() { cl = clone(cur) }) {
				return "", steps, false
			}
			if a, b := snap(cl).String(), snap(cur).String(); a != b {
				fail("clone-differs", "step %d: clone is %s, original %s", i, a, b)
				return "", steps, false
			}
			if op == "CL" {
				frz = append(frz, frozen{cur, snap(cur).String(), "original"})
				cur = cl
			} else {
				frz = append(frz, frozen{cl, snap(cl).String(), "clone"})
			}
			hist = append(hist, snap(cur))
			continue
		}
		if op == "SW" {
			// go on with the copy that was put aside last; the one in hand is put aside instead
			if len(frz) == 0 {
				return "", steps, false
			}
			f := &frz[len(frz)-1]
			cur, f.o = f.o, cur
			f.s = hist[len(hist)-1].String()
			if f.what == "original" {
				f.what = "clone"
			} else {
				f.what = "original"
			}
			hist = append(hist, snap(cur))
			continue
		}
		if c.Guard(k.Kind+"/"+op+"-panic", k, func() { applicable = apply(cur, op, i) }) {
			return "", steps, false
		}
		if !applicable {
			return "", steps, false
		}
		var s1 snapshot
		if c.Guard(k.Kind+"/snapshot-panic-after-"+op, k, func() { s1 = snap(cur) }) {
			return "", steps, false
		}
		s0 := hist[len(hist)-1]
		switch op {
		case "R0", "RL", "V0":
			ri := 0
			if op == "RL" {
				ri = len(s0.Rows) - 1
			}
			if msg := rowRelation(k, s0, s1, ri, op != "V0"); msg != "" {
				what := "RevComp"
				if op == "V0" {
					what = "Reverse"
				}
				fail("row-"+strings.ToLower(what), "step %d %s of row %d of %s gave %s: %s", i, what, ri, s0, s1, msg)
				return "", steps, false
			}
		case "RC":
			if msg := revcompRelation(k, s0, s1); msg != "" {
				fail("revcomp", "step %d RevComp of %s gave %s: %s", i, s0, s1, msg)
				return "", steps, false
			}
			if i > 0 && k.Ops[i-1] == "RC" {
				if a, b := hist[len(hist)-2].String(), s1.String(); a != b {
					fail("revcomp-twice", "step %d: RevComp twice turned %s into %s", i, a, b)
					return "", steps, false
				}
			}
		case "RV":
			if msg := reversedLetters(s0, s1); msg != "" {
				fail("reverse", "step %d Reverse of %s gave %s: %s", i, s0, s1, msg)
				return "", steps, false
			}
			if i > 0 && k.Ops[i-1] == "RV" {
				if a, b := lettersOf(hist[len(hist)-2]), lettersOf(s1); a != b {
					fail("reverse-twice", "step %d: Reverse twice turned letters %s into %s", i, a, b)
					return "", steps, false
				}
			}
		}
		for _, f := range frz {
			var now string
			if c.Guard(k.Kind+"/frozen-snapshot-panic", k, func() { now = snap(f.o).String() }) {
				return "", steps, false
			}
			if now != f.s {
				fail("clone-not-independent/"+op, "step %d: %s applied to one copy changed the %s from %s to %s", i, op, f.what, f.s, now)
				return "", steps, false
			}
		}
		hist = append(hist, s1)
	}
	key = hist[len(hist)-1].String()
	for _, f := range frz {
		key += " // " + f.s
	}
	return key, steps, true
}

var opAlphabet = []string{"RC", "RV", "CL", "CK", "S0", "SL", "OF", "DL", "AP", "SW", "R0", "RL", "V0"}

func search(c *enum.Ctx, base kase, depth int, states, trans, traces *atomic.Int64, nt enum.NontrivialSet) {
	seen := map[string]bool{}
	k0, _, ok := play(c, base)
	if !ok {
		return
	}
	seen[k0] = true
	states.Add(1)
	frontier := [][]string{{}}
	for d := 0; d < depth; d++ {
		var next [][]string
		for _, h := range frontier {
			for _, op := range opAlphabet {
				nh := append(append([]string{}, h...), op)
				k := base
				k.Ops = nh
				c.Eval()
				key, steps, ok := play(c, k)
				traces.Add(1)
				trans.Add(int64(steps))
				if !ok {
					continue
				}
				nt.Add(enum.J(k))
				if seen[key] && d >= 2 { // the first two levels are never merged
					continue
				}
				if !seen[key] {
					states.Add(1)
				}
				seen[key] = true
				next = append(next, nh)
			}
		}
		frontier = next
	}
}

// sharedRowClone: a Multi that holds one row object at two positions (what Add(b, b) makes).  What RevComp
// makes of such a container is not judged (the row would be turned twice); Clone is: the copy shares nothing
// with the original, so writing on every row of either leaves the other as it was.
func sharedRowClone(c *enum.Ctx) {
	for _, q := range []bool{false, true} {
		for _, layout := range [][]int{{0, 1, 1}, {0, 0}, {1, 0, 1}, {0, 1, 2, 1}} {
			k := map[string]interface{}{"family": "Clone of a Multi that holds a row object at two positions", "quality_rows": q, "row_objects_by_position": layout}
			c.Doing(0, k)
			c.Eval()
			c.Nontrivial(enum.J(k))
			c.Guard("shared-row/panic", k, func() {
				mk := func(i int) seq.Sequence {
					w := []string{"acG", "n-", "Gca"}[i]
					if q {
						ql := make([]alphabet.QLetter, len(w))
						for j := range ql {
							ql[j] = alphabet.QLetter{L: alphabet.Letter(w[j]), Q: alphabet.Qphred(10 + 3*i + j)}
						}
						s := linear.NewQSeq(fmt.Sprint("r", i), ql, alphabet.DNAgapped, alphabet.Sanger)
						s.SetOffset(i)
						return s
					}
					s := linear.NewSeq(fmt.Sprint("r", i), alphabet.BytesToLetters([]byte(w)), alphabet.DNAgapped)
					s.SetOffset(i)
					return s
				}
				objs := []seq.Sequence{mk(0), mk(1), mk(2)}
				var rows []seq.Sequence
				for _, i := range layout {
					rows = append(rows, objs[i])
				}
				m, err := multi.NewMulti("m", rows, seq.DefaultConsensus)
				if err != nil {
					c.Fail("shared-row/new", k, "NewMulti: %v", err)
					return
				}
				show := func(x *multi.Multi) string {
					out := ""
					for i := 0; i < x.Rows(); i++ {
						r := x.Row(i)
						out += fmt.Sprintf("%s[%d,%d)", r.Name(), r.Start(), r.End())
						for p := r.Start(); p < r.End(); p++ {
							out += fmt.Sprintf("%c%d", r.At(p).L, r.At(p).Q)
						}
						out += " "
					}
					return out
				}
				scribbleAll := func(x *multi.Multi) {
					for i := 0; i < x.Rows(); i++ {
						r := x.Row(i)
						for p := r.Start(); p < r.End(); p++ {
							r.Set(p, alphabet.QLetter{L: 't', Q: 1})
						}
						if so, ok := r.(interface{ SetOffset(int) error }); ok {
							so.SetOffset(r.Start() + 7)
						}
					}
				}
				before := show(m)
				cl := m.Clone().(*multi.Multi)
				if got := show(cl); got != before {
					c.Fail("shared-row/clone-differs", k, "the clone reads %s, the original %s", got, before)
				}
				scribbleAll(cl)
				if got := show(m); got != before {
					c.Fail("shared-row/clone-not-independent", k, "writing on every row of the clone changed the original from %s to %s", before, got)
				}
				cl2 := m.Clone().(*multi.Multi)
				scribbleAll(m)
				if got := show(cl2); got != before {
					c.Fail("shared-row/clone-not-independent", k, "writing on every row of the original changed a clone taken before from %s to %s", before, got)
				}
			})
		}
	}
}

func run(c *enum.Ctx) {
	sharedRowClone(c)
	c.Rule("initial objects: linear.Seq/QSeq for every letter string of length 0..3 (algebra-only for 4..5) over paired letters {a,c,G,n,-} (and RNA/redundant alphabets on fixed words), alignment.Seq/QSeq grids 1..3 rows x 0..4 columns, multi.Multi with every layout of 1..3 rows (offsets 0..2, lengths 1..3; plain and quality rows), multi.Set; then breadth-first search over operation sequences of depth <=3 (thorough 4; linear 4/5) over {RevComp, Reverse, Clone-and-continue-on-copy, Clone-and-keep, Set first, Set last, SetOffset, Delete row, Append (the letter depends on the step), go-on-with-the-other-copy, RevComp of the first / last row through its row view, Reverse of the first row}; three-row Multi layouts with an empty row; rows left of the origin (negative odd and even spans); rows that share a name or have none; Clone of a Multi that holds one row object at two positions; objects all of whose rows lie at offsets of +-2^40 and just around +-2^31; the size ladder 7..4097 (thorough 16385) - every 2^k-1, 2^k, 2^k+1 (also 3*2^k, 10^j-1, 10^j, 10^j+1, 5*10^j) letters / columns / row length - for every kind under nine fixed operation lists; linear sequences also start emptied (length 0 over storage of two letters); after every operation the object's snapshot (row names, coordinates, strands, letters, qualities) is related to the previous one and every retained clone/original must be unchanged; states de-duplicated on the snapshot of the object plus retained copies (first two levels unmerged); non-trivial = every applicable operation sequence")
	c.Assume("column-stored alignments are used at offset 0 (their column accessors take raw indices)", "single Reverse is checked against its documented meaning (letters reversed); Multi row coordinates after Reverse are not constrained")
	depthLin, depthOther := 4, 3
	if !c.Quick {
		depthLin, depthOther = 5, 4
	}
	type job struct {
		k     kase
		depth int
	}
	var jobs []job
	enum.Strings("acGn-", 0, 5, func(s []byte) {
		for _, kind := range []string{"lseq", "lqseq"} {
			for _, off := range []int{0, 2} {
				d := depthLin
				if len(s) > 3 {
					d = 0
				}
				if len(s) > 3 && off != 0 {
					continue
				}
				jobs = append(jobs, job{kase{Kind: kind, Alpha: "DNA", Rows: []rowDef{{off, string(s)}}}, d})
			}
		}
	})
	for _, kind := range []string{"lseq", "lqseq"} {
		for _, off := range []int{0, 2} {
			jobs = append(jobs, job{kase{Kind: kind, Alpha: "DNA", Rows: []rowDef{{off, ""}}, Emptied: true}, depthLin})
		}
	}
	for name, w := range map[string]string{"DNAgapped": "acgt-", "DNAredundant": "acmgrsvtwyhkdbn-", "RNA": "acgun", "RNAgapped": "-acgu", "RNAredundant": "acmgrsvuwyhkdbn"} {
		for _, kind := range []string{"lseq", "lqseq"} {
			for n := 0; n <= len(w); n++ {
				jobs = append(jobs, job{kase{Kind: kind, Alpha: name, Rows: []rowDef{{1, w[:n]}}}, 2})
				jobs = append(jobs, job{kase{Kind: kind, Alpha: name, Rows: []rowDef{{0, strings.ToUpper(w[:n])}}}, 2})
			}
		}
	}
	cell := func(r, cidx int) byte { return "acGtn-Ca"[(r*3+cidx)%8] }
	for _, kind := range []string{"aseq", "aqseq"} {
		for nr := 1; nr <= 3; nr++ {
			for nc := 1; nc <= 4; nc++ { // a column-stored alignment with no columns has no defined row count
				var rs []rowDef
				for r := 0; r < nr; r++ {
					b := make([]byte, nc)
					for i := range b {
						b[i] = cell(r, i)
					}
					rs = append(rs, rowDef{0, string(b)})
				}
				jobs = append(jobs, job{kase{Kind: kind, Alpha: "DNA", Rows: rs}, depthOther})
			}
		}
	}
	var layouts [][]rowDef
	var rec func(prefix []rowDef, n int)
	rec = func(prefix []rowDef, n int) {
		if len(prefix) == n {
			layouts = append(layouts, append([]rowDef{}, prefix...))
			return
		}
		for off := 0; off <= 2; off++ {
			for l := 1; l <= 3; l++ {
				b := make([]byte, l)
				for i := range b {
					b[i] = cell(len(prefix), i)
				}
				rec(append(prefix, rowDef{off, string(b)}), n)
			}
		}
	}
	for n := 1; n <= 3; n++ {
		rec(nil, n)
	}
	for i, l := range layouts {
		for _, kind := range []string{"multi", "mqulti"} {
			d := depthOther
			if len(l) == 3 && c.Quick {
				d = 2
			}
			jobs = append(jobs, job{kase{Kind: kind, Alpha: "DNA", Rows: l}, d})
		}
		if i%9 == 0 {
			jobs = append(jobs, job{kase{Kind: "set", Alpha: "DNA", Rows: l}, depthOther})
		}
	}
	// layouts of three rows one of which is EMPTY (a row of length zero has an offset all the same)
	for _, l := range layouts {
		if len(l) != 2 {
			continue
		}
		for pos := 0; pos <= 2; pos++ {
			for off := 0; off <= 2; off++ {
				if (pos+off+len(l[0].Letters))%2 == 1 && c.Quick {
					continue
				}
				w := append(append(append([]rowDef{}, l[:min(pos, 2)]...), rowDef{off, ""}), l[min(pos, 2):]...)
				for _, kind := range []string{"multi", "mqulti"} {
					jobs = append(jobs, job{kase{Kind: kind, Alpha: "DNA", Rows: w}, 2})
				}
			}
		}
	}
	// the size ladder: one object of every kind at every size 2^k-1, 2^k, 2^k+1 (also 3*2^k, 10^j-1, 10^j, 10^j+1, 5*10^j) (columns of an alignment,
	// letters of a sequence, two ragged rows of that length), a handful of fixed operation lists
	top := 4097
	if !c.Quick {
		top = 16385
	}
	for _, n := range enum.Ladder(7, top) {
		w := seqgen.Fill("acGt-", n)
		w2 := seqgen.Fill("ca-Gt", n)
		for _, kind := range []string{"lseq", "lqseq", "aseq", "aqseq", "multi", "mqulti"} {
			rows := []rowDef{{0, w}}
			switch kind {
			case "aseq", "aqseq":
				rows = []rowDef{{0, w}, {0, w2}}
			case "multi", "mqulti":
				rows = []rowDef{{0, w}, {1, w2[:n-3]}}
			}
			jobs = append(jobs, job{kase{Kind: kind, Alpha: "DNAgapped", Rows: rows}, -1})
		}
	}
	// coordinates far from the origin (whole-genome offsets; beyond 32 bits, and just around 2^31 on
	// either side of zero): every row of the object lies there
	for _, base := range []int{1 << 40, -(1 << 40), 1<<31 - 2, 1 << 31, -(1 << 31) - 5, -(1 << 31) + 1} {
		for _, kind := range []string{"multi", "mqulti", "lseq", "lqseq"} {
			rows := []rowDef{{base, "acG"}}
			if kind == "multi" || kind == "mqulti" {
				rows = []rowDef{{base, "acG"}, {base + 2, "n-"}, {base + 1, "Gca"}}
			}
			jobs = append(jobs, job{kase{Kind: kind, Alpha: "DNAgapped", Rows: rows}, -1})
		}
	}
	// rows left of the origin (spans with a negative and odd, a negative and even sum of the ends), and rows
	// that share a name or have none
	for _, rows := range [][]rowDef{
		{{-8, "acGn-ac"}, {-6, "Gca"}}, {{-3, "acG"}}, {{-3, "ac"}, {-2, "G"}}, {{-5, "a"}, {-4, "cG"}, {-7, "n-a"}}, {{-1, "ac"}, {0, "G"}}, {{-2, "acG"}, {1, "n"}},
	} {
		for _, kind := range []string{"multi", "mqulti", "set"} {
			jobs = append(jobs, job{kase{Kind: kind, Alpha: "DNAgapped", Rows: rows}, -1})
		}
	}
	for _, names := range []string{"same", "none"} {
		for _, rows := range [][]rowDef{{{0, "acG"}, {1, "n-"}}, {{2, "ac"}, {0, "Gca"}, {1, "c"}}} {
			for _, kind := range []string{"multi", "mqulti", "set", "aseq", "aqseq"} {
				r := rows
				if kind == "aseq" || kind == "aqseq" {
					r = []rowDef{{0, "acG"}, {0, "n-c"}}
				}
				jobs = append(jobs, job{kase{Kind: kind, Alpha: "DNAgapped", Rows: r, Names: names}, -1})
			}
		}
	}
	// a Multi of two rows of 8200 letters (thorough: more) - beyond any per-row work threshold
	jobs = append(jobs, job{kase{Kind: "multi", Alpha: "DNAgapped", Rows: []rowDef{{0, seqgen.Fill("acGt-", 8200)}, {2, seqgen.Fill("ca-Gt", 8200)}}}, -1})
	var states, trans, traces atomic.Int64
	enum.Parallel(len(jobs), func(i int) {
		nt := enum.NontrivialSet{}
		j := jobs[i]
		j.k.slot = i
		if j.depth <= 0 {
			lists := [][]string{{"RC", "RC"}, {"RV", "RV"}, {"CL", "RC", "S0"}, {"CK", "RV", "SL"}}
			if j.depth < 0 {
				lists = append(lists, []string{"CK", "RC", "RC"}, []string{"CL", "SL", "SW", "S0"}, []string{"CK", "R0"}, []string{"CL", "V0", "RC"}, []string{"RC", "CK", "AP", "RV"})
			}
			for _, ops := range lists {
				k := j.k
				k.Ops = ops
				c.Eval()
				_, st, _ := play(c, k)
				traces.Add(1)
				trans.Add(int64(st))
				states.Add(1)
				nt.Add(enum.J(k))
			}
		} else {
			search(c, j.k, j.depth, &states, &trans, &traces, nt)
		}
		c.Merge(nt)
		if i%97 == 0 {
			k := j.k
			k.Ops = []string{"CL", "RC", "OF"}
			c.Sample(k)
		}
	})
	c.MC(states.Load(), trans.Load(), traces.Load())
	c.Set("initial_objects", len(jobs))
}

func main() {
	enum.Main("C05", "model_checking", run, func(c *enum.Ctx, in json.RawMessage) {
		var k kase
		if err := json.Unmarshal(in, &k); err != nil {
			panic(err)
		}
		fmt.Printf("case %s\n", enum.J(k))
		play(c, k)
	})
}
