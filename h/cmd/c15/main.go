// C15: PALS hits are real alignments and planted repeats are found.
package main

import (
	"encoding/json"
	"fmt"
	"os"
	"strings"
	_ "verif/h/duoc"
	"verif/h/own"

	"github.com/biogo/biogo/align/pals"
	"github.com/biogo/biogo/align/pals/dp"
	"github.com/biogo/biogo/align/pals/filter"
	"github.com/biogo/biogo/alphabet"
	"github.com/biogo/biogo/morass"
	"verif/h/enum"
)

type kase struct {
	BgT     int     `json:"bgt"` // background ids (constants)
	BgQ     int     `json:"bgq"`
	LenT    int     `json:"lent"`
	LenQ    int     `json:"lenq"`
	MinLen  int     `json:"minlen"`
	MinId   float64 `json:"minid"`
	L       int     `json:"l"`  // planted repeat length
	T0      int     `json:"t0"` // plant positions (Q0 in the forward query)
	Q0      int     `json:"q0"`
	Variant string  `json:"variant"`
	Q1      int     `json:"q1,omitempty"` // a second copy in the query (0: none), exact
	Self    bool    `json:"self,omitempty"`
	Rev     bool    `json:"rev,omitempty"` // the copy is reverse-complemented
	// Order: 0 one Align call (the plant's strand) on a fresh aligner; 1 the other strand is searched
	// first on the same aligner value (forward then complement is what cmd/pals does), and its hits
	// are held to the soundness oracle as well; 2 a second Optimise call that is REJECTED (12, 0.5) comes
	// between BuildIndex and Align (it must leave the accepted settings alone); 3 the hits judged are those
	// of AlignFrom(Trapezoids(), strand) called after Align on the same aligner; 4 index and settings are taken
	// over with Share from another aligner (same target, another query) that has searched both strands; 5 the
	// aligner was optimised, indexed and used for a minimum length four times as large first; 6 (two sequences
	// only) the aligner has searched both strands while the query object held other letters of the same
	// length, which were then overwritten in place with the query of the case (the index covers the target)
	Order int `json:"order,omitempty"`
}

// background returns a fixed pseudo-random DNA string determined only by id (a constant).
func background(id, n int) []byte {
	x := uint64(0x9E3779B97F4A7C15) * uint64(id*2+1)
	b := make([]byte, n)
	for i := range b {
		x ^= x << 13
		x ^= x >> 7
		x ^= x << 17
		b[i] = "acgt"[(x>>33)&3]
	}
	if id == 9 { // low complexity
		for i := range b {
			b[i] = "aacaag"[i%6]
		}
	}
	return b
}

func revcomp(s []byte) []byte {
	out := make([]byte, len(s))
	for i, c := range s {
		out[len(s)-1-i] = "tgca"[strings.IndexByte("acgt", c)]
	}
	return out
}

func rot(c byte) byte { return "cgta"[strings.IndexByte("acgt", c)] }

// mutate applies the variant to a copy of the repeat; returns the copy and the number of edits.
func mutate(rep []byte, variant string) ([]byte, int) {
	cp := append([]byte{}, rep...)
	var kind string
	var a, b int
	fmt.Sscanf(variant, "%s %d %d", &kind, &a, &b)
	switch kind {
	case "exact":
		return cp, 0
	case "sub":
		cp[a] = rot(cp[a])
		return cp, 1
	case "sub2":
		cp[len(cp)/4] = rot(cp[len(cp)/4])
		cp[len(cp)/2] = rot(cp[len(cp)/2])
		return cp, 2
	case "sub3":
		for _, p := range []int{len(cp) / 4, len(cp) / 2, 3 * len(cp) / 4} {
			cp[p] = rot(cp[p])
		}
		return cp, 3
	case "subevery": // a substitution at a/2, a/2+a, a/2+2a, ...: identity 1-1/a
		n := 0
		for p := a / 2; p < len(cp); p += a {
			cp[p] = rot(cp[p])
			n++
		}
		return cp, n
	case "del":
		return append(cp[:a:a], cp[a+b:]...), b
	case "ins":
		ins := []byte("ca")[:b]
		out := append(append(append([]byte{}, cp[:a]...), ins...), cp[a:]...)
		return out, b
	}
	panic("variant " + variant)
}

// core returns the part of a planted repeat that a local alignment under (+1,-3,-3) keeps: an edit
// close to an end is cheaper to leave out together with the flank beyond it (a substitution with fewer
// than 5 letters beyond it, an indel of b letters with fewer than 3b+2), so the recoverable repeat starts
// after / ends before such an edit.  [lo,hi) in the original, [qlo,qhi) in the copy.
func core(L int, variant string) (lo, hi, qlo, qhi int) {
	var kind string
	var a, b int
	fmt.Sscanf(variant, "%s %d %d", &kind, &a, &b)
	type edit struct{ pos, tlen, qlen int } // the edit replaces tlen letters of the original by qlen letters
	var es []edit
	switch kind {
	case "sub":
		es = []edit{{a, 1, 1}}
	case "sub2":
		es = []edit{{L / 4, 1, 1}, {L / 2, 1, 1}}
	case "sub3":
		es = []edit{{L / 4, 1, 1}, {L / 2, 1, 1}, {3 * L / 4, 1, 1}}
	case "subevery":
		for p := a / 2; p < L; p += a {
			es = append(es, edit{p, 1, 1})
		}
	case "del":
		es = []edit{{a, b, 0}}
	case "ins":
		es = []edit{{a, 0, b}}
	}
	lo, hi = 0, L
	shiftLo, shiftHi := 0, 0 // copy coordinate minus original coordinate at lo / hi
	for _, e := range es {
		shiftHi += e.qlen - e.tlen
	}
	need := func(e edit) int {
		if e.tlen == 1 && e.qlen == 1 {
			return 5
		}
		return 3*(e.tlen+e.qlen) + 2
	}
	for _, e := range es {
		if e.pos-lo < need(e) && e.pos+e.tlen > lo {
			lo = e.pos + e.tlen
		}
	}
	for i := len(es) - 1; i >= 0; i-- {
		if e := es[i]; hi-(e.pos+e.tlen) < need(e) && e.pos < hi {
			hi = e.pos
		}
	}
	for _, e := range es {
		if e.pos+e.tlen <= lo {
			shiftLo += e.qlen - e.tlen
		}
		if e.pos >= hi {
			shiftHi -= e.qlen - e.tlen
		}
	}
	if hi < lo {
		hi = lo
	}
	return lo, hi, lo + shiftLo, hi + shiftHi
}

func build(k kase) (target, query []byte, plantT, plantQ [2]int, edits int) {
	defer func() {
		// the intervals the recall oracle works with are those of the core
		lo, hi, qlo, qhi := core(k.L, k.Variant)
		n := plantQ[1] - plantQ[0]
		plantT = [2]int{k.T0 + lo, k.T0 + hi}
		if k.Rev {
			plantQ = [2]int{k.Q0 + n - qhi, k.Q0 + n - qlo}
		} else {
			plantQ = [2]int{k.Q0 + qlo, k.Q0 + qhi}
		}
	}()
	target = background(k.BgT, k.LenT)
	rep := append([]byte{}, target[k.T0:k.T0+k.L]...)
	cp, e := mutate(rep, k.Variant)
	if k.Rev {
		cp = revcomp(cp)
	}
	if k.Self {
		// the copy is written into the same sequence
		query = target
		copy(target[k.Q0:], cp)
		if k.Q0+len(cp) > len(target) {
			panic("plant outside")
		}
		return target, target, [2]int{k.T0, k.T0 + k.L}, [2]int{k.Q0, k.Q0 + len(cp)}, e
	}
	query = background(k.BgQ, k.LenQ)
	copy(query[k.Q0:], cp)
	if k.Q1 > 0 {
		second := append([]byte{}, rep...)
		if k.Rev {
			second = revcomp(second)
		}
		copy(query[k.Q1:], second)
	}
	return target, query, [2]int{k.T0, k.T0 + k.L}, [2]int{k.Q0, k.Q0 + len(cp)}, e
}

// nwScore: optimal global alignment score under match +1, mismatch -3, indel -3.
func nwScore(a, b []byte) int {
	prev := make([]int, len(b)+1)
	cur := make([]int, len(b)+1)
	for j := range prev {
		prev[j] = -3 * j
	}
	for i := 1; i <= len(a); i++ {
		cur[0] = -3 * i
		for j := 1; j <= len(b); j++ {
			d := prev[j-1] - 3
			if a[i-1] == b[j-1] {
				d = prev[j-1] + 1
			}
			if v := prev[j] - 3; v > d {
				d = v
			}
			if v := cur[j-1] - 3; v > d {
				d = v
			}
			cur[j] = d
		}
		prev, cur = cur, prev
	}
	return prev[len(b)]
}

func overlap(a0, a1, b0, b1 int) int {
	lo, hi := a0, a1
	if b0 > lo {
		lo = b0
	}
	if b1 < hi {
		hi = b1
	}
	if hi < lo {
		return 0
	}
	return hi - lo
}

type runner struct{ m *morass.Morass }

func (r *runner) align(k kase, target, query []byte, comp bool) (hits, other dp.Hits, err error) {
	t := own.NewSeq("t", alphabet.BytesToLetters(append([]byte(nil), target...)), alphabet.DNA)
	q := t
	if !k.Self {
		q = own.NewSeq("q", alphabet.BytesToLetters(append([]byte(nil), query...)), alphabet.DNA)
	}
	r.m.Clear()
	var lg *trapLogger
	var p *pals.PALS
	if k.Order == 7 {
		lg = &trapLogger{}
		p = pals.New(t, q, k.Self, r.m, 0, nil, lg)
		lg.p = p
	} else {
		p = pals.New(t, q, k.Self, r.m, 0, nil, nil)
	}
	if k.Order == 4 {
		// the index and the settings come from ANOTHER aligner over the same target, which has searched both
		// strands of another query first (how cmd/pals spreads queries over workers)
		other := own.NewSeq("o", alphabet.BytesToLetters(background(77, 700)), alphabet.DNA)
		m := pals.New(t, other, false, r.m, 0, nil, nil)
		if err := m.Optimise(k.MinLen, k.MinId); err != nil {
			return nil, nil, fmt.Errorf("Optimise: %v", err)
		}
		if err := m.BuildIndex(); err != nil {
			return nil, nil, fmt.Errorf("BuildIndex: %v", err)
		}
		for _, cm := range []bool{false, true} {
			if _, err := m.Align(cm); err != nil {
				return nil, nil, err
			}
		}
		p.Share(m)
		hits, err = p.Align(comp)
		return hits, nil, err
	}
	if k.Order == 5 {
		// the aligner was first set up (and used) for repeats four times as long, then re-optimised
		if p.Optimise(4*k.MinLen, k.MinId) == nil && p.BuildIndex() == nil {
			p.Align(comp)
		}
	}
	if err := p.Optimise(k.MinLen, k.MinId); err != nil {
		return nil, nil, fmt.Errorf("Optimise: %v", err)
	}
	if err := p.BuildIndex(); err != nil {
		return nil, nil, fmt.Errorf("BuildIndex: %v", err)
	}
	if k.Order == 6 && !k.Self {
		copy(q.Seq, alphabet.BytesToLetters(background(77, len(query))))
		for _, cm := range []bool{true, false} {
			if _, err := p.Align(cm); err != nil {
				return nil, nil, err
			}
		}
		copy(q.Seq, alphabet.BytesToLetters(query))
	}
	if k.Order == 1 {
		if other, err = p.Align(!comp); err != nil {
			return nil, nil, err
		}
		other = append(dp.Hits{}, other...)
	}
	if k.Order == 2 {
		if p.Optimise(12, 0.5) == nil {
			// accepted after all: go back to the settings of the case
			if err := p.Optimise(k.MinLen, k.MinId); err != nil {
				return nil, nil, fmt.Errorf("Optimise: %v", err)
			}
			if err := p.BuildIndex(); err != nil {
				return nil, nil, fmt.Errorf("BuildIndex: %v", err)
			}
		}
	}
	hits, err = p.Align(comp)
	if k.Order == 3 && err == nil {
		hits, err = p.AlignFrom(p.Trapezoids(), comp)
	}
	if k.Order == 7 && err == nil {
		hits, err = p.AlignFrom(lg.merged, comp)
	}
	return hits, other, err
}

// trapLogger is a Logger that looks at the aligner it belongs to: told that trapezoids were merged, it
// keeps what Trapezoids() returns at that moment.
type trapLogger struct {
	p      *pals.PALS
	merged filter.Trapezoids
}

func (l *trapLogger) Print(v ...interface{}) {}
func (l *trapLogger) Printf(format string, v ...interface{}) {
	if strings.HasPrefix(format, "Merged") {
		l.merged = append(filter.Trapezoids{}, l.p.Trapezoids()...)
	}
}

// sound applies the per-hit oracle to one hit of a search of the given strand.
func sound(c *enum.Ctx, k kase, h dp.Hit, target, work []byte, strand string) {
	if h.Abpos < 0 || h.Aepos > len(target) || h.Bbpos < 0 || h.Bepos > len(work) || h.Abpos > h.Aepos || h.Bbpos > h.Bepos {
		c.Fail("soundness/outside", k, "%s hit %+v lies outside sequences of length %d and %d", strand, h, len(target), len(work))
		return
	}
	if h.Aepos-h.Abpos < k.MinLen || h.Bepos-h.Bbpos < k.MinLen {
		c.Fail("soundness/too-short", k, "%s hit %+v is shorter than the minimum hit length %d", strand, h, k.MinLen)
	}
	if h.Error > 1-k.MinId+1e-12 {
		c.Fail("soundness/error-above-threshold", k, "%s hit %+v reports error %.4f > 1-minId = %.4f", strand, h, h.Error, 1-k.MinId)
	}
	if opt := nwScore(target[h.Abpos:h.Aepos], work[h.Bbpos:h.Bepos]); h.Score > opt {
		c.Fail("soundness/score-above-optimum", k, "%s hit %+v reports score %d, the optimal global alignment of its regions under (+1,-3,-3) scores %d", strand, h, h.Score, opt)
	}
	// "so the regions' edit distance is bounded by the reported error": an alignment of score S between
	// regions of lengths a and b has at most ((a+b)/2-S)/3.5 edits, and the reported error e satisfies
	// 4*e*b = b - S + |a-b| >= (a+b)/2 - S, hence edits <= (8/7)*e*b
	if d, bound := editDistance(target[h.Abpos:h.Aepos], work[h.Bbpos:h.Bepos]), 8.0/7.0*h.Error*float64(h.Bepos-h.Bbpos); float64(d) > bound+1e-9 {
		c.Fail("soundness/edit-distance-above-reported-error", k, "%s hit %+v: the regions are %d edits apart, the reported error %.4f over %d query letters allows %.2f", strand, h, d, h.Error, h.Bepos-h.Bbpos, bound)
	}
}

// editDistance: unit-cost edit distance.
func editDistance(a, b []byte) int {
	prev := make([]int, len(b)+1)
	cur := make([]int, len(b)+1)
	for j := range prev {
		prev[j] = j
	}
	for i := 1; i <= len(a); i++ {
		cur[0] = i
		for j := 1; j <= len(b); j++ {
			d := prev[j-1]
			if a[i-1] != b[j-1] {
				d++
			}
			if v := prev[j] + 1; v < d {
				d = v
			}
			if v := cur[j-1] + 1; v < d {
				d = v
			}
			cur[j] = d
		}
		prev, cur = cur, prev
	}
	return prev[len(b)]
}

func check(c *enum.Ctx, r *runner, k kase) {
	target, query, pt, pq, edits := build(k)
	var hits, other dp.Hits
	var err error
	if c.Guard("pals/panic", k, func() { hits, other, err = r.align(k, target, query, k.Rev) }) {
		return
	}
	if err != nil {
		c.Fail("pals/error", k, "%v", err)
		return
	}
	work, otherWork := query, revcomp(query)
	if k.Rev {
		work, otherWork = otherWork, work
		pq = [2]int{len(query) - pq[1], len(query) - pq[0]}
	}
	for _, h := range other {
		sound(c, k, h, target, otherWork, "other-strand")
		if k.Self && k.Rev && h.Abpos == h.Bbpos && h.Aepos == h.Bepos {
			c.Fail("self/trivial-match-reported", k, "self comparison reports the trivial match %+v", h)
		}
	}
	found, found2 := false, k.Q1 == 0
	p2 := [2]int{k.Q1, k.Q1 + k.L}
	if k.Rev {
		p2 = [2]int{len(query) - p2[1], len(query) - p2[0]}
	}
	for _, h := range hits {
		if k.Q1 > 0 && 2*overlap(h.Abpos, h.Aepos, pt[0], pt[1]) >= pt[1]-pt[0] && 2*overlap(h.Bbpos, h.Bepos, p2[0], p2[1]) >= p2[1]-p2[0] {
			found2 = true
		}
		sound(c, k, h, target, work, "plant-strand")
		if h.Abpos < 0 || h.Aepos > len(target) || h.Bbpos < 0 || h.Bepos > len(work) || h.Abpos > h.Aepos || h.Bbpos > h.Bepos {
			continue
		}
		if k.Self && !k.Rev && h.Abpos == h.Bbpos && h.Aepos == h.Bepos {
			c.Fail("self/trivial-match-reported", k, "self comparison reports the trivial match %+v", h)
		}
		if 2*overlap(h.Abpos, h.Aepos, pt[0], pt[1]) >= pt[1]-pt[0] && 2*overlap(h.Bbpos, h.Bepos, pq[0], pq[1]) >= pq[1]-pq[0] {
			found = true
		}
		if k.Self && k.Rev {
			// the same repeat seen from the other side: the copy on the target strand, the original on the complemented one
			ct := [2]int{len(query) - pq[1], len(query) - pq[0]}
			co := [2]int{len(target) - pt[1], len(target) - pt[0]}
			if 2*overlap(h.Abpos, h.Aepos, ct[0], ct[1]) >= ct[1]-ct[0] && 2*overlap(h.Bbpos, h.Bepos, co[0], co[1]) >= co[1]-co[0] {
				found = true
			}
		}
	}
	// recall, only comfortably above the thresholds
	identity := 1 - float64(edits)/float64(k.L)
	coreLen := pt[1] - pt[0]
	if pq[1]-pq[0] < coreLen {
		coreLen = pq[1] - pq[0]
	}
	if 2*k.L >= 3*k.MinLen && !found2 {
		c.Fail("recall/second-copy", k, "the second (exact) copy of the repeat at query %v is not recovered although the first at %v is handled; hits %+v", p2, pq, hits)
	}
	if identity >= k.MinId+0.05 && coreLen >= k.MinLen+1 && !found {
		mode := "pair"
		if k.Self {
			mode = "self"
		}
		if k.Rev {
			mode += "-rev"
		}
		class := "recall/" + mode + "/" + strings.Fields(k.Variant)[0]
		if 2*coreLen < 3*k.MinLen {
			// close to the minimum length every case is its own class, so that the recorded finding
			// (known_findings.json: the trapezoid bisection of the dp kernel) covers listed inputs only
			// (the digest is that of the input - sequences and settings - whatever the order of calls)
			base := k
			base.Order = 0
			class = "recall/near-minimum-length/" + mode + "/" + strings.Fields(k.Variant)[0] + "/" + enum.InputDigest(base)
			c.Add(fmt.Sprintf("near_minimum_length_misses/min%d-%.2f/bg%d/L+%d", k.MinLen, k.MinId, k.BgT, k.L-k.MinLen), 1)
		}
		c.Fail(class, k, "repeat of length %d (identity %.3f, min length %d, min identity %.2f) planted at target %v / query %v (strand coordinates) is not recovered; hits %+v", k.L, identity, k.MinLen, k.MinId, pt, pq, hits)
	}
}

func run(c *enum.Ctx) {
	pals.MaxKmerLen = 8
	c.Rule("fixed backgrounds generated from constants (xorshift with constant seeds; 2 pair backgrounds of 1500/1300 letters, thorough 4 incl. one low-complexity; self: one sequence of 1700); (minHitLen,minId) in {(30,0.9),(50,0.9),(50,0.94),(80,0.85)} as accepted by Optimise with MaxKmerLen lowered to 8; a repeat of length L in {minHitLen+1, +2, +5, +10, 1.5 minHitLen, 3 minHitLen} planted at target positions {0, three interior, end} x 40 consecutive query positions (one full tube period) plus both query ends; variants: exact, a substitution at every third position, 2 and 3 substitutions, a deletion and an insertion of length 1-2 at every tenth position, reverse-complemented copies (complement-strand search), self comparison (also under the permissive settings (80,0.8),(100,0.8),(150,0.85) on sequences of 2000/3500 (5000) letters, where the filter is noisy next to the main diagonal, and at 64 consecutive sequence lengths = every position of the tube grid relative to the main diagonal); settings (400,0.94), (400,0.9), (600,0.8), (900,0.9), (1000,0.9), (1200,0.9) on 7000/4500 letters; a minimum identity of 0 (minimum lengths 60 and 100) with repeats of 87.5 %, 92 % and 95 % identity; targets of 2^k-1, 2^k, 2^k+1 (also 3*2^k, 10^j-1, 10^j, 10^j+1, 5*10^j) letters (k=11..14) and of 6000, 11000, 20000 letters with a comfortable repeat at the start, near it, in the middle and at the end; a query longer than the target (900 vs 1500) with copies before, around and beyond the length of the target; every reverse-complement case and every exact/sub2/sub3 case again as the second Align call on an aligner value that has already searched the other strand (both result sets judged), after a second, rejected Optimise(12, 0.5), through AlignFrom(Trapezoids()) after Align, after a first set-up and use for a minimum length four times as large, with index and settings taken over by Share from an aligner that searched another query, and on an aligner that searched both strands while its query object held other letters, overwritten in place afterwards, and through AlignFrom seeded with the trapezoids a Logger took from Trapezoids() when told they were merged (quick: alternating); soundness oracle on EVERY hit of every run; recall oracle for identity >= minId+0.05 and a core (the repeat without edits so close to an end that leaving them out scores at least as well: substitutions with < 5, indels of b with < 3b+2 letters beyond them) longer than minHitLen in both sequences; a hit must overlap half of the core in both; non-trivial = every run (each contains a planted repeat)")
	c.Assume("pals.MaxKmerLen is lowered to 8 by the harness (small index)", "identity comfortably above the threshold = at least 0.05 above")
	work := os.Getenv("VERIF_WORK")
	if work == "" {
		work = os.TempDir()
	}
	type ps struct {
		minLen int
		minId  float64
	}
	pss := []ps{{30, 0.9}, {50, 0.9}, {50, 0.94}, {80, 0.85}}
	var cases []kase
	bgs := [][2]int{{1, 2}}
	if !c.Quick {
		bgs = append(bgs, [2]int{3, 4}, [2]int{5, 9})
	}
	const lenT, lenQ = 1500, 1300
	for _, bg := range bgs {
		for _, p := range pss {
			for _, L := range []int{p.minLen + 1, p.minLen + 2, p.minLen + 5, p.minLen + 10, p.minLen * 3 / 2, p.minLen * 3} {
				var variants []string
				variants = append(variants, "exact", "sub2", "sub3")
				for x := 0; x < L; x += 3 {
					variants = append(variants, fmt.Sprintf("sub %d", x))
				}
				for x := 10; x < L-2; x += 10 {
					for n := 1; n <= 2; n++ {
						variants = append(variants, fmt.Sprintf("del %d %d", x, n), fmt.Sprintf("ins %d %d", x, n))
					}
				}
				t0s := []int{0, 411, 700, 1013, lenT - L}
				var q0s []int
				for q := 600; q < 640; q++ {
					q0s = append(q0s, q)
				}
				q0s = append(q0s, 0, 1, lenQ-L-2, lenQ-L-3)
				for _, t0 := range t0s {
					for qi, q0 := range q0s {
						for vi, v := range variants {
							// thin the product: every variant at 4 query phases, every query phase with 4 variants
							if c.Quick && !(qi%10 == vi%10 || vi < 3) {
								continue
							}
							if !c.Quick && !(qi%4 == vi%4 || vi < 3) {
								continue
							}
							cases = append(cases, kase{BgT: bg[0], BgQ: bg[1], LenT: lenT, LenQ: lenQ, MinLen: p.minLen, MinId: p.minId, L: L, T0: t0, Q0: q0, Variant: v})
							if vi < 3 || (vi+qi)%7 == 0 {
								cases = append(cases, kase{BgT: bg[0], BgQ: bg[1], LenT: lenT, LenQ: lenQ, MinLen: p.minLen, MinId: p.minId, L: L, T0: t0, Q0: q0, Variant: v, Rev: true})
							}
						}
					}
				}
				// one target copy, two query copies (duplicate suppression must keep both)
				if L >= p.minLen*3/2 {
					for _, t0 := range []int{411, lenT - L} {
						for _, q0 := range []int{100, 333} {
							for _, q1 := range []int{q0 + L + 37, 900} {
								for _, v := range []string{"exact", "sub2", fmt.Sprintf("sub %d", L/3)} {
									for _, rev := range []bool{false, true} {
										cases = append(cases, kase{BgT: bg[0], BgQ: bg[1], LenT: lenT, LenQ: lenQ, MinLen: p.minLen, MinId: p.minId, L: L, T0: t0, Q0: q0, Q1: q1, Variant: v, Rev: rev})
									}
								}
							}
						}
					}
				}
				// length boundary: one side of the repeat just below, the other just above the minimum hit length
				if L == p.minLen+10 {
					for _, bl := range []int{p.minLen - 2, p.minLen - 1, p.minLen, p.minLen + 1, p.minLen + 2} {
						for _, v := range []string{"exact", fmt.Sprintf("ins %d 2", bl/2), fmt.Sprintf("ins %d 1", bl/3), fmt.Sprintf("del %d 2", bl/2), fmt.Sprintf("del %d 1", 2*bl/3)} {
							for _, t0 := range []int{0, 700, lenT - bl} {
								for _, q0 := range []int{0, 611, 623, lenQ - bl - 3} {
									cases = append(cases, kase{BgT: bg[0], BgQ: bg[1], LenT: lenT, LenQ: lenQ, MinLen: p.minLen, MinId: p.minId, L: bl, T0: t0, Q0: q0, Variant: v})
								}
							}
						}
					}
				}
				// self comparison: the copy lies to the right of the original
				for _, t0 := range []int{0, 300} {
					for q0 := 900; q0 < 940; q0 += 3 {
						for _, v := range variants[:3] {
							cases = append(cases, kase{BgT: bg[0], LenT: 1700, MinLen: p.minLen, MinId: p.minId, L: L, T0: t0, Q0: q0, Variant: v, Self: true})
							cases = append(cases, kase{BgT: bg[0], LenT: 1700, MinLen: p.minLen, MinId: p.minId, L: L, T0: t0, Q0: q0, Variant: v, Self: true, Rev: true})
						}
					}
				}
			}
		}
	}
	// the query longer than the target, the copy beyond the target's length in the query (in the
	// complemented query for reverse copies: near the start of the forward query)
	for _, p := range pss {
		L := p.minLen * 3 / 2
		for _, t0 := range []int{0, 411, 900 - L} {
			for _, q0 := range []int{3, 450, 950, 1200, 1500 - L - 2} {
				for _, v := range []string{"exact", "sub2"} {
					for _, rev := range []bool{false, true} {
						cases = append(cases, kase{BgT: 1, BgQ: 2, LenT: 900, LenQ: 1500, MinLen: p.minLen, MinId: p.minId, L: L, T0: t0, Q0: q0, Variant: v, Rev: rev})
					}
				}
			}
		}
	}
	// self comparison under permissive settings (noisy filter: chance hits in the tubes next to the
	// main diagonal), where the trivial self match must still not be reported
	selfLens := []int{2000, 3500}
	selfBgs := []int{1, 3}
	if !c.Quick {
		selfLens = append(selfLens, 5000)
		selfBgs = append(selfBgs, 5, 7)
	}
	for _, p := range []ps{{80, 0.8}, {100, 0.8}, {150, 0.85}} {
		for _, bg := range selfBgs {
			for _, n := range selfLens {
				L := p.minLen + 50
				for _, t0 := range []int{100, 500} {
					for _, q0 := range []int{n/2 + 200, n - L - 7} {
						for _, v := range []string{"exact", "sub3"} {
							for _, rev := range []bool{false, true} {
								cases = append(cases, kase{BgT: bg, LenT: n, MinLen: p.minLen, MinId: p.minId, L: L, T0: t0, Q0: q0, Variant: v, Self: true, Rev: rev})
							}
						}
					}
				}
			}
		}
	}
	// ... at every residue of the sequence length modulo the tube offset (the tube grid is anchored at the
	// end of the target, so the length decides which tube touches the main diagonal)
	for _, p := range []ps{{80, 0.8}, {100, 0.8}, {150, 0.85}, {50, 0.9}} {
		for _, bg := range selfBgs {
			for n := 2000; n < 2064; n++ {
				if c.Quick && bg != selfBgs[0] && n%4 != 0 {
					continue
				}
				L := p.minLen + 50
				cases = append(cases, kase{BgT: bg, LenT: n, MinLen: p.minLen, MinId: p.minId, L: L, T0: 300, Q0: 1200, Variant: "exact", Self: true})
			}
		}
	}
	// long targets (the quantifier's 2-20 kb backgrounds; the size ladder of the tube array): 2^k-1, 2^k,
	// 2^k+1 letters for k = 11..14, and 6000, 11000, 20000; a comfortable repeat at the start, near the start,
	// in the middle and at the very end of the target
	for _, lt := range append(enum.Ladder(2047, 16385), 6000, 11000, 20000) {
		for pi, p := range pss {
			L := 3 * p.minLen
			for _, t0 := range []int{0, 97, lt / 2, lt - L} {
				for _, v := range []string{"exact", "sub3"} {
					cases = append(cases, kase{BgT: 11, BgQ: 2, LenT: lt, LenQ: lenQ, MinLen: p.minLen, MinId: p.minId, L: L, T0: t0, Q0: 600 + 7*pi, Variant: v})
				}
				cases = append(cases, kase{BgT: 11, BgQ: 2, LenT: lt, LenQ: lenQ, MinLen: p.minLen, MinId: p.minId, L: L, T0: t0, Q0: 611, Variant: "exact", Rev: true})
			}
		}
	}
	// settings in the hundreds and thousands (the program's own default is 400 / 0.94): error budgets
	// minLen*(1-minId) of 24..120 letters, on a 7000-letter target and a 4500-letter query
	for _, p := range []struct {
		ml int
		id float64
	}{{400, 0.94}, {400, 0.9}, {600, 0.8}, {900, 0.9}, {1000, 0.9}, {1200, 0.9}} {
		for _, v := range []string{"exact", "subevery 20"} {
			for _, rev := range []bool{false, true} {
				cases = append(cases, kase{BgT: 11, BgQ: 2, LenT: 7000, LenQ: 4500, MinLen: p.ml, MinId: p.id, L: p.ml + p.ml/2, T0: 1000, Q0: 700, Variant: v, Rev: rev})
			}
		}
	}
	// the lower edge of the identity setting: a minimum identity of 0 is a setting like any other (a repeat
	// of 80-90 % identity is then "comfortably above" it)
	for _, ml := range []int{60, 100} {
		for _, t0 := range []int{0, 411, lenT - 3*ml} {
			for _, q0 := range []int{0, 601, 617} {
				vs := []string{"exact", "sub3", "subevery 8", "subevery 12", "subevery 20"}
				for _, v := range vs {
					cases = append(cases, kase{BgT: 1, BgQ: 2, LenT: lenT, LenQ: lenQ, MinLen: ml, MinId: 0, L: 3 * ml, T0: t0, Q0: q0, Variant: v})
				}
			}
		}
	}
	// the same searches as the second call on an aligner value that has already searched the other strand
	for _, k := range cases[:len(cases):len(cases)] {
		if k.Rev || k.Variant == "exact" || k.Variant == "sub2" || k.Variant == "sub3" {
			k.Order = 1
			cases = append(cases, k)
		}
	}
	// ... after a rejected re-optimisation, and through AlignFrom seeded with the trapezoids of Align
	// (quick: alternating over the exact / three-substitution cases)
	n23 := 0
	for _, k := range cases[:len(cases):len(cases)] {
		if k.Order != 0 || !(k.Variant == "exact" || k.Variant == "sub3" || k.Rev) {
			continue
		}
		n23++
		for _, o := range []int{2, 3, 4, 5, 6, 7} {
			if c.Quick && n23%4 != o%4 && !(o == 6 && n23%4 == 1 && k.Rev) {
				continue
			}
			if (o == 4 || o == 6) && k.Self {
				continue
			}
			k.Order = o
			cases = append(cases, k)
		}
	}
	c.Set("cases", len(cases))
	enum.Parallel(64, func(sh int) {
		m, err := morass.New(filter.Hit{}, "c15", work, 1<<18, false)
		if err != nil {
			panic(err)
		}
		defer m.CleanUp()
		r := &runner{m}
		nt := enum.NontrivialSet{}
		for i := sh; i < len(cases); i += 64 {
			c.Doing(sh, cases[i])
			c.Eval()
			check(c, r, cases[i])
			nt.AddH(enum.Hash64(enum.J(cases[i])))
			if i%20011 == 5 {
				c.Sample(cases[i])
			}
		}
		c.Merge(nt)
	})
}

func main() {
	enum.Main("C15", "exploration", run, func(c *enum.Ctx, in json.RawMessage) {
		pals.MaxKmerLen = 8
		var k kase
		if err := json.Unmarshal(in, &k); err != nil {
			panic(err)
		}
		fmt.Printf("case %s\n", enum.J(k))
		m, err := morass.New(filter.Hit{}, "c15", os.TempDir(), 1<<18, false)
		if err != nil {
			panic(err)
		}
		defer m.CleanUp()
		check(c, &runner{m}, k)
	})
}
