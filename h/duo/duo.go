// Package duo holds the "two goroutines, unrelated objects" drivers: for a property of a sequential
// part of the library, two threads each perform the property's operations on objects of their own,
// under the controlled scheduler, with the whole package (and what it depends on) instrumented for the
// vector-clock race oracle.  Unrelated objects share nothing a caller can see; whatever the code shares
// behind their backs (a scratch buffer hoisted to package level, a cache, a table filled on demand)
// shows as a data race on every schedule, or as a result that differs from the one the same body gives
// when it runs alone.
package duo

import (
	"bytes"
	"fmt"
	"io"
	"sort"
	"strings"
	"time"

	"github.com/biogo/biogo/align"
	"github.com/biogo/biogo/align/pals"
	"github.com/biogo/biogo/align/pals/filter"
	"github.com/biogo/biogo/alphabet"
	"github.com/biogo/biogo/feat"
	"github.com/biogo/biogo/feat/gene"
	"github.com/biogo/biogo/index/kmerindex"
	"github.com/biogo/biogo/io/featio/bed"
	"github.com/biogo/biogo/io/featio/gff"
	"github.com/biogo/biogo/io/seqio/fasta"
	"github.com/biogo/biogo/io/seqio/fastq"
	"github.com/biogo/biogo/morass"
	"github.com/biogo/biogo/seq"
	"github.com/biogo/biogo/seq/alignment"
	"github.com/biogo/biogo/seq/linear"
	"github.com/biogo/biogo/seq/multi"
	"github.com/biogo/biogo/seq/quality"
	"github.com/biogo/biogo/seq/sequtils"
	"github.com/biogo/biogo/verifrt/vrt"
	"verif/h/conc"
	"verif/h/featgen"
	"verif/h/seqgen"
)

// A Body is what each of the two threads does: which is 0 or 1 (the two work on different data), the
// result is a rendering of everything the thread observed.
type Body struct {
	Prop  string
	Name  string
	Do    func(which int) string
	Heavy bool // thousands of recorded accesses or many file operations per call: explored without preemptions
}

func letters(s string) alphabet.Letters { return alphabet.BytesToLetters([]byte(s)) }

func qletters(s string, q0 int) alphabet.QLetters {
	out := make(alphabet.QLetters, len(s))
	for i := range s {
		out[i] = alphabet.QLetter{L: alphabet.Letter(s[i]), Q: alphabet.Qphred(q0 + i%30)}
	}
	return out
}

var words = [2]string{"acgtacggtcaatg", "ttgacagattacaggatcc"}

func show(s seq.Sequence) string {
	var b strings.Builder
	fmt.Fprintf(&b, "%s[%d,%d)", s.Name(), s.Start(), s.End())
	for i := s.Start(); i < s.End(); i++ {
		l := s.At(i)
		fmt.Fprintf(&b, "%c%d", l.L, l.Q)
	}
	return b.String()
}

type place struct {
	name string
	s, e int
	o    feat.Orientation
	loc  feat.Feature
}

func (p *place) Start() int                    { return p.s }
func (p *place) End() int                      { return p.e }
func (p *place) Len() int                      { return p.e - p.s }
func (p *place) Name() string                  { return p.name }
func (p *place) Description() string           { return "" }
func (p *place) Location() feat.Feature        { return p.loc }
func (p *place) Orientation() feat.Orientation { return p.o }

type fset []feat.Feature

func (f fset) Features() []feat.Feature { return f }

type qfeat struct {
	off int
	e   []float64
}

func (q *qfeat) Start() int             { return q.off }
func (q *qfeat) End() int               { return q.off + len(q.e) }
func (q *qfeat) Len() int               { return len(q.e) }
func (q *qfeat) Name() string           { return "" }
func (q *qfeat) Description() string    { return "" }
func (q *qfeat) Location() feat.Feature { return nil }
func (q *qfeat) EAt(i int) float64      { return q.e[i-q.off] }

type hitElem = filter.Hit

func posOf(f feat.Feature) string {
	p, ref := feat.BasePositionOf(f, 0)
	return fmt.Sprint("@", p, ref != nil)
}

// Bodies lists every body, by property.
func Bodies() []Body {
	var bs []Body
	add := func(prop, name string, do func(which int) string) {
		bs = append(bs, Body{prop, name, do, prop == "C11" || prop == "C14" || prop == "C15"})
	}

	// ---- sequence I/O (C01, C04; FASTA also with a line longer than the read buffer)
	seqio := func(format string) func(int) string {
		return func(which int) string {
			recs := []seqgen.Rec{{Name: fmt.Sprint("r", which), Desc: "d e", Letters: words[which]}, {Name: "long", Letters: seqgen.Fill("acgtn", 4200+which)}}
			var text []byte
			var err error
			var got []seqgen.Rec
			if format == "fasta" {
				if text, err = seqgen.WriteFasta(recs, false, false, 5000-which*4940); err == nil {
					got, _, err = seqgen.ReadAll(fasta.NewReader(bytes.NewReader(text), seqgen.Template(false, false, alphabet.Sanger)), false, 5)
				}
			} else {
				for i := range recs {
					recs[i].Quals = make([]int, len(recs[i].Letters))
					for j := range recs[i].Quals {
						recs[i].Quals[j] = (j + which) % 40
					}
				}
				if text, err = seqgen.WriteFastq(recs, true, alphabet.Sanger, which == 1); err == nil {
					got, _, err = seqgen.ReadAll(fastq.NewReader(bytes.NewReader(text), seqgen.Template(true, false, alphabet.Sanger)), true, 5)
				}
			}
			return fmt.Sprint(len(text), err, seqgen.Same(got, recs, format == "fastq"))
		}
	}
	for _, p := range []string{"C01", "C04"} {
		add(p, "fasta", seqio("fasta"))
		add(p, "fastq", seqio("fastq"))
	}
	// ---- feature I/O (C02, C03, C04)
	featio := func(which int) string {
		b := featgen.Bed{Chrom: "c", Start: 1 + which, End: 9, Name: "n", Score: 3, Strand: 1, ThickStart: 2, ThickEnd: 8, RGB: [4]int{1, 2, 3, 255}, BlockSizes: []int{1, 2 + which}, BlockStarts: []int{0, 5}}
		text, err := featgen.WriteBed([]featgen.Bed{b, b}, 12, 12)
		r, _ := bed.NewReader(bytes.NewReader(append(text, []byte("c\tx\t9\n")...)), 12)
		fs, _, err2 := featgen.ReadFeatures(r, 5)
		out := fmt.Sprint(string(text), err, len(fs), err2)
		for _, f := range fs {
			out += featgen.BedString(f, 12)
		}
		g := featgen.Gff{Kind: "feature", SeqName: "s", Source: "p", Feature: "f", Start: 2 + which, End: 5, Frame: -1, Attrs: []featgen.Attr{{"ID", "x"}}, Comments: "c d"}
		sq := featgen.Gff{Kind: "seq", SeqName: "s1", Moltype: "DNA", Letters: words[which]}
		gt, err := featgen.WriteGff([]featgen.Gff{g, sq, g}, 3, false)
		gs, _, err3 := featgen.ReadFeatures(gff.NewReader(bytes.NewReader(gt)), 6)
		out += fmt.Sprint(string(gt), err, len(gs), err3)
		for _, f := range gs {
			out += featgen.GffString(f)
		}
		return out
	}
	for _, p := range []string{"C02", "C03", "C04"} {
		add(p, "bed-gff", featio)
	}
	// ---- C05: Clone / RevComp of every container
	add("C05", "clone-revcomp", func(which int) string {
		w := words[which]
		var out []string
		l := linear.NewSeq("l", letters(w), alphabet.DNA)
		lq := linear.NewQSeq("lq", qletters(w, 5+which), alphabet.DNA, alphabet.Sanger)
		a, _ := alignment.NewSeq("a", []string{"r0", "r1"}, [][]alphabet.Letter{letters(w[:2]), letters(w[2:4]), letters(w[4:6])}, alphabet.DNA, seq.DefaultConsensus)
		aq, _ := alignment.NewQSeq("aq", []string{"r0", "r1"}, [][]alphabet.QLetter{qletters(w[:2], 3), qletters(w[2:4], 9)}, alphabet.DNA, alphabet.Sanger, seq.DefaultQConsensus)
		m, _ := multi.NewMulti("m", []seq.Sequence{l.Clone(), lq.Clone(), linear.NewSeq("o", letters(w[2:7]), alphabet.DNA)}, seq.DefaultConsensus)
		rows := func(x interface{}) {
			if rg, ok := x.(seq.Rower); ok {
				for i := 0; i < rg.Rows(); i++ {
					out = append(out, show(rg.Row(i)), show(rg.Row(i).Clone().(seq.Sequence)))
				}
			} else {
				out = append(out, show(x.(seq.Sequence)))
			}
		}
		for _, s := range []interface{ RevComp() }{l, lq, a, aq, m} {
			var c interface{ RevComp() }
			switch t := s.(type) {
			case interface{ Clone() seq.Sequence }:
				c = t.Clone().(interface{ RevComp() })
			case interface{ Clone() seq.Rower }:
				c = t.Clone().(interface{ RevComp() })
			}
			c.RevComp()
			s.RevComp()
			s.RevComp()
			rows(c)
			rows(s)
		}
		return strings.Join(out, " ")
	})
	// ---- C06: sequtils
	add("C06", "sequtils", func(which int) string {
		w := words[which]
		var out []string
		for _, q := range []bool{false, true} {
			mk := func(s string) interface {
				seq.Sequence
				sequtils.Sliceable
			} {
				if q {
					return linear.NewQSeq("s", qletters(s, 7+which), alphabet.DNAredundant, alphabet.Sanger)
				}
				return linear.NewSeq("s", letters(s), alphabet.DNAredundant)
			}
			src := mk(w)
			src.SetOffset(2)
			dst := mk("")
			out = append(out, fmt.Sprint(sequtils.Truncate(dst, src, 4, 9+which)), show(dst))
			j := mk(w[:4])
			out = append(out, fmt.Sprint(sequtils.Join(j, mk(w[5:9]), seq.End)), show(j))
			fs := fset{&place{s: 3, e: 6, o: feat.Reverse}, &place{s: 8, e: 11 + which, o: feat.Forward}, &place{s: 2, e: 4, o: feat.Reverse}}
			st := mk("")
			out = append(out, fmt.Sprint(sequtils.Stitch(st, src, fs)), show(st))
			cp := mk("")
			out = append(out, fmt.Sprint(sequtils.Compose(cp, src, fs)), show(cp))
			out = append(out, show(src))
		}
		e := []float64{0.5, 0.01, 0.02, 0.5, 0.01, 0.3, 0.6}
		s, en := sequtils.Trim(&qfeat{off: 1 + which, e: e[which:]}, 0.1)
		out = append(out, fmt.Sprint(s, en))
		return strings.Join(out, " ")
	})
	// ---- C07: multi / alignment edits
	add("C07", "append-columns", func(which int) string {
		w := words[which]
		var out []string
		m, _ := multi.NewMulti("m", []seq.Sequence{linear.NewSeq("a", letters(w[:3]), alphabet.DNAgapped), linear.NewQSeq("b", qletters(w[3:5], 4), alphabet.DNAgapped, alphabet.Sanger)}, seq.DefaultConsensus)
		m.Flush(seq.End, '-')
		cols := [][]alphabet.QLetter{qletters(w[5:7], 9), qletters(w[7:9], 11)}
		out = append(out, fmt.Sprint(m.AppendColumns(cols...)))
		out = append(out, fmt.Sprint(m.AppendEach([][]alphabet.QLetter{qletters(w[9:12], 2), qletters(w[1:2], 3)})))
		m.Add(linear.NewSeq("c", letters(w[2:5]), alphabet.DNAgapped))
		for p := m.Start(); p < m.End(); p++ {
			out = append(out, string(alphabet.LettersToBytes(m.Column(p, true))), fmt.Sprint(m.ColumnQL(p, true)))
		}
		a, _ := alignment.NewSeq("a", []string{"r0", "r1"}, [][]alphabet.Letter{letters(w[:2]), letters(w[2:4])}, alphabet.DNAgapped, seq.DefaultConsensus)
		out = append(out, fmt.Sprint(a.AppendColumns(cols...)), fmt.Sprint(a.AppendEach([][]alphabet.QLetter{qletters(w[4:6], 2), qletters(w[6:8], 3)})))
		for i := 0; i < a.Rows(); i++ {
			out = append(out, show(a.Row(i)))
		}
		for i := 0; i < m.Rows(); i++ {
			out = append(out, show(m.Row(i)))
		}
		c := m.Clone().(*multi.Multi)
		c.Delete(0)
		out = append(out, fmt.Sprint(c.Rows(), m.Rows()), show(m.Consensus(true)))
		return strings.Join(out, " ")
	})
	// ---- C08 / C09: the six aligners
	al := alphabet.DNAgapped
	mat := func(which int) [][]int {
		return [][]int{
			{0, -1, -1 - which, -1, -2},
			{-1, 2, -1, -3, -1},
			{-2, -1, 2 + which, -1, -3},
			{-1, -3, -1, 2, -1},
			{-1, -1, -3, -1, 3},
		}
	}
	aligners := map[string]func(which int) align.Aligner{
		"NW":           func(w int) align.Aligner { return align.NW(mat(w)) },
		"SW":           func(w int) align.Aligner { return align.SW(mat(w)) },
		"Fitted":       func(w int) align.Aligner { return align.Fitted(mat(w)) },
		"NWAffine":     func(w int) align.Aligner { return align.NWAffine{Matrix: mat(w), GapOpen: -2} },
		"SWAffine":     func(w int) align.Aligner { return align.SWAffine{Matrix: mat(w), GapOpen: -2} },
		"FittedAffine": func(w int) align.Aligner { return align.FittedAffine{Matrix: mat(w), GapOpen: -1} },
	}
	var anames []string
	for n := range aligners {
		anames = append(anames, n)
	}
	sort.Strings(anames)
	for _, n := range anames {
		mk := aligners[n]
		body := func(which int) string {
			r := linear.NewSeq("r", letters(words[which]), al)
			q := linear.NewSeq("q", letters(words[1-which][2:11]), al)
			var out []string
			for _, quality := range []bool{false, true} {
				var ps []feat.Pair
				var err error
				if quality {
					ps, err = mk(which).Align(linear.NewQSeq("r", qletters(words[which], 3), al, alphabet.Sanger), linear.NewQSeq("q", qletters(words[1-which][2:11], 3), al, alphabet.Sanger))
				} else {
					ps, err = mk(which).Align(r, q)
				}
				out = append(out, fmt.Sprint(ps, err))
				if err == nil && !quality {
					out = append(out, fmt.Sprint(align.Format(r, q, ps, '-')))
				}
			}
			return strings.Join(out, " ")
		}
		add("C08", "align-"+n, body)
		add("C09", "align-"+n, body)
	}
	// ---- C10: k-mer index
	add("C10", "kmerindex", func(which int) string {
		s := linear.NewSeq("s", letters(words[which]+"n"+words[1-which]), alphabet.DNA)
		ki, err := kmerindex.New(3, s)
		if err != nil {
			return err.Error()
		}
		f1, _ := ki.KmerFrequencies()
		ki.Build()
		var out []string
		out = append(out, fmt.Sprint(len(f1), ki.K()))
		for _, w := range []string{"acg", "tac", "gat", "ttt"} {
			ps, err := ki.KmerPositionsString(w)
			out = append(out, fmt.Sprint(ps, err))
		}
		n := 0
		ki.ForEachKmerOf(linear.NewSeq("o", letters(words[which]), alphabet.DNA), 1, 12, func(_ *kmerindex.Index, _, _ int) { n++ })
		pm, _ := ki.KmerIndex()
		out = append(out, fmt.Sprint(n, len(pm)))
		return strings.Join(out, " ")
	})
	// ---- C11: two sorters (sequential mode), each spilling
	add("C11", "two-sorters", func(which int) string {
		m, err := morass.New(hitElem{}, "duo", "", 2, false)
		if err != nil {
			return err.Error()
		}
		defer m.CleanUp()
		for v := 5 + which; v >= 1; v-- {
			if err := m.Push(hitElem{From: v, To: v + which, Diagonal: -v}); err != nil {
				return err.Error()
			}
		}
		if err := m.Finalise(); err != nil {
			return err.Error()
		}
		var out []string
		for {
			var h hitElem
			err := m.Pull(&h)
			if err == io.EOF {
				break
			}
			if err != nil {
				return err.Error()
			}
			if out = append(out, fmt.Sprint(h)); len(out) > 9 {
				break
			}
		}
		return strings.Join(out, " ")
	})
	// ---- C14 / C15: filter and PALS on sequences with a planted repeat
	bg := func(id, n int) string {
		x := uint64(0x9E3779B97F4A7C15) * uint64(id*2+1)
		b := make([]byte, n)
		for i := range b {
			x ^= x << 13
			x ^= x >> 7
			x ^= x << 17
			b[i] = "acgt"[x>>62]
		}
		return string(b)
	}
	add("C14", "filter", func(which int) string {
		tgt := bg(1+which, 300)
		qry := bg(5+which, 120) + tgt[100:180] + bg(9, 60)
		t := linear.NewSeq("t", letters(tgt), alphabet.DNA)
		q := linear.NewSeq("q", letters(qry), alphabet.DNA)
		ki, err := kmerindex.New(6, t)
		if err != nil {
			return err.Error()
		}
		ki.Build()
		m, err := morass.New(filter.Hit{}, "duo", "", 1<<16, false)
		if err != nil {
			return err.Error()
		}
		defer m.CleanUp()
		f := filter.New(ki, &filter.Params{WordSize: 6, MinMatch: 50, MaxError: 2, TubeOffset: 16})
		if err := f.Filter(q, false, false, m); err != nil {
			return err.Error()
		}
		if err := m.Finalise(); err != nil {
			return err.Error()
		}
		var out []string
		for {
			var h filter.Hit
			if err := m.Pull(&h); err != nil {
				out = append(out, err.Error())
				break
			}
			out = append(out, fmt.Sprint(h))
		}
		return strings.Join(out, " ")
	})
	add("C15", "pals", func(which int) string {
		tgt := bg(11+which, 400)
		qry := bg(15+which, 150) + tgt[120:230] + bg(19, 80)
		t := linear.NewSeq("t", letters(tgt), alphabet.DNA)
		q := linear.NewSeq("q", letters(qry), alphabet.DNA)
		m, err := morass.New(filter.Hit{}, "duo", "", 1<<16, false)
		if err != nil {
			return err.Error()
		}
		defer m.CleanUp()
		p := pals.New(t, q, false, m, 0, nil, nil)
		pals.MaxKmerLen = 8
		if err := p.Optimise(50, 0.9); err != nil {
			return err.Error()
		}
		if err := p.BuildIndex(); err != nil {
			return err.Error()
		}
		var out []string
		for _, comp := range []bool{false, true} {
			hs, err := p.Align(comp)
			out = append(out, fmt.Sprint(len(hs), err))
			for _, h := range hs {
				out = append(out, fmt.Sprint(h))
			}
		}
		return strings.Join(out, " ")
	})
	// ---- C16: piler
	add("C16", "piler", func(which int) string {
		p := pals.NewPiler(0)
		mk := func(id string, s, e int, l string) *pals.Feature {
			return &pals.Feature{ID: id, From: s, To: e, Loc: pals.Contig(l)}
		}
		var feats []*pals.Feature
		for i, d := range [][6]int{{0, 10, 0, 50, 60, 1}, {5, 15, 0, 70, 80, 1}, {30, 40, 0, 52, 58, 1}, {0, 10, 1, 20, 30 + which, 1}} {
			a, b := mk(fmt.Sprint("a", i), d[0], d[1], "AB"[d[2]:d[2]+1]), mk(fmt.Sprint("b", i), d[3], d[4], "AB"[d[5]:d[5]+1])
			fp := &pals.Pair{A: a, B: b, Score: i}
			a.Pair, b.Pair = fp, fp
			if err := p.Add(fp); err != nil {
				return err.Error()
			}
			feats = append(feats, a, b)
		}
		piles := p.Piles(nil)
		var out []string
		for _, pl := range piles {
			out = append(out, fmt.Sprint(pl.Loc, pl.From, pl.To, len(pl.Images)))
		}
		sort.Strings(out)
		for _, f := range feats {
			pl, _ := f.Location().(*pals.Pile)
			if pl != nil {
				out = append(out, fmt.Sprint(f.ID, pl.From, pl.To))
			}
		}
		return strings.Join(out, " ")
	})
	// ---- C17: alphabets
	add("C17", "alphabets", func(which int) string {
		var out []string
		def := []string{"acgt", "tgca"}[which]
		a, err := alphabet.NewAlphabet(def, feat.DNA, '-', 'n', which == 1)
		out = append(out, fmt.Sprint(err))
		if err == nil {
			for _, l := range []byte("aAtT-n") {
				out = append(out, fmt.Sprint(a.IndexOf(alphabet.Letter(l)), a.IsValid(alphabet.Letter(l))))
			}
			out = append(out, fmt.Sprint(a.AllValid(letters(words[which]))))
		}
		pr, err := alphabet.NewPairing("acgtACGT", "tgcaTGCA")
		out = append(out, fmt.Sprint(err))
		if err == nil {
			cm, err := alphabet.NewComplementor(def, feat.DNA, pr, '-', 'n', false)
			out = append(out, fmt.Sprint(err))
			if err == nil {
				tab := cm.ComplementTable()
				for _, l := range []byte("acgtACGTx") {
					c, ok := cm.Complement(alphabet.Letter(l))
					out = append(out, fmt.Sprint(c, ok, tab[l]))
				}
			}
		}
		for _, b := range []alphabet.Complementor{alphabet.DNA, alphabet.RNA, alphabet.DNAredundant, alphabet.RNAgapped} {
			tab := b.ComplementTable()
			for _, l := range []byte("acgunrX-") {
				c, ok := b.Complement(alphabet.Letter(l))
				out = append(out, fmt.Sprint(c, ok, tab[l], b.IndexOf(alphabet.Letter(l))))
			}
		}
		return strings.Join(out, " ")
	})
	// ---- C18: quality scores
	add("C18", "quality", func(which int) string {
		var out []string
		for v := which; v < 100; v += 7 {
			for e := alphabet.Sanger; e <= alphabet.Illumina1_9; e++ {
				b := alphabet.Qphred(v).Encode(e)
				out = append(out, fmt.Sprint(b, e.DecodeToQphred(b), alphabet.Qphred(v).ProbE(), alphabet.Qphred(v).Qsolexa(), alphabet.Qsolexa(v-40).Qphred()))
			}
			out = append(out, fmt.Sprint(alphabet.Ephred(alphabet.Qphred(v).ProbE()), alphabet.Esolexa(alphabet.Qsolexa(v-40).ProbE())))
		}
		p := quality.NewPhred("p", []alphabet.Qphred{alphabet.Qphred(3 + which), 40, 7}, alphabet.Sanger)
		out = append(out, fmt.Sprint(p.QEncode(0), p.EAt(1), p.String()))
		p.SetEncoding(alphabet.Illumina1_3)
		c := p.Copy().(*quality.Phred)
		c.SetE(2, 0.001)
		c.Reverse()
		out = append(out, fmt.Sprint(p.QEncode(0), c.QEncode(0), p.String(), c.String()))
		s := quality.NewSolexa("s", []alphabet.Qsolexa{alphabet.Qsolexa(-3 + which), 30}, alphabet.Solexa)
		out = append(out, fmt.Sprint(s.QEncode(0), s.EAt(1), s.String()))
		q := linear.NewQSeq("q", qletters(words[which], 2), alphabet.DNA, alphabet.Sanger)
		out = append(out, fmt.Sprintf("%q", q))
		return strings.Join(out, " ")
	})
	// ---- C20: gene models
	add("C20", "gene", func(which int) string {
		chrom := &place{name: "chr", s: 0, e: 1000, o: feat.Forward}
		g := &gene.Gene{ID: "g", Chrom: chrom, Offset: 100 + which, Orient: feat.Reverse}
		ct := &gene.CodingTranscript{ID: "t", Loc: g, Offset: 10, Orient: feat.Forward, CDSstart: 25, CDSend: 70}
		var t gene.Transcript = ct
		var ex []gene.Exon
		for _, d := range [][2]int{{40, 20}, {0, 30}, {60 + which, 15}, {80, 20}} {
			ex = append(ex, gene.Exon{Transcript: t, Offset: d[0], Length: d[1], Desc: fmt.Sprint("e", d[0])})
		}
		var out []string
		out = append(out, fmt.Sprint(t.SetExons(ex...)))
		for _, e := range t.Exons() {
			out = append(out, fmt.Sprint(e.Start(), e.End())+posOf(e))
		}
		for _, in := range t.Introns() {
			out = append(out, fmt.Sprint(in.Start(), in.End()))
		}
		if u := ct.UTR5(); u != nil {
			out = append(out, fmt.Sprint(u.Start(), u.End()))
		}
		if u := ct.UTR3(); u != nil {
			out = append(out, fmt.Sprint(u.Start(), u.End()))
		}
		out = append(out, fmt.Sprint(ct.Start(), ct.End(), ct.Orientation(), ct.UTR5start(), ct.UTR3end()))
		return strings.Join(out, " ")
	})
	return bs
}

// Drivers returns one E1 driver per body: the two threads, the race / panic / deadlock oracle of the
// engine, and the comparison of each thread's result with the result the body gives when run alone.
func Drivers(quick bool) []conc.Driver {
	var ds []conc.Driver
	for _, b := range Bodies() {
		b := b
		var ref [2]string
		var refDone bool
		cfg := vrt.Config{PreemptBound: -1, Budget: 60 * time.Second, Horizon: 200000}
		if !quick {
			cfg.Budget = 5 * time.Minute
		}
		if b.Heavy {
			// the race oracle does not depend on the interleaving (it compares clocks, not positions in the
			// trace); what the bound gives up is other orders of the few lock and file operations
			cfg.PreemptBound = 0
			if !quick {
				cfg.PreemptBound = 1
			}
		}
		if b.Prop == "C15" {
			cfg.Canonical = true // a whole search takes seconds under the hooks: one schedule
		}
		ds = append(ds, conc.Driver{Name: "duo/" + b.Prop + "/" + b.Name, Cfg: cfg, Fallback: []int{0, 1, 2}, Mk: func() vrt.Run {
			if !refDone {
				// outside any exploration (the explorer asks for the first run before it starts one)
				ref[0], ref[1] = b.Do(0), b.Do(1)
				refDone = true
			}
			var got [2]string
			return vrt.Run{Body: func() {
				h0 := vrt.Go(func() { got[0] = b.Do(0) })
				h1 := vrt.Go(func() { got[1] = b.Do(1) })
				vrt.Join(h0)
				vrt.Join(h1)
			}, Verdict: func(r *vrt.Result) (string, string, string) {
				sig := fmt.Sprint(got[0] == ref[0], got[1] == ref[1])
				switch {
				case len(r.Panics) > 0:
					return "two-goroutines/panic", strings.Join(r.Panics, "; "), sig
				case len(r.Races) > 0:
					return "two-goroutines/race", "two goroutines working on unrelated objects: " + strings.Join(r.Races, "; "), sig
				case r.Outcome != "ok":
					return "two-goroutines/" + r.Outcome, strings.Join(r.Blocked, "; "), sig
				}
				for i := range got {
					if got[i] != ref[i] {
						return "two-goroutines/result", fmt.Sprintf("goroutine %d observed %.300q, alone the same calls give %.300q", i, got[i], ref[i]), sig
					}
				}
				return "", "", sig
			}}
		}})
	}
	return ds
}
