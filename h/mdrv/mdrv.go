// Package mdrv holds the closed drivers of the external sorter used by the
// E1 checks C12 (schedules) and C13 (faults x schedules).
package mdrv

import (
	"fmt"
	"github.com/biogo/biogo/align/pals/filter"
	"io"
	"os"
	"path/filepath"
	"sort"
	"strings"

	"github.com/biogo/biogo/morass"
	"github.com/biogo/biogo/verifrt/vrt"
)

type IV int

func (a IV) Less(b interface{}) bool { return a < b.(IV) }

// SV is a struct element: the key orders, the other fields are zero for some keys.
type SV struct {
	K   int
	Tag string
	N   int
}

func (a SV) Less(b interface{}) bool { return a.K < b.(SV).K }

func sv(v int) SV {
	e := SV{K: v}
	if v%2 == 1 {
		e.Tag = fmt.Sprint("t", v)
	}
	e.N = v % 3
	return e
}

// hv is the hit element for key v: the library's own element type (what pals sorts with a Morass), with a
// diagonal that is negative for some keys and large for others.
func hv(v int) filter.Hit {
	h := filter.Hit{From: v, To: v + 7, Diagonal: 3 - 2*v}
	if v%4 == 0 {
		h.Diagonal = 1<<40 + v
	}
	return h
}

// TV and FV are further element types: a process may sort values of several types.
type TV string

func (a TV) Less(b interface{}) bool { return a < b.(TV) }

type FV float64

func (a FV) Less(b interface{}) bool { return a < b.(FV) }

// Keyed is embedded by function-local element types (which cannot have methods of their own): two
// such types, declared in two functions under the same name, are different types with the same name.
type Keyed struct{ K int }

func (a Keyed) key() int                { return a.K }
func (a Keyed) Less(b interface{}) bool { return a.K < b.(interface{ key() int }).key() }

type localOps struct {
	proto interface{}
	mk    func(v int) morass.LessInterface
	pull  func(m *morass.Morass) (int, bool, error)
}

func localOne() localOps {
	type rec struct {
		Keyed
		Score int
	}
	return localOps{rec{}, func(v int) morass.LessInterface { return rec{Keyed{v}, v * v} },
		func(m *morass.Morass) (int, bool, error) {
			var x rec
			err := m.Pull(&x)
			return x.K, x.Score == x.K*x.K, err
		}}
}

func localTwo() localOps {
	type rec struct {
		Keyed
		From, To int
	}
	return localOps{rec{}, func(v int) morass.LessInterface { return rec{Keyed{v}, v, v + 1} },
		func(m *morass.Morass) (int, bool, error) {
			var x rec
			err := m.Pull(&x)
			return x.K, x.From == x.K && x.To == x.K+1, err
		}}
}

// Warm registers the element type with gob once, outside any exploration, so
// that every explored execution takes the same path through morass.register.
func Warm() {
	for _, proto := range []interface{}{IV(0), SV{}, TV(""), FV(0), filter.Hit{}, localOne().proto, localTwo().proto} {
		if m, err := morass.New(proto, "warm", "", 1, false); err == nil {
			m.CleanUp()
		}
	}
}

type call struct {
	cycle int
	name  string
	err   error
	start int
	end   int
}

// Sorter is one closed scenario: cycles[i] values are pushed in cycle i
// (descending, so that sorting matters), then Finalise, pull to EOF, Clear
// between cycles, CleanUp at the end.
type Scenario struct {
	Chunk      int
	Concurrent bool
	Cycles     []int
	Faults     bool // C13: errors are expected when a fault was injected
	Continue   bool // after a failing call the cycle is abandoned, the sorter cleared and the next cycle run (C13: a failure in a later cycle must surface as well)
	Abandon    bool // the first cycle is given up after its pushes: Clear without Finalise or Pull, then the next cycle
	Twice      bool // Finalise is called a second time before the first Pull (a no-op on a finalised sorter)
	Ties       bool // every key is pushed twice (values that tie under Less)
	Local      bool // elements of a function-local type that shares its name with another function's local type (both used in the process)
	Hit        bool // elements of the library's own filter.Hit type (negative and large diagonals)
	Struct     bool // struct elements some of whose fields are zero for some values (an encoding that omits zero fields)
	AutoClear  bool // the sorter clears itself when a drain reaches io.EOF; no explicit Clear between cycles
	Residue    bool // C13: the sorter lives in a directory of its own; after a last cycle that was drained to io.EOF under AutoClear no run file may be left, whatever failed before
	After      int  // > 0: another sorter with this (larger) chunk size is used for one in-memory cycle and cleaned up first
}

func (s Scenario) Name() string {
	mode := "seq"
	if s.Concurrent {
		mode = "conc"
	}
	cs := make([]string, len(s.Cycles))
	for i, c := range s.Cycles {
		cs[i] = fmt.Sprint(c)
	}
	after := ""
	if s.After > 0 {
		after = fmt.Sprintf("-after%d", s.After)
	}
	if s.Continue {
		after += "-continue"
	}
	if s.AutoClear {
		after += "-autoclear"
	}
	if s.Residue {
		after += "-residue"
	}
	if s.Abandon {
		after += "-abandon"
	}
	if s.Struct {
		after += "-struct"
	}
	if s.Hit {
		after += "-hit"
	}
	if s.Local {
		after += "-localtype"
	}
	if s.Twice {
		after += "-finalise2"
	}
	if s.Ties {
		after += "-ties"
	}
	return fmt.Sprintf("sort-%s-chunk%d-push%s%s", mode, s.Chunk, strings.Join(cs, "+"), after)
}

func Bad(r *vrt.Result) (string, string) {
	switch {
	case len(r.Panics) > 0:
		return "panic", strings.Join(r.Panics, "; ")
	case len(r.Races) > 0:
		return "race", strings.Join(r.Races, "; ")
	case r.Outcome == "deadlock":
		return "deadlock", strings.Join(r.Blocked, "; ")
	case r.Outcome == "leak":
		return "writer-left-running", strings.Join(r.Blocked, "; ")
	case r.Outcome == "horizon":
		return "livelock", fmt.Sprintf("the execution does not end within the step horizon (%d scheduling steps): the calls never return", len(r.Trace))
	}
	return "", ""
}

func callList(cs []call) string {
	var b strings.Builder
	for _, c := range cs {
		fmt.Fprintf(&b, "%d:%s", c.cycle, c.name)
		if c.err != nil && c.err != io.EOF {
			b.WriteString("!")
		}
		b.WriteByte(' ')
	}
	return b.String()
}

// Mk builds a fresh run of the scenario.
func (s Scenario) Mk() vrt.Run {
	var calls []call
	var pulled [][]int
	var pushed [][]int
	var newErr error
	residue := -1
	cycle := 0
	do := func(name string, f func() error) error {
		c := call{cycle: cycle, name: name, start: vrt.Now()}
		c.err = f()
		c.end = vrt.Now()
		calls = append(calls, c)
		return c.err
	}
	return vrt.Run{Body: func() {
		if s.After > 0 {
			// an unrelated sorter lived before this one: whatever it leaves behind in the package
			// (buffers, registrations) must not change what the sorter under test does
			o, err := morass.New(IV(0), "vrt", "", s.After, s.Concurrent)
			if err != nil {
				newErr = err
				return
			}
			var v IV
			if o.Push(IV(7)) != nil || o.Finalise() != nil || o.Pull(&v) != nil || o.Pull(&v) != io.EOF || o.CleanUp() != nil {
				newErr = fmt.Errorf("the preceding sorter failed")
				return
			}
		}
		parent := ""
		if s.Residue {
			parent, _ = os.MkdirTemp("", "mdrv-residue")
			defer os.RemoveAll(parent)
		}
		var proto interface{} = IV(0)
		if s.Struct {
			proto = SV{}
		}
		if s.Hit {
			proto = filter.Hit{}
		}
		lo := localTwo()
		if s.Local {
			proto = lo.proto
		}
		m, err := morass.New(proto, "vrt", parent, s.Chunk, s.Concurrent)
		if err != nil {
			newErr = err
			return
		}
		defer m.CleanUp()
		m.AutoClear = s.AutoClear
		base := 0
		corrupt := func(v SV) bool { return v != sv(v.K) } // a struct element came back with another's fields
		// one cycle; false when a call failed
		run := func(ci, n int) bool {
			for i := n; i > 0; i-- {
				v := base + i
				if s.Ties {
					v = base + i/2 // keys in pairs that fall into one chunk of two (ties within a run and across runs)
				}
				if do("Push", func() error {
					if s.Local {
						return m.Push(lo.mk(v))
					}
					if s.Hit {
						return m.Push(hv(v))
					}
					if s.Struct {
						return m.Push(sv(v))
					}
					return m.Push(IV(v))
				}) != nil {
					return false
				}
				pushed[ci] = append(pushed[ci], v)
			}
			if s.Abandon && ci == 0 {
				// the load is given up: no Finalise, no Pull; what was pushed must not come back later
				pushed[ci] = nil
				return true
			}
			if do("Finalise", func() error { return m.Finalise() }) != nil {
				return false
			}
			if s.Twice && do("Finalise", func() error { return m.Finalise() }) != nil {
				return false
			}
			for {
				var v IV
				var w SV
				var h filter.Hit
				localKey, localOK := 0, true
				err := do("Pull", func() (err error) {
					if s.Local {
						localKey, localOK, err = lo.pull(m)
						return err
					}
					if s.Hit {
						return m.Pull(&h)
					}
					if s.Struct {
						return m.Pull(&w)
					}
					return m.Pull(&v)
				})
				if err == io.EOF {
					return true
				}
				if err != nil {
					return false
				}
				if s.Local {
					if v = IV(localKey); !localOK {
						v = IV(-1000 - localKey)
					}
				}
				if s.Hit {
					if v = IV(h.From); h != hv(h.From) {
						v = IV(-1000 - h.From) // a hit came back with other fields: shows as a wrong value
					}
				}
				if s.Struct {
					v = IV(w.K)
					if corrupt(w) {
						v = IV(-1000 - w.K) // shows as a wrong value
					}
				}
				pulled[ci] = append(pulled[ci], int(v))
				if len(pulled[ci]) > n+2 {
					return false
				}
			}
		}
		for ci, n := range s.Cycles {
			cycle = ci
			pushed = append(pushed, nil)
			pulled = append(pulled, nil)
			ok := run(ci, n)
			base += 10
			if !ok && !s.Continue {
				return
			}
			if ok && s.Residue && s.AutoClear && ci == len(s.Cycles)-1 {
				// drained to io.EOF with AutoClear set: no run file is left, whatever happened in earlier cycles
				residue = 0
				if ds, err := os.ReadDir(parent); err == nil {
					for _, d := range ds {
						fs, _ := os.ReadDir(filepath.Join(parent, d.Name()))
						residue += len(fs)
					}
				}
			}
			if ci < len(s.Cycles)-1 && !(s.AutoClear && ok) {
				if do("Clear", func() error { return m.Clear() }) != nil {
					return
				}
			}
		}
	}, Verdict: func(r *vrt.Result) (string, string, string) {
		var firstErr *call
		for i := range calls {
			if calls[i].err != nil && calls[i].err != io.EOF {
				firstErr = &calls[i]
				break
			}
		}
		sig := fmt.Sprint(pulled)
		if firstErr != nil {
			sig += " err@" + firstErr.name
		}
		if r.Faults > 0 {
			sig += fmt.Sprintf(" fault@%s", r.Trace[r.FaultSteps[0]].Op)
		}
		if cl, msg := Bad(r); cl != "" {
			return cl, msg + " pulled=" + sig, sig
		}
		if newErr != nil {
			return "", "", "new-failed"
		}
		if residue > 0 {
			return "residue/autoclear-files-left", fmt.Sprintf("the last cycle was drained to io.EOF with AutoClear set but %d run file(s) remain in the sorter's directory (calls: %s)", residue, callList(calls)), sig
		}
		if s.Continue {
			// per cycle: a fault injected while the cycle's calls were running must surface in that cycle;
			// a cycle whose calls all succeeded delivers exactly its values
			for ci := range pushed {
				first, last, failed := -1, -1, false
				for _, c := range calls {
					if c.cycle != ci || c.name == "Clear" {
						continue
					}
					if first < 0 {
						first = c.start
					}
					last = c.end
					if c.err != nil && c.err != io.EOF {
						failed = true
					}
				}
				for _, fs := range r.FaultSteps {
					if first >= 0 && fs >= first && fs < last && !failed {
						f := r.Trace[fs]
						return "fault-hidden/" + f.Op, fmt.Sprintf("cycle %d: injected fault at step %d (%s) but every Push/Finalise/Pull of the cycle returned success; pulled=%v pushed=%v", ci, fs, f, pulled, pushed), sig
					}
				}
				if !failed {
					want := append([]int(nil), pushed[ci]...)
					sort.Ints(want)
					if fmt.Sprint(want) != fmt.Sprint(pulled[ci]) && first >= 0 {
						return "wrong-values", fmt.Sprintf("every call of cycle %d succeeded but it pulled %v, want %v", ci, pulled[ci], want), sig
					}
				}
			}
			return "", "", sig
		}
		lastEnd := 0
		if len(calls) > 0 {
			lastEnd = calls[len(calls)-1].end
		}
		if r.Faults > 0 {
			// clause 1: a fault that happened before the last API call returned must surface
			if firstErr == nil && r.FaultSteps[0] < lastEnd {
				f := r.Trace[r.FaultSteps[0]]
				return "fault-hidden/" + f.Op, fmt.Sprintf("injected fault at step %d (%s) but every Push/Finalise/Pull returned success; pulled=%v pushed=%v", r.FaultSteps[0], f, pulled, pushed), sig
			}
		} else if firstErr != nil && firstErr.name != "Clear" {
			return "unexpected-error/" + firstErr.name, fmt.Sprintf("%s returned %v although no I/O fault was injected; pulled=%v", firstErr.name, firstErr.err, pulled), sig
		}
		if firstErr == nil {
			// clause 2: success throughout => exactly the sorted pushed values
			for ci := range pushed {
				want := append([]int(nil), pushed[ci]...)
				sort.Ints(want)
				if fmt.Sprint(want) != fmt.Sprint(pulled[ci]) {
					return "wrong-values", fmt.Sprintf("every call succeeded but cycle %d pulled %v, want %v", ci, pulled[ci], want), sig
				}
			}
		}
		return "", "", sig
	}}
}
