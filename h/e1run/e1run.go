// Package e1run runs the drivers of an E1 binary (one child process each, protocol: <bin> --child <driver>
// <tier>, one JSON record on the last line of standard output) and folds their reports into a check's
// context.  It does not import the scheduler, so a binary that is built without the instrumentation
// overlay can use it to run one that is.
package e1run

import (
	"encoding/json"
	"fmt"
	"os"
	"os/exec"
	"sort"
	"strings"
	"sync"
	"time"

	"verif/h/enum"
)

// Stats mirrors vrt.Stats as the children print it.
type Stats struct {
	Executions  int64
	Transitions int64
	States      int64
	Cuts        int64
	Skipped     int64
	MaxDepth    int
	Outcomes    map[string]int64
	Exhaustive  bool
	Why         string
	BoundUsed   string
	Foreign     int64
	Samples     [][]string
	MaxThreads  int
}

func (s *Stats) OutcomeList() []string {
	var out []string
	for k, v := range s.Outcomes {
		out = append(out, fmt.Sprintf("%s x%d", k, v))
	}
	sort.Strings(out)
	return out
}

func (s *Stats) String() string {
	if s == nil {
		return "no statistics"
	}
	return fmt.Sprintf("executions=%d transitions=%d states=%d cuts=%d skipped=%d maxdepth=%d exhaustive=%v bound=%s outcomes=[%s]",
		s.Executions, s.Transitions, s.States, s.Cuts, s.Skipped, s.MaxDepth, s.Exhaustive, s.BoundUsed, strings.Join(s.OutcomeList(), "; "))
}

type Violation struct {
	Class   string
	Msg     string
	Choices []int
	Trace   []string
}

type ChildOut struct {
	SymCheck   string      `json:"symmetry_cross_check,omitempty"`
	Name       string      `json:"name"`
	Stats      *Stats      `json:"stats"`
	Completed  string      `json:"completed_bound"`
	Violations []Violation `json:"violations"`
}

type ReplayIn struct {
	Driver  string   `json:"driver"`
	Choices []int    `json:"choices"`
	Trace   []string `json:"trace"`
}

// RunDrivers explores the named drivers of the E1 binary bin, one child process each, and folds what they
// report into c; returns the per-driver summary for the evidence.
func RunDrivers(c *enum.Ctx, bin string, names []string) map[string]interface{} {
	outs := make([]ChildOut, len(names))
	errs := make([]error, len(names))
	var mu sync.Mutex
	enum.Parallel(len(names), func(i int) {
		t0 := time.Now()
		cmd := exec.Command(bin, "--child", names[i], c.Tier)
		cmd.Stderr = os.Stderr
		data, err := cmd.Output()
		if err == nil {
			// the child may print infrastructure lines before the JSON
			lines := strings.Split(strings.TrimSpace(string(data)), "\n")
			err = json.Unmarshal([]byte(lines[len(lines)-1]), &outs[i])
			for _, l := range lines[:len(lines)-1] {
				fmt.Println("  ["+names[i]+"]", l)
			}
		}
		errs[i] = err
		mu.Lock()
		if err == nil {
			fmt.Printf("  driver %-28s %s completed=%s (%.1fs)\n", names[i], outs[i].Stats.String(), outs[i].Completed, time.Since(t0).Seconds())
		} else {
			fmt.Printf("  driver %-28s INFRASTRUCTURE ERROR %v\n", names[i], err)
		}
		mu.Unlock()
	})
	per := map[string]interface{}{}
	for i, o := range outs {
		if errs[i] != nil {
			c.NotExhaustive(fmt.Sprintf("driver %s: child failed: %v", names[i], errs[i]))
			continue
		}
		st := o.Stats
		c.EvalN(st.Executions)
		c.MC(st.States, st.Transitions, st.Executions)
		for k := range st.Outcomes {
			c.Nontrivial(o.Name + "|" + k)
		}
		if !st.Exhaustive {
			c.NotExhaustive(fmt.Sprintf("driver %s: %s; completed bound: %s", o.Name, st.Why, o.Completed))
		}
		if st.Foreign > 0 {
			c.Note("driver %s: %d operations from uncontrolled goroutines passed through", o.Name, st.Foreign)
		}
		if len(st.Outcomes) == 1 && st.Executions > 50 {
			c.Note("driver %s: one outcome from %d executions (nothing collided?)", o.Name, st.Executions)
		}
		per[o.Name] = map[string]interface{}{"executions": st.Executions, "states": st.States, "transitions": st.Transitions, "cuts": st.Cuts,
			"max_depth": st.MaxDepth, "threads": st.MaxThreads, "outcomes": st.OutcomeList(), "exhaustive": st.Exhaustive, "bound": o.Completed, "symmetry_cross_check": o.SymCheck}
		if len(st.Samples) > 0 {
			c.Sample(map[string]interface{}{"driver": o.Name, "schedule": st.Samples[0]})
		}
		for _, v := range o.Violations {
			c.Fail(v.Class, ReplayIn{Driver: o.Name, Choices: v.Choices, Trace: v.Trace}, "driver %s: %s\n    schedule: %s", o.Name, v.Msg, strings.Join(v.Trace, "\n              "))
		}
	}
	return per
}
