// Self-check of the controlled scheduler on toy programs with known answers.
package conc

import (
	"fmt"
	"sort"
	"strings"
	"sync"
	"time"
	"unsafe"

	"github.com/biogo/biogo/verifrt/vrt"
)

type toy struct {
	name string
	mk   func() vrt.Run
	want []string // expected set of outcome signatures (sorted)
	viol string   // expected violation class ("" none)
}

func sig(r *vrt.Result, extra string) string {
	s := r.Outcome
	if len(r.Panics) > 0 {
		s += "+panic"
	}
	if len(r.Races) > 0 {
		s += "+race"
	}
	return s + ":" + extra
}

func verdict(get func() string) func(r *vrt.Result) (string, string, string) {
	return func(r *vrt.Result) (string, string, string) {
		o := sig(r, get())
		class := ""
		if r.Outcome != "ok" || len(r.Panics) > 0 || len(r.Races) > 0 {
			class = strings.SplitN(o, ":", 2)[0]
		}
		return class, o + " " + strings.Join(r.Blocked, ",") + strings.Join(r.Panics, ",") + strings.Join(r.Races, ","), o
	}
}

func lostUpdate(locked bool) func() vrt.Run {
	return func() vrt.Run {
		var c int
		var mu sync.Mutex
		inc := func() {
			if locked {
				vrt.MutexLock(&mu)
			}
			vrt.Atomic(&c) // the shared cell is an observed object: load
			v := c
			vrt.Atomic(&c) // store
			c = v + 1
			if locked {
				vrt.MutexUnlock(&mu)
			}
		}
		return vrt.Run{Body: func() {
			a := vrt.Go(inc)
			b := vrt.Go(inc)
			vrt.Join(a)
			vrt.Join(b)
		}, Verdict: verdict(func() string { return fmt.Sprint(c) })}
	}
}

// leaky keeps state between executions in a package-level variable, as a buffer cache in the code under
// test would: only the first execution of a process takes the extra steps of "allocating", so a replay
// in the same process takes another course; and only an execution that starts from the fresh state can
// lose the update.
var leakyWarm int

func leaky() vrt.Run {
	var c int
	cold := false
	inc := func() {
		vrt.Atomic(&c)
		v := c
		if cold {
			vrt.Atomic(&c) // a step only the cold path has
			vrt.Atomic(&c)
			c = v + 1
		} else {
			c = v + 1
		}
	}
	return vrt.Run{Body: func() {
		cold = leakyWarm == 0
		leakyWarm++
		a := vrt.Go(inc)
		b := vrt.Go(inc)
		vrt.Join(a)
		vrt.Join(b)
	}, Verdict: func(r *vrt.Result) (string, string, string) {
		o := sig(r, fmt.Sprint(c))
		if c != 2 {
			return "lost-update", o, o
		}
		return "", o, o
	}}
}

// unlockUnlocked: one of two threads unlocks a mutex it never locked when it runs first; the real call
// would be a fatal error that ends the process, under the scheduler it must be a panic verdict.
func unlockUnlocked() vrt.Run {
	var mu sync.Mutex
	return vrt.Run{Body: func() {
		a := vrt.Go(func() {
			vrt.MutexLock(&mu)
			vrt.MutexUnlock(&mu)
		})
		b := vrt.Go(func() {
			defer vrt.MutexUnlock(&mu) // the Lock this belongs to was "tidied away"
		})
		vrt.Join(a)
		vrt.Join(b)
	}, Verdict: verdict(func() string { return "" })}
}

// onceOutlives: a sync.Once that lives longer than one execution (a package-level table built on first
// use): it fires in the first execution of the process only, every later execution finds it done.
var (
	outlivingOnce  sync.Once
	outlivingTable int
)

func onceOutlives() vrt.Run {
	got := [2]int{}
	use := func(i int) func() {
		return func() {
			vrt.OnceDo(&outlivingOnce, func() { outlivingTable = 7 })
			got[i] = outlivingTable
		}
	}
	return vrt.Run{Body: func() {
		a := vrt.Go(use(0))
		b := vrt.Go(use(1))
		vrt.Join(a)
		vrt.Join(b)
	}, Verdict: verdict(func() string { return fmt.Sprint(got) })}
}

func abba(ordered bool) func() vrt.Run {
	return func() vrt.Run {
		var a, b sync.Mutex
		return vrt.Run{Body: func() {
			t1 := vrt.Go(func() {
				vrt.MutexLock(&a)
				vrt.MutexLock(&b)
				vrt.MutexUnlock(&b)
				vrt.MutexUnlock(&a)
			})
			t2 := vrt.Go(func() {
				if ordered {
					vrt.MutexLock(&a)
					vrt.MutexLock(&b)
					vrt.MutexUnlock(&b)
					vrt.MutexUnlock(&a)
				} else {
					vrt.MutexLock(&b)
					vrt.MutexLock(&a)
					vrt.MutexUnlock(&a)
					vrt.MutexUnlock(&b)
				}
			})
			vrt.Join(t1)
			vrt.Join(t2)
		}, Verdict: verdict(func() string { return "" })}
	}
}

func doubleClose(guard bool) func() vrt.Run {
	return func() vrt.Run {
		ch := make(chan int)
		var once sync.Once
		cl := func() {
			if guard {
				vrt.OnceDo(&once, func() { vrt.Close(ch) })
			} else {
				vrt.Close(ch)
			}
		}
		return vrt.Run{Body: func() {
			a := vrt.Go(cl)
			b := vrt.Go(cl)
			vrt.Join(a)
			vrt.Join(b)
		}, Verdict: verdict(func() string { return "" })}
	}
}

func missedRendezvous(blocking bool) func() vrt.Run {
	return func() vrt.Run {
		ch := make(chan int)
		got := -1
		return vrt.Run{Body: func() {
			s := vrt.Go(func() {
				if blocking {
					vrt.Send(ch, 7)
					return
				}
				switch vrt.Select(true, vrt.CaseSend(ch)) {
				case 0:
					ch <- 7
				default:
				}
			})
			vrt.Yield()
			vrt.Recv(ch)
			got = <-ch
			vrt.Join(s)
		}, Verdict: verdict(func() string { return fmt.Sprint(got) })}
	}
}

// condReaders: two listeners wait on a sync.Cond whose Locker is the read side of an RWMutex; the
// setter takes the write side.  With the flag they always finish; a listener that waits without
// looking at the flag misses a broadcast that came first.
func condReaders(flag bool) func() vrt.Run {
	return func() vrt.Run {
		var rw sync.RWMutex
		c := sync.NewCond(rw.RLocker())
		ready := false
		listen := func() {
			vrt.RWRLock(&rw)
			if flag {
				for !ready {
					vrt.CondWait(c)
				}
			} else {
				vrt.CondWait(c)
			}
			vrt.RWRUnlock(&rw)
		}
		return vrt.Run{Body: func() {
			a, b := vrt.Go(listen), vrt.Go(listen)
			vrt.RWLock(&rw)
			ready = true
			vrt.RWUnlock(&rw)
			vrt.CondBroadcast(c)
			vrt.Join(a)
			vrt.Join(b)
		}, Verdict: verdict(func() string { return "" })}
	}
}

// pooled: a sync.Pool under the scheduler is a stack that never drops; a second thread's Put may or
// may not come before the first Get.
func pooled() vrt.Run {
	var p sync.Pool
	p.New = func() interface{} { return 0 }
	got := ""
	return vrt.Run{Body: func() {
		a := vrt.Go(func() { vrt.PoolPut(&p, 7) })
		vrt.PoolPut(&p, 1)
		got = fmt.Sprint(vrt.PoolGet(&p), vrt.PoolGet(&p))
		vrt.Join(a)
	}, Verdict: verdict(func() string { return got })}
}

func racy(synced bool) func() vrt.Run {
	return func() vrt.Run {
		var x int
		var mu sync.Mutex
		w := func() {
			if synced {
				vrt.MutexLock(&mu)
			}
			vrt.Wr(unsafe.Pointer(&x), "toy.go:1")
			x++
			if synced {
				vrt.MutexUnlock(&mu)
			}
		}
		return vrt.Run{Body: func() {
			a := vrt.Go(w)
			b := vrt.Go(w)
			vrt.Join(a)
			vrt.Join(b)
		}, Verdict: verdict(func() string { return fmt.Sprint(x) })}
	}
}

func pipeline() vrt.Run {
	ch := make(chan int, 2)
	var wg sync.WaitGroup
	var got []int
	return vrt.Run{Body: func() {
		vrt.WGAdd(&wg, 2)
		vrt.Go(func() {
			for i := 0; i < 3; i++ {
				vrt.Send(ch, i)
			}
			vrt.Close(ch)
			vrt.WGDone(&wg)
		})
		vrt.Go(func() {
			for {
				vrt.Recv(ch)
				v, ok := <-ch
				if !ok {
					break
				}
				vrt.Wr(unsafe.Pointer(&got), "toy.go:2")
				got = append(got, v)
			}
			vrt.WGDone(&wg)
		})
		vrt.WGWait(&wg)
		vrt.Rd(unsafe.Pointer(&got), "toy.go:3")
	}, Verdict: verdict(func() string { return fmt.Sprint(got) })}
}

// independent: two threads of n and m private steps; interleavings without the
// cache are C(n+m+2, n+1) (each thread has n (m) yields plus its begin), and the
// cache must collapse the diamond to (n+2)(m+2) distinct states of the pair.
func independent(n, m int) func() vrt.Run {
	return func() vrt.Run {
		return vrt.Run{Body: func() {
			a := vrt.Go(func() {
				for i := 0; i < n; i++ {
					vrt.Yield()
				}
			})
			b := vrt.Go(func() {
				for i := 0; i < m; i++ {
					vrt.Yield()
				}
			})
			vrt.Join(a)
			vrt.Join(b)
		}, Verdict: verdict(func() string { return "" })}
	}
}

// symWorkers: w interchangeable workers (GoSym) take tokens from a queue and record them:
// with `locked` under a mutex (every arrival order of the tokens is an outcome), without it by a
// load / store pair on a counter (lost updates).  The outcome sets must not depend on Config.Symmetry.
func symWorkers(w int, locked bool) func() vrt.Run {
	return func() vrt.Run {
		q := make(chan int, w)
		var mu sync.Mutex
		var order []int
		var c int
		return vrt.Run{Body: func() {
			for i := 0; i < w; i++ {
				vrt.Send(q, i+1)
			}
			var tok vrt.SymTok
			var wg sync.WaitGroup
			for i := 0; i < w; i++ {
				vrt.WGAdd(&wg, 1)
				vrt.GoSym(&tok, func() {
					vrt.Recv(q)
					v := <-q
					if locked {
						vrt.MutexLock(&mu)
						order = append(order, v)
						vrt.MutexUnlock(&mu)
					} else {
						vrt.Atomic(&c)
						x := c
						vrt.Atomic(&c)
						c = x + v
					}
					vrt.WGDone(&wg)
				})
			}
			vrt.WGWait(&wg)
		}, Verdict: verdict(func() string { return fmt.Sprint(order, c) })}
	}
}

// symBroken: the second worker is spawned from the same site and loop, but only after the parent
// has heard from the first one (an acquire): the two are not interchangeable - the first worker's
// write to x is ordered before the second one's read only through the parent.  The class must be
// closed by the parent's receive, and the outcomes (no race) must be those found without symmetry.
func symBroken() vrt.Run {
	ch := make(chan int, 1)
	var x int
	got := -1
	return vrt.Run{Body: func() {
		var tok vrt.SymTok
		var hs []vrt.Handle
		for i := 0; i < 2; i++ {
			i := i
			hs = append(hs, vrt.GoSym(&tok, func() {
				if i == 0 {
					vrt.Wr(unsafe.Pointer(&x), "toy.go:4")
					x = 5
					vrt.Send(ch, 1)
				} else {
					vrt.Rd(unsafe.Pointer(&x), "toy.go:5")
					got = x
				}
			}))
			if i == 0 {
				vrt.Recv(ch)
				<-ch
			}
		}
		vrt.Join(hs[0])
		vrt.Join(hs[1])
	}, Verdict: verdict(func() string { return fmt.Sprint(got) })}
}

func outcomes(st *vrt.Stats) []string {
	var o []string
	for k := range st.Outcomes {
		o = append(o, k[strings.Index(k, "|")+1:])
	}
	sort.Strings(o)
	return o
}

func SelfCheck() (ok bool, report []string) {
	toys := []toy{
		{"lost-update", lostUpdate(false), []string{"ok:1", "ok:2"}, ""},
		{"lost-update-locked", lostUpdate(true), []string{"ok:2"}, ""},
		{"abba", abba(false), []string{"deadlock:", "ok:"}, "deadlock"},
		{"abba-ordered", abba(true), []string{"ok:"}, ""},
		{"double-close", doubleClose(false), []string{"ok+panic+race:"}, "ok+panic+race"},
		{"double-close-once", doubleClose(true), []string{"ok:"}, ""},
		{"missed-rendezvous", missedRendezvous(false), []string{"deadlock:-1", "ok:7"}, "deadlock"},
		{"rendezvous", missedRendezvous(true), []string{"ok:7"}, ""},
		{"racy", racy(false), []string{"ok+race:2"}, "ok+race"},
		{"racy-locked", racy(true), []string{"ok:2"}, ""},
		{"pipeline", func() vrt.Run { return pipeline() }, []string{"ok:[0 1 2]"}, ""},
		{"pool", func() vrt.Run { return pooled() }, []string{"ok:1 0", "ok:1 7", "ok:7 1"}, ""},
		{"unlock-unlocked", func() vrt.Run { return unlockUnlocked() }, []string{"ok+panic:"}, "ok+panic"},
		{"once-outlives-execution", func() vrt.Run { return onceOutlives() }, []string{"ok:[7 7]"}, ""},
		{"cond-rlocker", condReaders(true), []string{"ok:"}, ""},
		{"cond-rlocker-lost-wakeup", condReaders(false), []string{"deadlock:", "ok:"}, "deadlock"},
	}
	ok = true
	for _, t := range toys {
		var execs [2]int64
		for i, nocache := range []bool{true, false} {
			e := vrt.NewExplorer(vrt.Config{PreemptBound: -1, NoCache: nocache})
			st := e.Explore(t.mk)
			got := outcomes(st)
			viol := ""
			if len(st.Violations) > 0 {
				viol = st.Violations[0].Class
			}
			good := strings.Join(got, ";") == strings.Join(t.want, ";") && st.Exhaustive && (viol != "") == (t.viol != "")
			execs[i] = st.Executions
			if !good {
				ok = false
				report = append(report, fmt.Sprintf("FAIL %s cache=%v outcomes=%v want=%v viol=%q why=%s", t.name, !nocache, got, t.want, viol, st.Why))
			}
		}
		report = append(report, fmt.Sprintf("%s: executions uncached=%d cached=%d", t.name, execs[0], execs[1]))
	}
	// symmetry reduction: same outcome sets with and without it, on toys whose workers are
	// interchangeable (fewer executions with it) and on one whose workers are not
	symToys := []toy{
		{"sym-3-locked", symWorkers(3, true), []string{"ok:[1 2 3] 0", "ok:[1 3 2] 0", "ok:[2 1 3] 0", "ok:[2 3 1] 0", "ok:[3 1 2] 0", "ok:[3 2 1] 0"}, ""},
		{"sym-3-lost-update", symWorkers(3, false), []string{"ok:[] 1", "ok:[] 2", "ok:[] 3", "ok:[] 4", "ok:[] 5", "ok:[] 6"}, ""},
		{"sym-2-lost-update", symWorkers(2, false), []string{"ok:[] 1", "ok:[] 2", "ok:[] 3"}, ""},
		{"sym-not-interchangeable", func() vrt.Run { return symBroken() }, []string{"ok:5"}, ""},
	}
	for _, t := range symToys {
		var execs [3]int64
		for i, cfg := range []vrt.Config{{PreemptBound: -1, NoCache: true}, {PreemptBound: -1}, {PreemptBound: -1, Symmetry: true}} {
			if cfg.NoCache && strings.HasPrefix(t.name, "sym-3") {
				continue // 23 k and 126 k executions: the cached run is the reference for these two
			}
			st := vrt.NewExplorer(cfg).Explore(t.mk)
			got := outcomes(st)
			execs[i] = st.Executions
			if strings.Join(got, ";") != strings.Join(t.want, ";") || !st.Exhaustive || len(st.Violations) > 0 {
				ok = false
				report = append(report, fmt.Sprintf("FAIL %s cache=%v symmetry=%v outcomes=%v want=%v violations=%d why=%s", t.name, !cfg.NoCache, cfg.Symmetry, got, t.want, len(st.Violations), st.Why))
			}
		}
		if strings.HasPrefix(t.name, "sym-3") && execs[2] >= execs[1] {
			ok = false
			report = append(report, fmt.Sprintf("FAIL %s: symmetry did not reduce executions (%d vs %d)", t.name, execs[2], execs[1]))
		}
		report = append(report, fmt.Sprintf("%s: executions uncached=%d cached=%d cached+symmetry=%d", t.name, execs[0], execs[1], execs[2]))
	}
	// bounded exploration with symmetry: every bound reports the outcomes the same bound reports without it
	for b := 0; b <= 3; b++ {
		a := vrt.NewExplorer(vrt.Config{PreemptBound: b}).Explore(symWorkers(3, false))
		s := vrt.NewExplorer(vrt.Config{PreemptBound: b, Symmetry: true}).Explore(symWorkers(3, false))
		if strings.Join(outcomes(a), ";") != strings.Join(outcomes(s), ";") {
			ok = false
			report = append(report, fmt.Sprintf("FAIL sym-3-lost-update bound %d: outcomes %v with symmetry, %v without", b, outcomes(s), outcomes(a)))
		}
		report = append(report, fmt.Sprintf("sym-3-lost-update preemptions<=%d: executions %d, with symmetry %d, outcomes %d", b, a.Executions, s.Executions, len(outcomes(a))))
	}
	// code that keeps package-level state: exploring it in one process must not report anything (a replay
	// takes another course), exploring it with a "process" per execution (here: the state reset before each)
	// must find the lost update that only the fresh state has
	{
		leakyWarm = 0
		shared := vrt.NewExplorer(vrt.Config{PreemptBound: -1, Quiet: true}).Explore(func() vrt.Run { return leaky() })
		iso := vrt.ExploreIsolated(func(prefix []int) vrt.One {
			leakyWarm = 0
			return vrt.NewExplorer(vrt.Config{PreemptBound: -1}).One(func() vrt.Run { return leaky() }, prefix)
		}, 2, 1, time.Minute)
		if len(shared.Violations) > 0 || shared.Exhaustive {
			ok = false
			report = append(report, fmt.Sprintf("FAIL leaky: exploration in one process reported violations=%d exhaustive=%v (%s)", len(shared.Violations), shared.Exhaustive, shared.Why))
		}
		if len(iso.Violations) != 1 || iso.Violations[0].Class != "lost-update" || !iso.Exhaustive || strings.Join(outcomes(iso), ";") != "ok:1;ok:2" {
			ok = false
			report = append(report, fmt.Sprintf("FAIL leaky: one process per execution: violations=%d exhaustive=%v outcomes=%v why=%s", len(iso.Violations), iso.Exhaustive, outcomes(iso), iso.Why))
		}
		report = append(report, fmt.Sprintf("leaky (package-level state): shared process: %s; one fresh state per execution: executions=%d violations=%d outcomes=%v", shared.Why, iso.Executions, len(iso.Violations), outcomes(iso)))
	}
	// independent steps: the uncached count is the number of interleavings of
	// (n+1) and (m+1) steps after both threads exist; checked against the closed form
	// relative to the smallest instance rather than absolutely (spawn/join points add a constant shape).
	for _, nm := range [][2]int{{2, 3}, {3, 3}} {
		e := vrt.NewExplorer(vrt.Config{PreemptBound: -1, NoCache: true})
		st := e.Explore(independent(nm[0], nm[1]))
		e2 := vrt.NewExplorer(vrt.Config{PreemptBound: -1})
		st2 := e2.Explore(independent(nm[0], nm[1]))
		if st2.Executions >= st.Executions || len(st.Violations)+len(st2.Violations) > 0 {
			ok = false
			report = append(report, fmt.Sprintf("FAIL independent%v: cache did not reduce executions (%d vs %d)", nm, st2.Executions, st.Executions))
		}
		report = append(report, fmt.Sprintf("independent%v: executions uncached=%d cached=%d states=%d", nm, st.Executions, st2.Executions, st2.States))
	}
	return ok, report
}
