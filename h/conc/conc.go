// Package conc runs E1 drivers: each driver is explored exhaustively in its own
// child process (the controlled scheduler is process-global); the parent merges
// the results into the evidence of the check.
package conc

import (
	"bytes"
	"encoding/json"
	"fmt"
	"os"
	"os/exec"
	"runtime"
	"strings"
	"time"

	"github.com/biogo/biogo/verifrt/vrt"
	"verif/h/e1run"
	"verif/h/enum"
)

// Driver is one closed scenario.
type Driver struct {
	Name string
	Cfg  vrt.Config
	Mk   func() vrt.Run
	// Fallback preemption bounds tried (in order) when the unbounded exploration
	// does not finish within Cfg.Budget.
	Fallback []int
}

type childOut struct {
	SymCheck   string          `json:"symmetry_cross_check,omitempty"`
	Name       string          `json:"name"`
	Stats      *vrt.Stats      `json:"stats"`
	Completed  string          `json:"completed_bound"`
	Violations []vrt.Violation `json:"violations"`
}

type replayIn struct {
	Driver  string   `json:"driver"`
	Choices []int    `json:"choices"`
	Trace   []string `json:"trace"`
}

func runChild(d Driver) childOut {
	e := vrt.NewExplorer(d.Cfg)
	st := e.Explore(d.Mk)
	out := childOut{Name: d.Name, Stats: st, Completed: "none(unbounded)"}
	if !st.Exhaustive && len(st.Violations) == 0 && strings.Contains(st.Why, "budget") {
		out.Completed = "nothing"
		deadline := time.Now().Add(d.Cfg.Budget) // the bounds share one further budget
		for _, b := range d.Fallback {
			cfg := d.Cfg
			cfg.PreemptBound = b
			if cfg.Budget = time.Until(deadline); cfg.Budget <= 0 {
				break
			}
			e2 := vrt.NewExplorer(cfg)
			st2 := e2.Explore(d.Mk)
			st.Executions += st2.Executions
			st.Transitions += st2.Transitions
			if st2.States > st.States {
				st.States = st2.States
			}
			for k, v := range st2.Outcomes {
				st.Outcomes[k] += v
			}
			st.Violations = append(st.Violations, st2.Violations...)
			if st2.Exhaustive {
				out.Completed = fmt.Sprintf("preemptions<=%d", b)
			} else {
				break
			}
			if len(st2.Violations) > 0 {
				break
			}
		}
	}
	// executions that share this process turned out not to be independent of each other (a replay took
	// another course): the code under test keeps state in package-level variables.  Nothing found this way
	// is believed; the driver is explored again with a process per execution, within a preemption bound.
	if !st.Exhaustive && len(st.Violations) == 0 && (strings.Contains(st.Why, "DIVERGENCE") || strings.Contains(st.Why, "did not replay identically")) {
		bound, tier := 1, "quick"
		if len(os.Args) >= 4 {
			tier = os.Args[3]
		}
		if tier != "quick" {
			bound = 2
		}
		budget := d.Cfg.Budget
		if budget <= 0 || budget > 3*time.Minute {
			budget = 3 * time.Minute
		}
		first := st.Why
		st2 := vrt.ExploreIsolated(func(prefix []int) vrt.One {
			cmd := exec.Command(os.Args[0], "--exec1", d.Name, tier)
			in, _ := json.Marshal(prefix)
			cmd.Stdin = bytes.NewReader(in)
			cmd.Stderr = nil
			b, err := cmd.Output()
			var o vrt.One
			if err != nil || json.Unmarshal(b, &o) != nil {
				o.Err = fmt.Sprintf("the process of one execution failed: %v", err)
			}
			return o
		}, bound, 4, budget)
		st.Executions += st2.Executions
		st.Transitions += st2.Transitions
		for k, v := range st2.Outcomes {
			st.Outcomes[k] += v
		}
		st.Violations = append(st.Violations, st2.Violations...)
		out.Completed = "nothing"
		if st2.Exhaustive {
			out.Completed = st2.BoundUsed
			st.Why = "executions sharing a process were not independent (" + first + "); explored with " + st2.BoundUsed
		} else {
			st.Why = "executions sharing a process were not independent (" + first + "); then: " + st2.Why
		}
	}
	out.Violations = st.Violations
	// symmetry reduction is cross-checked where that is affordable: the same driver explored without it
	// must show exactly the same set of observable outcomes
	if d.Cfg.Symmetry && st.Exhaustive && out.Completed == "none(unbounded)" && len(st.Violations) == 0 && st.Executions <= 30000 {
		cfg := d.Cfg
		cfg.Symmetry = false
		cfg.Budget = d.Cfg.Budget / 2
		st2 := vrt.NewExplorer(cfg).Explore(d.Mk)
		switch {
		case !st2.Exhaustive:
			out.SymCheck = fmt.Sprintf("not completed without symmetry (%s)", st2.Why)
		case !sameOutcomes(st.Outcomes, st2.Outcomes) || len(st2.Violations) > 0:
			out.SymCheck = "MISMATCH"
			st.Exhaustive = false
			st.Why = fmt.Sprintf("symmetry cross-check failed: %d outcomes with the reduction, %d without (violations without: %d); nothing is claimed for this driver", len(st.Outcomes), len(st2.Outcomes), len(st2.Violations))
		default:
			out.SymCheck = fmt.Sprintf("same %d outcomes without the reduction (%d executions, %d states; with it %d executions, %d states)", len(st2.Outcomes), st2.Executions, st2.States, st.Executions, st.States)
		}
	}
	return out
}

func sameOutcomes(a, b map[string]int64) bool {
	if len(a) != len(b) {
		return false
	}
	for k := range a {
		if _, ok := b[k]; !ok {
			return false
		}
	}
	return true
}

// Extra, when set, runs after the drivers in the parent process (sequential
// history checks that belong to the same property), with no exploration active.
var Extra func(c *enum.Ctx)

// ExtraReplay handles replay inputs that are not schedules.
var ExtraReplay func(c *enum.Ctx, in json.RawMessage) bool

// RunDrivers explores the named drivers of the E1 binary bin (see package e1run).
func RunDrivers(c *enum.Ctx, bin string, names []string) map[string]interface{} {
	return e1run.RunDrivers(c, bin, names)
}

// Main is the entry point of an E1 harness binary.
func Main(id, level string, drivers func(quick bool) []Driver, describe func(c *enum.Ctx)) {
	runtime.GOMAXPROCS(4)
	if len(os.Args) >= 4 && os.Args[1] == "--exec1" {
		// one execution, this process to itself: the prefix of choices on standard input
		var prefix []int
		json.NewDecoder(os.Stdin).Decode(&prefix)
		for _, d := range drivers(os.Args[3] == "quick") {
			if d.Name == os.Args[2] {
				json.NewEncoder(os.Stdout).Encode(vrt.NewExplorer(d.Cfg).One(d.Mk, prefix))
				os.Exit(0)
			}
		}
		os.Exit(2)
	}
	if len(os.Args) >= 4 && os.Args[1] == "--child" {
		for _, d := range drivers(os.Args[3] == "quick") {
			if d.Name == os.Args[2] {
				out := runChild(d)
				json.NewEncoder(os.Stdout).Encode(out)
				os.Exit(0)
			}
		}
		fmt.Fprintln(os.Stderr, "unknown driver", os.Args[2])
		os.Exit(2)
	}
	enum.Main(id, level, func(c *enum.Ctx) {
		describe(c)
		// what the instrumenter did to the packages under test
		if data, err := os.ReadFile(os.Getenv("VERIF_WORK") + "/vinstr.log"); err == nil {
			var unin, inst []string
			for _, l := range strings.Split(strings.TrimSpace(string(data)), "\n") {
				switch {
				case strings.HasPrefix(l, "UNINSTRUMENTED"):
					unin = append(unin, strings.TrimPrefix(l, "UNINSTRUMENTED "))
				case strings.HasPrefix(l, "INSTRUMENTED"):
					inst = append(inst, strings.TrimPrefix(l, "INSTRUMENTED "))
				}
			}
			c.Set("instrumented", inst)
			c.Set("uninstrumented", unin)
			if len(unin) > 0 {
				c.NotExhaustive(fmt.Sprintf("the instrumenter left %d construct(s) untouched (%s): schedules through them are not controlled", len(unin), strings.Join(unin, "; ")))
			}
		}
		ok, rep := SelfCheck()
		c.Set("engine_selfcheck", rep)
		if !ok {
			c.NotExhaustive("engine self-check failed; nothing is claimed by this run")
			for _, l := range rep {
				fmt.Println(l)
			}
			c.EvalN(1)
			c.Nontrivial("selfcheck-failed-a")
			c.Nontrivial("selfcheck-failed-b")
			c.MC(1, 1, 0)
			return
		}
		var names []string
		for _, d := range drivers(c.Quick) {
			names = append(names, d.Name)
		}
		per := RunDrivers(c, os.Args[0], names)
		c.Set("drivers", per)
		if Extra != nil {
			Extra(c)
		}
	}, func(c *enum.Ctx, in json.RawMessage) {
		if ExtraReplay != nil && ExtraReplay(c, in) {
			return
		}
		var r replayIn
		if err := json.Unmarshal(in, &r); err != nil {
			panic(err)
		}
		for _, d := range drivers(false) {
			if d.Name == r.Driver {
				e := vrt.NewExplorer(d.Cfg)
				res, class, msg, err := e.Replay(d.Mk, r.Choices)
				if err != nil {
					fmt.Println("replay: infrastructure:", err)
					return
				}
				for _, s := range res.Schedule() {
					fmt.Println("   ", s)
				}
				if class != "" {
					c.Fail(class, r, "%s", msg)
				}
				return
			}
		}
		fmt.Println("replay: unknown driver", r.Driver)
	})
}
