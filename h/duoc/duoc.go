// Package duoc is the client side of the "two goroutines, unrelated objects" pass: imported (for its
// side effect) by the check of a sequential property, it runs that property's duo drivers - the E1
// binary $VERIF_WORK/bin-duo, built by the check script with the whole library instrumented - after the
// check's own exploration and folds their verdicts and coverage into the same evidence.
package duoc

import (
	"encoding/json"
	"fmt"
	"os"
	"os/exec"
	"strings"

	"verif/h/e1run"
	"verif/h/enum"
)

func bin() string { return os.Getenv("VERIF_WORK") + "/bin-duo" }

func init() {
	enum.PostRun = func(c *enum.Ctx) {
		out, err := exec.Command(bin(), "--list", c.ID).Output()
		if err != nil {
			c.NotExhaustive(fmt.Sprintf("two-goroutine pass: %s --list failed: %v", bin(), err))
			return
		}
		names := strings.Fields(string(out))
		if len(names) == 0 {
			return
		}
		per := e1run.RunDrivers(c, bin(), names)
		c.Set("two_goroutines_unrelated_objects", per)
		c.AddRule("; plus (E1, controlled scheduler, whole library instrumented for the race oracle) two goroutines performing the property's calls on unrelated objects: no data race, panic or deadlock on any schedule, and each goroutine observes what the same calls give alone (" + strings.Join(names, ", ") + ")")
	}
	enum.ReplayHook = func(c *enum.Ctx, in json.RawMessage) bool {
		var r struct {
			Driver string `json:"driver"`
		}
		if json.Unmarshal(in, &r) != nil || !strings.HasPrefix(r.Driver, "duo/") {
			return false
		}
		cmd := exec.Command(bin(), "--replay", os.Args[2])
		cmd.Stdout, cmd.Stderr = os.Stdout, os.Stderr
		if err := cmd.Run(); err != nil {
			c.Fail("two-goroutines/replay", r, "the schedule still fails on this tree (%v)", err)
		}
		return true
	}
}
