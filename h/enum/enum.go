// Package enum is the shared plumbing of every check: tier parsing, parallel
// sharding of an enumerated space, evidence writing, replay artefacts and the
// known-findings protocol.  Nothing in here samples: VERIF_SEED is recorded
// and otherwise unused.
package enum

import (
	"bytes"
	"crypto/sha256"
	"encoding/hex"
	"encoding/json"
	"fmt"
	"hash/fnv"
	"os"
	"os/exec"
	"path/filepath"
	"runtime"
	"runtime/debug"
	"runtime/pprof"
	"sort"
	"strconv"
	"strings"
	"sync"
	"sync/atomic"
	"time"
)

// Root is /verif (the directory that holds MANIFEST.json); found by walking up
// from the working directory, overridable with VERIF_ROOT.
func Root() string {
	if r := os.Getenv("VERIF_ROOT"); r != "" {
		return r
	}
	d, _ := os.Getwd()
	for d != "/" {
		if _, err := os.Stat(filepath.Join(d, "properties.jsonl")); err == nil {
			return d
		}
		d = filepath.Dir(d)
	}
	return "/verif"
}

// Violation is one failing case.  Class is a stable, specific name of *what*
// fails (call site + predicate), used for de-duplication and for matching
// known findings; Input is enough to replay the case.
type Violation struct {
	Property string          `json:"property"`
	Class    string          `json:"class"`
	Message  string          `json:"message"`
	Input    json.RawMessage `json:"input"`
	Count    int64           `json:"count"` // how many cases fell in this class
}

type finding struct {
	Property    string `json:"property"`
	Status      string `json:"status"` // "finding" | "fixed"
	Class       string `json:"class"`  // exact class, or prefix when it ends in '*'
	Commit      string `json:"commit,omitempty"`
	Description string `json:"description"`
	// InputsFile (relative to the root): when set, the finding covers only the listed inputs - one
	// hex digest (first 8 bytes of the SHA-256 of the violation's input JSON) per line; a violation of
	// a matching class whose input is not listed is reported as a violation.
	InputsFile string `json:"inputs_file,omitempty"`
	inputs     map[string]bool
}

func isDigest(s string) bool {
	if len(s) != 16 {
		return false
	}
	for _, c := range s {
		if !(c >= '0' && c <= '9' || c >= 'a' && c <= 'f') {
			return false
		}
	}
	return true
}

// InputDigest is the identity of a case in an inputs file.
func InputDigest(input interface{}) string {
	raw, err := json.Marshal(input)
	if err != nil {
		raw, _ = json.Marshal(fmt.Sprintf("%+v", input))
	}
	sum := sha256.Sum256(raw)
	return hex.EncodeToString(sum[:8])
}

// Ctx is the run context of a check.
type Ctx struct {
	ID    string
	Tier  string // quick | thorough
	Level string
	Seed  int64
	Quick bool

	start time.Time

	evals atomic.Int64

	mu          sync.Mutex
	nontrivial  map[uint64]struct{}
	nontrivialN atomic.Int64 // non-trivial cases counted by harnesses whose cases are distinct by construction (de-duplicated locally)
	samples     []interface{}
	viol        map[string]*Violation
	violOrder   []string
	extra       map[string]interface{}
	assume      []string
	rule        string
	exhaustive  bool
	notes       []string

	states, transitions, traces int64
	deadline                    time.Time
}

// Collect runs fn with a fresh context outside any tier (no evidence, no exit code) and returns the
// violations it recorded, one per class; for helper processes of a harness (e.g. cold-start passes).
func Collect(id string, fn func(c *Ctx)) []*Violation {
	c := &Ctx{ID: id, Tier: "helper", start: time.Now(),
		nontrivial: map[uint64]struct{}{}, viol: map[string]*Violation{}, extra: map[string]interface{}{}, exhaustive: true}
	fn(c)
	var out []*Violation
	for _, k := range c.violOrder {
		out = append(out, c.viol[k])
	}
	return out
}

// ReplayFunc re-runs one stored case.
type ReplayFunc func(c *Ctx, input json.RawMessage)

// Main is the entry point of every harness binary:
//
//	bin quick|thorough
//	bin --replay <file>
//
// PostRun, when set (by package duoc), runs after the check's own exploration and before the verdict;
// ReplayHook gets a replay input first and says whether it was its own.
var (
	PostRun    func(c *Ctx)
	ReplayHook func(c *Ctx, in json.RawMessage) bool
)

func Main(id, level string, run func(c *Ctx), replay ReplayFunc) {
	debug.SetGCPercent(200)
	c := &Ctx{ID: id, Level: level, start: time.Now(),
		nontrivial: map[uint64]struct{}{}, viol: map[string]*Violation{}, extra: map[string]interface{}{}, exhaustive: true}
	if s := os.Getenv("VERIF_SEED"); s != "" {
		c.Seed, _ = strconv.ParseInt(s, 10, 64)
	}
	args := os.Args[1:]
	if len(args) >= 2 && args[0] == "--replay" {
		data, err := os.ReadFile(args[1])
		if err != nil {
			fmt.Fprintln(os.Stderr, "replay:", err)
			os.Exit(2)
		}
		var v Violation
		if err := json.Unmarshal(data, &v); err != nil {
			fmt.Fprintln(os.Stderr, "replay:", err)
			os.Exit(2)
		}
		c.Tier = "replay"
		fmt.Printf("replaying %s class=%s\nrecorded: %s\n", args[1], v.Class, v.Message)
		if ReplayHook == nil || !ReplayHook(c, v.Input) {
			replay(c, v.Input)
		}
		if len(c.viol) == 0 {
			fmt.Println("replay: case passes on this tree")
			os.Exit(0)
		}
		for _, k := range c.violOrder {
			fmt.Printf("replay: FAILS class=%s: %s\n", k, c.viol[k].Message)
		}
		os.Exit(1)
	}
	c.Tier = "quick"
	if len(args) >= 1 {
		c.Tier = args[0]
	}
	if t := os.Getenv("VERIF_TIER"); t != "" && len(args) == 0 {
		c.Tier = t
	}
	if c.Tier != "quick" && c.Tier != "thorough" {
		fmt.Fprintln(os.Stderr, "usage: <bin> quick|thorough | --replay file")
		os.Exit(2)
	}
	c.Quick = c.Tier == "quick"
	theCtx = c
	if p := os.Getenv("VERIF_HEAPPROF"); p != "" { // maintenance: a heap profile every 20 s
		go func() {
			for i := 0; ; i++ {
				time.Sleep(20 * time.Second)
				if f, err := os.Create(fmt.Sprintf("%s.%d", p, i)); err == nil {
					pprof.WriteHeapProfile(f)
					f.Close()
				}
			}
		}()
	}
	run(c)
	if PostRun != nil {
		watchdogPaused.Store(true)
		PostRun(c)
	}
	os.Exit(c.Finish())
}

// ---- progress watchdog
//
// A change to the code under test can make a call block or spin for ever.  The Go runtime would end
// the harness with "all goroutines are asleep" (or it would run for ever); neither says which case
// does not return.  A worker therefore announces the case it is about to evaluate with Doing; when no
// evaluation has completed for a minute, every announced case is re-run alone in a child process
// (this binary, --replay), and one that is still running after another minute is reported as a
// violation of class "hang".  The clock only nominates; the verdict is the isolated re-run.

type doing struct{ input interface{} }

var watchdogPaused atomic.Bool

var (
	inflight  sync.Map // worker / shard index -> doing; Parallel forgets a shard when it is finished
	watchOnce sync.Once
)

// Doing announces that worker slot is about to evaluate input.
func (c *Ctx) Doing(slot int, input interface{}) {
	inflight.Store(slot, doing{input})
	watchOnce.Do(func() {
		if c.Tier == "quick" || c.Tier == "thorough" {
			go c.watchdog()
		}
	})
}

func (c *Ctx) watchdog() {
	last, stalled := int64(-1), 0
	for {
		time.Sleep(5 * time.Second)
		if watchdogPaused.Load() {
			stalled = 0 // the pass that runs now has budgets and a stall detector of its own (child processes of the E1 engine)
			continue
		}
		if n := c.evals.Load(); n != last {
			last, stalled = n, 0
			continue
		}
		if stalled++; stalled < 12 {
			continue
		}
		dir := os.Getenv("VERIF_WORK")
		if dir == "" {
			dir = os.TempDir()
		}
		var stuck []doing
		inflight.Range(func(_, v interface{}) bool {
			if d, ok := v.(doing); ok && d.input != nil && len(stuck) < 64 {
				stuck = append(stuck, d)
			}
			return true
		})
		// the probes run side by side (a hang usually stops every worker on a case of the same kind)
		var pw sync.WaitGroup
		for i, d := range stuck {
			raw, _ := json.Marshal(d.input)
			data, _ := json.Marshal(Violation{Property: c.ID, Class: "probe", Message: "progress watchdog probe", Input: raw})
			f := filepath.Join(dir, fmt.Sprintf("probe-%d.json", i))
			if os.WriteFile(f, data, 0o644) != nil {
				continue
			}
			cmd := exec.Command(os.Args[0], "--replay", f)
			var probeOut bytes.Buffer
			cmd.Stdout, cmd.Stderr = &probeOut, &probeOut
			if cmd.Start() != nil {
				continue
			}
			pw.Add(1)
			go func(d doing) {
				defer pw.Done()
				defer os.Remove(f)
				fin := make(chan error, 1)
				go func() { fin <- cmd.Wait() }()
				select {
				case <-fin:
					// alone in a process the case may block every goroutine: the Go runtime then ends the
					// process itself, which is the same verdict without the wait
					if strings.Contains(probeOut.String(), "all goroutines are asleep - deadlock!") {
						c.Fail("hang", d.input, "the case does not return: no evaluation completed for 60 s, and in a separate process running only this case the Go runtime reports that all goroutines are asleep (deadlock)")
					}
				case <-time.After(60 * time.Second):
					cmd.Process.Kill()
					c.Fail("hang", d.input, "the case does not return: no evaluation completed for 60 s, and a separate process running only this case was still running after 60 s")
				}
			}(d)
		}
		pw.Wait()
		c.NotExhaustive("progress watchdog fired; the run was abandoned after examining the in-flight cases")
		os.Exit(c.Finish())
	}
}

// Workers is the degree of parallelism used by Parallel.
func Workers() int {
	if s := os.Getenv("VERIF_WORKERS"); s != "" {
		if n, err := strconv.Atoi(s); err == nil && n > 0 {
			return n
		}
	}
	n := runtime.NumCPU()
	if n > 16 {
		n = 16
	}
	return n
}

// Parallel runs fn(shard) for shard = 0..n-1 on Workers() goroutines.
func Parallel(n int, fn func(shard int)) {
	var next atomic.Int64
	var wg sync.WaitGroup
	w := Workers()
	if w > n {
		w = n
	}
	for i := 0; i < w; i++ {
		wg.Add(1)
		go func() {
			defer wg.Done()
			for {
				s := int(next.Add(1) - 1)
				if s >= n {
					return
				}
				safeShard(fn, s)
				inflight.Delete(s)
			}
		}()
	}
	wg.Wait()
}

// theCtx is the context of the running check (set by Main); safeShard reports through it.
var theCtx *Ctx

// safeShard runs one shard; a panic that escapes it - the code under test panicked where the harness has
// no guard of its own - is a verdict on the case the shard had announced (Doing), not a crash of the
// harness.  The rest of the shard is abandoned and the run is marked non-exhaustive.
func safeShard(fn func(int), s int) {
	defer func() {
		r := recover()
		if r == nil {
			return
		}
		if theCtx == nil {
			panic(r)
		}
		var in interface{} = fmt.Sprintf("shard %d (no case announced)", s)
		if d, ok := inflight.Load(s); ok {
			if dd, ok := d.(doing); ok && dd.input != nil {
				in = dd.input
			}
		}
		buf := make([]byte, 2048)
		buf = buf[:runtime.Stack(buf, false)]
		theCtx.Fail("panic", in, "the code under test panicked: %v\n%s", r, buf)
		theCtx.NotExhaustive(fmt.Sprintf("shard %d was abandoned after a panic", s))
	}()
	fn(s)
}

// NontrivialN adds n non-trivial cases that the harness knows to be distinct from every other case it
// reports (it enumerates them without repetition, or has removed repetitions itself): hundreds of millions
// of hashes need not be kept to count them.
func (c *Ctx) NontrivialN(n int64) { c.nontrivialN.Add(n) }

// Eval counts one evaluated case.
func (c *Ctx) Eval() { c.evals.Add(1) }

// EvalN counts n evaluated cases.
func (c *Ctx) EvalN(n int64) { c.evals.Add(n) }

// Evals returns the number of cases so far.
func (c *Ctx) Evals() int64 { return c.evals.Load() }

// Hash64 hashes a string.
func Hash64(s string) uint64 {
	h := fnv.New64a()
	h.Write([]byte(s))
	return h.Sum64()
}

// Nontrivial records a distinct non-trivial case (de-duplicated on key).
func (c *Ctx) Nontrivial(key string) {
	h := Hash64(key)
	c.mu.Lock()
	c.nontrivial[h] = struct{}{}
	c.mu.Unlock()
}

// NontrivialH is Nontrivial for a pre-hashed key.
func (c *Ctx) NontrivialH(h uint64) {
	c.mu.Lock()
	c.nontrivial[h] = struct{}{}
	c.mu.Unlock()
}

// NontrivialSet is a shard-local set merged at the end (avoids lock traffic).
type NontrivialSet map[uint64]struct{}

func (s NontrivialSet) Add(key string) { s[Hash64(key)] = struct{}{} }
func (s NontrivialSet) AddH(h uint64)  { s[h] = struct{}{} }

// Merge adds a shard-local set.
func (c *Ctx) Merge(s NontrivialSet) {
	c.mu.Lock()
	for k := range s {
		c.nontrivial[k] = struct{}{}
	}
	c.mu.Unlock()
}

// Sample keeps up to 8 written-out cases for the evidence file.
func (c *Ctx) Sample(v interface{}) {
	c.mu.Lock()
	if len(c.samples) < 8 {
		c.samples = append(c.samples, v)
	}
	c.mu.Unlock()
}

// WantSample reports whether more samples are wanted (cheap pre-test).
func (c *Ctx) WantSample() bool {
	c.mu.Lock()
	defer c.mu.Unlock()
	return len(c.samples) < 8
}

// Rule states how cases are enumerated and what counts as non-trivial.
func (c *Ctx) Rule(s string) { c.rule = s }

// AddRule appends to the rule (a pass that comes on top of the check's own).
func (c *Ctx) AddRule(s string) { c.rule += s }

// Assume records an assumption of the check.
func (c *Ctx) Assume(s ...string) { c.assume = append(c.assume, s...) }

// Set stores an extra coverage key.
func (c *Ctx) Set(k string, v interface{}) {
	c.mu.Lock()
	c.extra[k] = v
	c.mu.Unlock()
}

// Add adds to an integer coverage key.
func (c *Ctx) Add(k string, n int64) {
	c.mu.Lock()
	old, _ := c.extra[k].(int64)
	c.extra[k] = old + n
	c.mu.Unlock()
}

// Note adds a free-text remark to the evidence.
func (c *Ctx) Note(format string, a ...interface{}) {
	s := fmt.Sprintf(format, a...)
	c.mu.Lock()
	c.notes = append(c.notes, s)
	c.mu.Unlock()
	fmt.Println("note:", s)
}

// NotExhaustive marks the run as having hit a cap.
func (c *Ctx) NotExhaustive(why string) {
	c.mu.Lock()
	c.exhaustive = false
	c.mu.Unlock()
	c.Note("NOT EXHAUSTIVE: %s", why)
}

// MC records model-checking counters.
func (c *Ctx) MC(states, transitions, traces int64) {
	c.mu.Lock()
	c.states += states
	c.transitions += transitions
	c.traces += traces
	c.mu.Unlock()
}

// Fail records a violation.  input must be JSON-marshalable and sufficient for
// the harness's replay function.
func (c *Ctx) Fail(class string, input interface{}, format string, a ...interface{}) {
	c.mu.Lock()
	defer c.mu.Unlock()
	if v, ok := c.viol[class]; ok {
		v.Count++
		return
	}
	raw, err := json.Marshal(input)
	if err != nil {
		raw, _ = json.Marshal(fmt.Sprintf("%+v", input))
	}
	msg := fmt.Sprintf(format, a...)
	if len(msg) > 3000 { // size-ladder cases carry objects of thousands of letters; the replay file has the input
		msg = msg[:2000] + fmt.Sprintf(" ...(%d bytes omitted)... ", len(msg)-2600) + msg[len(msg)-600:]
	}
	c.viol[class] = &Violation{Property: c.ID, Class: class, Message: msg, Input: raw, Count: 1}
	c.violOrder = append(c.violOrder, class)
}

// Failed reports whether class has been recorded already.
func (c *Ctx) Failed(class string) bool {
	c.mu.Lock()
	defer c.mu.Unlock()
	_, ok := c.viol[class]
	return ok
}

// Guard runs fn and converts a panic into a violation of class
// classPrefix+"/panic" (used where the property says "never panics").
func (c *Ctx) Guard(class string, input interface{}, fn func()) (panicked bool) {
	defer func() {
		if r := recover(); r != nil {
			panicked = true
			c.Fail(class, input, "panic: %v", r)
		}
	}()
	fn()
	return false
}

func loadFindings(root string) []finding {
	data, err := os.ReadFile(filepath.Join(root, "known_findings.json"))
	if err != nil {
		return nil
	}
	var f struct {
		Findings []finding `json:"findings"`
	}
	if err := json.Unmarshal(data, &f); err != nil {
		fmt.Fprintln(os.Stderr, "known_findings.json:", err)
		return nil
	}
	for i := range f.Findings {
		if fn := f.Findings[i].InputsFile; fn != "" {
			f.Findings[i].inputs = map[string]bool{}
			data, err := os.ReadFile(filepath.Join(root, fn))
			if err != nil {
				fmt.Fprintln(os.Stderr, "known findings inputs file:", err)
				continue
			}
			for _, l := range strings.Fields(string(data)) {
				f.Findings[i].inputs[l] = true
			}
		}
	}
	return f.Findings
}

func matchClass(pat, class string) bool {
	if strings.HasSuffix(pat, "*") {
		return strings.HasPrefix(class, strings.TrimSuffix(pat, "*"))
	}
	return pat == class
}

// Finish writes evidence and replay files, prints the protocol lines and
// returns the exit code.
func (c *Ctx) Finish() int {
	root := Root()
	findings := loadFindings(root)
	os.MkdirAll(filepath.Join(root, "evidence"), 0o755)
	os.MkdirAll(filepath.Join(root, "replays"), 0o755)

	var unknown []*Violation
	var known []string
	sort.Strings(c.violOrder)
	listed := map[int]int64{} // finding index -> matched cases (findings limited to listed inputs print one line)
	var dump []string
	for _, k := range c.violOrder {
		v := c.viol[k]
		matched := false
		for fi, f := range findings {
			if f.Property == c.ID && f.Status == "finding" && matchClass(f.Class, v.Class) {
				if f.InputsFile != "" {
					// a class that ends in the digest of its input (one class per input, whatever order of
					// calls or variant of the harness reported it first) is identified by that digest
					sum := sha256.Sum256(v.Input)
					d := hex.EncodeToString(sum[:8])
					if i := strings.LastIndexByte(v.Class, '/'); i >= 0 && isDigest(v.Class[i+1:]) {
						d = v.Class[i+1:]
					}
					dump = append(dump, d)
					if !f.inputs[d] {
						continue
					}
					matched = true
					if listed[fi] == 0 {
						known = append(known, f.Class)
						if data, err := json.MarshalIndent(v, "", " "); err == nil {
							cs := sha256.Sum256([]byte(f.Class))
							os.WriteFile(filepath.Join(root, "replays", fmt.Sprintf("known-%s-%s.json", c.ID, hex.EncodeToString(cs[:4]))), data, 0o644)
						}
					}
					listed[fi] += v.Count
					break
				}
				matched = true
				fmt.Printf("KNOWN-FINDING: property=%s class=%s cases=%d %s\n", c.ID, v.Class, v.Count, f.Description)
				known = append(known, v.Class)
				// keep a replayable witness of the known finding (not the findings file itself)
				if data, err := json.MarshalIndent(v, "", " "); err == nil {
					sum := sha256.Sum256([]byte(v.Class))
					os.WriteFile(filepath.Join(root, "replays", fmt.Sprintf("known-%s-%s.json", c.ID, hex.EncodeToString(sum[:4]))), data, 0o644)
				}
				break
			}
		}
		if !matched {
			unknown = append(unknown, v)
		}
	}
	for fi, n := range listed {
		f := findings[fi]
		fmt.Printf("KNOWN-FINDING: property=%s class=%s cases=%d (of %d listed inputs, %s) %s\n", c.ID, f.Class, n, len(f.inputs), f.InputsFile, f.Description)
	}
	if p := os.Getenv("VERIF_DUMP_KNOWN_INPUTS"); p != "" && len(dump) > 0 {
		// maintenance only (tools/known_inputs.sh): never set by a registered command
		if fh, err := os.OpenFile(p, os.O_APPEND|os.O_CREATE|os.O_WRONLY, 0o644); err == nil {
			fmt.Fprintln(fh, strings.Join(dump, "\n"))
			fh.Close()
		}
	}
	for _, v := range unknown {
		data, _ := json.MarshalIndent(v, "", " ")
		sum := sha256.Sum256([]byte(v.Class + string(v.Input)))
		p := filepath.Join(root, "replays", fmt.Sprintf("%s-%s.json", c.ID, hex.EncodeToString(sum[:6])))
		os.WriteFile(p, data, 0o644)
		fmt.Printf("violation class=%s cases=%d: %s\n", v.Class, v.Count, v.Message)
		fmt.Printf("VIOLATION property=%s replay=%s\n", c.ID, p)
	}

	cov := map[string]interface{}{}
	for k, v := range c.extra {
		cov[k] = v
	}
	cov["evaluations"] = c.evals.Load()
	cov["distinct_nontrivial"] = int64(len(c.nontrivial)) + c.nontrivialN.Load()
	cov["rule"] = c.rule
	if len(c.samples) == 0 {
		c.samples = append(c.samples, "none recorded")
	}
	cov["samples"] = c.samples
	cov["exhaustive"] = c.exhaustive
	if c.Level == "model_checking" {
		cov["states"] = c.states
		cov["transitions"] = c.transitions
		cov["traces_validated_against_impl"] = c.traces
	}
	if len(known) > 0 {
		cov["known_findings_matched"] = known
	}
	if len(c.notes) > 0 {
		cov["notes"] = c.notes
	}
	ev := map[string]interface{}{
		"property_id": c.ID,
		"tier":        c.Tier,
		"seed":        c.Seed,
		"level":       c.Level,
		"coverage":    cov,
		"assumptions": c.assume,
		"wall_s":      time.Since(c.start).Seconds(),
		"violations":  len(unknown),
	}
	if c.assume == nil {
		ev["assumptions"] = []string{}
	}
	data, _ := json.MarshalIndent(ev, "", " ")
	if err := os.WriteFile(filepath.Join(root, "evidence", c.ID+".json"), append(data, '\n'), 0o644); err != nil {
		fmt.Fprintln(os.Stderr, "evidence:", err)
	}
	fmt.Printf("%s %s: evaluations=%d distinct_nontrivial=%d exhaustive=%v violations=%d known=%d wall=%.1fs\n",
		c.ID, c.Tier, c.evals.Load(), int64(len(c.nontrivial))+c.nontrivialN.Load(), c.exhaustive, len(unknown), len(known), time.Since(c.start).Seconds())
	if len(unknown) > 0 {
		return 1
	}
	return 0
}

// J marshals v compactly (for class names / keys).
func J(v interface{}) string {
	b, _ := json.Marshal(v)
	return string(b)
}

// Ladder returns the size ladder lo..hi, ascending: every power of two in the range with its two
// neighbours (2^k-1, 2^k, 2^k+1), every power of ten with its two neighbours, the halfway marks
// 3*2^k and 5*10^j, and every size up to 48.  Small scopes cannot reach the constants code is tuned around (block sizes, fast-path
// thresholds, pool size classes); those are powers of two almost without exception and round decimal
// numbers otherwise, so the ladder is the boundary family for sizes in general.
func Ladder(lo, hi int) []int {
	var out []int
	seen := map[int]bool{}
	add := func(ns ...int) {
		for _, n := range ns {
			if n >= lo && n <= hi && !seen[n] {
				seen[n] = true
				out = append(out, n)
			}
		}
	}
	for n := 1; n <= 48; n++ {
		add(n) // dense at the bottom: cut-offs for "small" inputs (12, 20, 24, 40) are not round numbers
	}
	for p := 1; p-1 <= hi; p *= 2 {
		add(p-1, p, p+1, 3*p)
	}
	for p := 10; p-1 <= hi; p *= 10 {
		add(p-1, p, p+1, 5*p)
	}
	sort.Ints(out)
	return out
}

// Strings enumerates all strings over alpha of length lo..hi in length-then-lexicographic order.
func Strings(alpha string, lo, hi int, fn func(s []byte)) {
	for n := lo; n <= hi; n++ {
		buf := make([]byte, n)
		idx := make([]int, n)
		for i := range buf {
			buf[i] = alpha[0]
		}
		for {
			fn(buf)
			i := n - 1
			for ; i >= 0; i-- {
				idx[i]++
				if idx[i] < len(alpha) {
					buf[i] = alpha[idx[i]]
					break
				}
				idx[i] = 0
				buf[i] = alpha[0]
			}
			if i < 0 {
				break
			}
		}
	}
}

// Product enumerates all index vectors of the given radices (first index slowest).
func Product(radices []int, fn func(ix []int)) {
	for _, r := range radices {
		if r == 0 {
			return
		}
	}
	ix := make([]int, len(radices))
	for {
		fn(ix)
		i := len(ix) - 1
		for ; i >= 0; i-- {
			ix[i]++
			if ix[i] < radices[i] {
				break
			}
			ix[i] = 0
		}
		if i < 0 {
			return
		}
	}
}
