package enum

import (
	"reflect"
	"unsafe"
)

// Field returns the (possibly unexported) field name of the struct pointed to
// by ptr as a readable value; ok is false when the field does not exist (the
// source was refactored), which callers must treat as "cannot abstract".
func Field(ptr interface{}, name string) (reflect.Value, bool) {
	v := reflect.ValueOf(ptr)
	if v.Kind() != reflect.Ptr || v.Elem().Kind() != reflect.Struct {
		return reflect.Value{}, false
	}
	f := v.Elem().FieldByName(name)
	if !f.IsValid() {
		return reflect.Value{}, false
	}
	return reflect.NewAt(f.Type(), unsafe.Pointer(f.UnsafeAddr())).Elem(), true
}
