// Package alncheck is the shared harness of C08 (optimality) and C09
// (well-formedness, faithful scores, type independence, error handling) for the
// six pairwise aligners.
package alncheck

import (
	"encoding/json"
	"fmt"
	"github.com/biogo/biogo/seq"
	"github.com/biogo/biogo/seq/alignment"
	"strings"
	"sync"
	"sync/atomic"
	"verif/h/own"

	"github.com/biogo/biogo/align"
	"github.com/biogo/biogo/alphabet"
	"github.com/biogo/biogo/feat"
	"github.com/biogo/biogo/seq/linear"
	"verif/h/enum"
)

// Case is one alignment problem.
type Case struct {
	Aligner string  `json:"aligner"` // NW SW Fitted NWAffine SWAffine FittedAffine
	R       string  `json:"r"`
	Q       string  `json:"q"`
	Letters string  `json:"letters"` // alphabet definition, gap first
	M       [][]int `json:"m"`
	Open    int     `json:"open,omitempty"`
	Ill     string  `json:"ill,omitempty"` // C09 ill-typed call kind
	// How the matrix reaches the aligner: "" M itself; "padded" M embedded in a matrix two rows and
	// columns larger than the alphabet (legal; the extra cells hold 55); "rewritten" a matrix value that
	// earlier alignments of the run used with other contents, rewritten in place (a parameter sweep).
	Handed string `json:"handed,omitempty"`
	// After, when set, is a call that the aligner must REJECT, made on the same goroutine directly before
	// each of the two alignments of the case: "ref:<R>|<Q>" / "qry:<R>|<Q>" sequences with a letter outside
	// the alphabet ('x'); "ragged:<i>" a matrix whose rows are the rows of the case's own matrix value, row
	// i one entry short; "mixed" a plain reference with a quality query; "alphabet" two alphabet objects.
	After string `json:"after,omitempty"`
	use   [][]int
}

// reject makes the rejected call of k.After (whatever it leaves behind - pooled tables, cached
// matrices - must not be seen by the ordinary call that follows).  A panic or a missing error is the
// business of the ill-typed family, not of this one.
func reject(k Case, ql bool) {
	if k.After == "" {
		return
	}
	defer func() { recover() }()
	kind, arg := k.After, ""
	if i := strings.IndexByte(k.After, ':'); i >= 0 {
		kind, arg = k.After[:i], k.After[i+1:]
	}
	kk := k
	kk.use = k.handed()
	var ref, qry align.AlphabetSlicer = seqOf(k.Letters, "aca", ql), seqOf(k.Letters, "ca", ql)
	switch kind {
	case "ref", "qry":
		w := strings.SplitN(arg, "|", 2)
		ref, qry = seqOf(k.Letters, w[0], ql), seqOf(k.Letters, w[1], ql)
	case "ragged":
		i := int(arg[0] - '0')
		m := append([][]int{}, kk.use...)
		if i < len(m) && len(m[i]) > 0 {
			m[i] = m[i][:len(m[i])-1]
		}
		kk.use = m
	case "mixed":
		qry = seqOf(k.Letters, "ca", !ql)
	case "alphabet":
		a2, _ := alphabet.NewAlphabet(k.Letters, feat.DNA, alphabet.Letter(k.Letters[0]), 'n', true)
		qry = own.NewSeq("q", alphabet.BytesToLetters([]byte("ca")), a2)
	}
	mkAligner(kk).Align(ref, qry)
}

// handed returns the matrix value given to the aligner.
func (k Case) handed() [][]int {
	switch {
	case k.use != nil:
		return k.use
	case k.Handed == "padded":
		return padded(k.M)
	case k.Handed == "derived":
		return derived(k.M)
	}
	return k.M
}

// derived returns a matrix equal to m whose first and last rows are views of one block laid out row by
// row (as matrix generators produce them) while the rows in between were replaced by separately allocated
// ones (a copy-on-write edit of a shared matrix); the block's own middle rows hold other values.
func derived(m [][]int) [][]int {
	n := len(m)
	block := make([]int, n*n)
	for i := range block {
		block[i] = 44
	}
	out := make([][]int, n)
	for i := range out {
		out[i] = block[i*n : (i+1)*n] // capacity to the end of the block, as a plain reslice leaves it
		if i > 0 && i < n-1 {
			out[i] = make([]int, n)
		}
		copy(out[i], m[i])
	}
	return out
}

func padded(m [][]int) [][]int {
	n := len(m) + 2
	out := make([][]int, n)
	for i := range out {
		out[i] = make([]int, n)
		for j := range out[i] {
			if i < len(m) && j < len(m[i]) {
				out[i][j] = m[i][j]
			} else {
				out[i][j] = 55
			}
		}
	}
	return out
}

// scratchMatrices are matrix values rewritten in place from one matrix of the enumeration to the next.
var scratchMatrices = func() chan [][]int {
	ch := make(chan [][]int, 16)
	for i := 0; i < 16; i++ {
		ch <- nil
	}
	return ch
}()

// rewritten returns a matrix value with the contents of m whose backing arrays were used, with other
// contents, by an earlier matrix of the same size; give it back with scratchMatrices <- w.
func rewritten(m [][]int) [][]int {
	w := <-scratchMatrices
	if len(w) != len(m) {
		w = make([][]int, len(m))
		for i := range w {
			w[i] = make([]int, len(m[i]))
		}
	}
	for i := range m {
		copy(w[i], m[i])
	}
	return w
}

var aligners = []string{"NW", "SW", "Fitted", "NWAffine", "SWAffine", "FittedAffine"}

func affineOf(a string) bool { return strings.HasSuffix(a, "Affine") }

func modeOf(a string) mode {
	switch {
	case strings.HasPrefix(a, "NW"):
		return global
	case strings.HasPrefix(a, "SW"):
		return local
	}
	return fitted
}

var (
	alphaMu    sync.RWMutex
	alphaCache = map[string]alphabet.Alphabet{}
)

func alpha(def string) alphabet.Alphabet {
	alphaMu.RLock()
	a, ok := alphaCache[def]
	alphaMu.RUnlock()
	if ok {
		return a
	}
	alphaMu.Lock()
	defer alphaMu.Unlock()
	if a, ok := alphaCache[def]; ok {
		return a
	}
	a, err := alphabet.NewAlphabet(def, feat.DNA, alphabet.Letter(def[0]), 'n', true)
	if err != nil {
		panic(err)
	}
	alphaCache[def] = a
	return a
}

func mkAligner(k Case) align.Aligner {
	switch k.Aligner {
	case "NW":
		return align.NW(k.handed())
	case "SW":
		return align.SW(k.handed())
	case "Fitted":
		return align.Fitted(k.handed())
	case "NWAffine":
		return align.NWAffine{Matrix: k.handed(), GapOpen: k.Open}
	case "SWAffine":
		return align.SWAffine{Matrix: k.handed(), GapOpen: k.Open}
	case "FittedAffine":
		return align.FittedAffine{Matrix: k.handed(), GapOpen: k.Open}
	}
	panic("aligner " + k.Aligner)
}

type scorer interface{ Score() int }

type seg struct {
	a0, a1, b0, b1 int
	score          int
}

func segments(ps []feat.Pair) []seg {
	out := make([]seg, len(ps))
	for i, p := range ps {
		f := p.Features()
		out[i] = seg{f[0].Start(), f[0].End(), f[1].Start(), f[1].End(), p.(scorer).Score()}
	}
	return out
}

func idx(def, s string) []int {
	out := make([]int, len(s))
	for i := range s {
		out[i] = strings.IndexByte(def, s[i])
	}
	return out
}

// pathScore recomputes the score of the described alignment from the letters; ok=false if
// the description is not a monotone path of blocks and one-sided gaps.
func pathScore(k Case, segs []seg, r, q []int) (total int, perRun []int, runOf []int, shape string) {
	kind := func(s seg) int { // 0 empty, 1 block, 2 gap in query (ref letters vs gap), 3 gap in ref
		la, lb := s.a1-s.a0, s.b1-s.b0
		switch {
		case la == 0 && lb == 0:
			return 0
		case la == lb:
			return 1
		case lb == 0 && la > 0:
			return 2
		case la == 0 && lb > 0:
			return 3
		}
		return -1
	}
	lastKind := 0
	for i, s := range segs {
		kd := kind(s)
		if kd < 0 {
			return 0, nil, nil, fmt.Sprintf("pair %d aligns %d reference letters with %d query letters: neither a block nor a one-sided gap", i, s.a1-s.a0, s.b1-s.b0)
		}
		if s.a0 < 0 || s.a1 > len(r) || s.b0 < 0 || s.b1 > len(q) || s.a0 > s.a1 || s.b0 > s.b1 {
			return 0, nil, nil, fmt.Sprintf("pair %d [%d,%d)/[%d,%d) is out of bounds", i, s.a0, s.a1, s.b0, s.b1)
		}
		if i > 0 && (segs[i-1].a1 != s.a0 || segs[i-1].b1 != s.b0) {
			return 0, nil, nil, fmt.Sprintf("pair %d [%d,%d)/[%d,%d) does not abut pair %d [%d,%d)/[%d,%d)", i, s.a0, s.a1, s.b0, s.b1, i-1, segs[i-1].a0, segs[i-1].a1, segs[i-1].b0, segs[i-1].b1)
		}
		v := 0
		switch kd {
		case 1:
			for x := 0; x < s.a1-s.a0; x++ {
				v += k.M[r[s.a0+x]][q[s.b0+x]]
			}
		case 2:
			for x := s.a0; x < s.a1; x++ {
				v += k.M[r[x]][0]
			}
		case 3:
			for x := s.b0; x < s.b1; x++ {
				v += k.M[0][q[x]]
			}
		}
		newRun := kd != lastKind || kd == 0 || len(perRun) == 0
		if kd == 0 {
			newRun = true
		}
		if newRun {
			if affineOf(k.Aligner) && (kd == 2 || kd == 3) {
				v += k.Open
			}
			perRun = append(perRun, v)
		} else {
			perRun[len(perRun)-1] += v
		}
		runOf = append(runOf, len(perRun)-1)
		total += v
		if kd != 0 {
			lastKind = kd
		}
	}
	return total, perRun, runOf, ""
}

// Result of evaluating one case against both properties.
type finding struct {
	prop  string
	class string
	msg   string
}

func seqOf(def, s string, ql bool) align.AlphabetSlicer {
	a := alpha(def)
	if ql {
		qs := make([]alphabet.QLetter, len(s))
		for i := range s {
			qs[i] = alphabet.QLetter{L: alphabet.Letter(s[i]), Q: alphabet.Qphred(20 + i)}
		}
		return linear.NewQSeq("q", qs, a, alphabet.Sanger)
	}
	return own.NewSeq("s", alphabet.BytesToLetters([]byte(s)), a)
}

func evaluate(k Case) (out []finding) {
	add := func(prop, class, f string, a ...interface{}) {
		out = append(out, finding{prop, k.Aligner + "/" + class, fmt.Sprintf(f, a...)})
	}
	defer func() {
		if r := recover(); r != nil {
			// a panic on well-typed input breaks both properties: nothing optimal was returned (C08) and Align panicked (C09)
			out = append(out, finding{"C09", k.Aligner + "/panic", fmt.Sprintf("Align(%q,%q) panicked: %v", k.R, k.Q, r)},
				finding{"C08", k.Aligner + "/panic", fmt.Sprintf("Align(%q,%q) returned no alignment: it panicked: %v", k.R, k.Q, r)})
		}
	}()
	al := mkAligner(k)
	reject(k, false)
	var refSeq, qrySeq align.AlphabetSlicer = seqOf(k.Letters, k.R, false), seqOf(k.Letters, k.Q, false)
	if k.R == k.Q {
		qrySeq = refSeq // a sequence aligned against itself: one object in both roles
	} else if (len(k.R)+len(k.Q))%2 == 1 && len(k.M) > 0 && k.M[0][0] == 0 {
		// a caller's own AlphabetSlicer that hands out the reads of a batch one after the other: what an
		// aligner is asked to align is what the sequence gives when the aligner asks for it (once)
		refSeq = &batch{alpha: refSeq.Alphabet(), reads: []alphabet.Letters{alphabet.BytesToLetters([]byte(k.R)), alphabet.BytesToLetters([]byte(k.Q + k.R))}}
	}
	ps, err := al.Align(refSeq, qrySeq)
	if err != nil {
		add("C09", "error-on-valid-input", "Align(%q,%q) = %v", k.R, k.Q, err)
		return
	}
	segs := segments(ps)
	r, q := idx(k.Letters, k.R), idx(k.Letters, k.Q)
	total, perRun, runOf, bad := pathScore(k, segs, r, q)
	if bad != "" {
		add("C09", "malformed-path", "%s (pairs %v)", bad, segs)
		return
	}
	md := modeOf(k.Aligner)
	// extents
	a0, a1, b0, b1 := 0, 0, 0, 0
	if len(segs) > 0 {
		a0, b0 = segs[0].a0, segs[0].b0
		a1, b1 = segs[len(segs)-1].a1, segs[len(segs)-1].b1
	}
	switch md {
	case global:
		if a0 != 0 || b0 != 0 || a1 != len(r) || b1 != len(q) {
			add("C09", "global-span", "global alignment covers reference [%d,%d) and query [%d,%d) of lengths %d and %d", a0, a1, b0, b1, len(r), len(q))
			return
		}
	case fitted:
		if b0 != 0 || b1 != len(q) {
			add("C08", "fitted-query-not-consumed", "fitted alignment of %q to %q covers query [%d,%d) of %d (pairs %v)", k.Q, k.R, b0, b1, len(q), segs)
			return
		}
	}
	// reported scores: per maximal run and in total
	reported := make([]int, len(perRun))
	sum := 0
	for i, s := range segs {
		reported[runOf[i]] += s.score
		sum += s.score
		if s.a0 == s.a1 && s.b0 == s.b1 && s.score != 0 {
			add("C09", "empty-pair-score", "empty pair %d reports score %d", i, s.score)
		}
	}
	for i := range perRun {
		if reported[i] != perRun[i] {
			add("C09", "reported-score", "%q vs %q: run %d of the path reports %d, recomputed from letters %d (pairs %v, total reported %d recomputed %d)", k.R, k.Q, i, reported[i], perRun[i], segs, sum, total)
			break
		}
	}
	// optimality
	optimal := func(segs []seg, total, sum, a1 int, tag string) {
		add := func(prop, class, f string, a ...interface{}) { add(prop, class+tag, f, a...) }
		if affineOf(k.Aligner) {
			unres, BU, DU := affineOpt(r, q, k.M, k.Open, md, true)
			res, BR, DR := affineOpt(r, q, k.M, k.Open, md, false)
			unresD, resD := unres, res
			if md == fitted {
				unres, res = BU[a1][len(q)], BR[a1][len(q)]
				// best alignments ending at the same reference position in an aligned pair
				unresD, resD = DU[a1][len(q)], DR[a1][len(q)]
			}
			switch {
			case total == unres:
			case total > unres:
				add("C08", "reference-bug", "path score %d exceeds the reference optimum %d", total, unres)
			case md == fitted && total == unresD:
				add("C08", "ends-on-aligned-pair-only", "%q vs %q: returned alignment scores %d = optimum among alignments ending in an aligned pair at reference position %d; an alignment ending in a gap there reaches %d (pairs %v)", k.R, k.Q, total, a1, unres, segs)
			case total == res || (md == fitted && total == resD):
				add("C08", "affine-no-gap-to-gap-transition", "%q vs %q: returned alignment scores %d = optimum of the model without insertion<->deletion transitions; adjacent opposite gaps reach %d (pairs %v)", k.R, k.Q, total, unres, segs)
			case total < res && !(md == fitted && total > resD):
				add("C08", "affine-below-restricted-optimum", "%q vs %q: returned alignment scores %d (reported %d), optimum %d (restricted model %d) (pairs %v)", k.R, k.Q, total, sum, unres, res, segs)
			default:
				add("C08", "affine-between", "%q vs %q: returned alignment scores %d, restricted optimum %d, optimum %d (pairs %v)", k.R, k.Q, total, res, unres, segs)
			}
		} else {
			opt, T := linearOpt(r, q, k.M, md)
			if md == fitted {
				opt = T[a1][len(q)]
			}
			if total != opt {
				add("C08", "not-optimal", "%q vs %q: returned alignment scores %d (reported %d), optimum %d (pairs %v)", k.R, k.Q, total, sum, opt, segs)
			}
		}
	}
	optimal(segs, total, sum, a1, "")
	// quality letters give the same pairs
	reject(k, true)
	qps, err := al.Align(seqOf(k.Letters, k.R, true), seqOf(k.Letters, k.Q, true)) // (two objects, also when the letters are equal)
	if err != nil {
		add("C09", "qletters-error", "quality-letter variant: %v", err)
	} else if qsegs := segments(qps); fmt.Sprint(qsegs) != fmt.Sprint(segs) {
		add("C09", "letters-vs-qletters", "plain letters give %v, quality letters give %v", segs, qsegs)
		// the quality-letter result is then judged for optimality on its own
		if qt, _, _, bad := pathScore(k, qsegs, r, q); bad == "" && len(qsegs) > 0 {
			qsum := 0
			for _, x := range qsegs {
				qsum += x.score
			}
			qa1, qb0, qb1 := qsegs[len(qsegs)-1].a1, qsegs[0].b0, qsegs[len(qsegs)-1].b1
			if md == fitted && (qb0 != 0 || qb1 != len(q)) {
				add("C08", "fitted-query-not-consumed/qletters", "quality-letter variant covers query [%d,%d) of %d", qb0, qb1, len(q))
			} else {
				optimal(qsegs, qt, qsum, qa1, "/qletters")
			}
		} else if bad != "" {
			add("C09", "malformed-path/qletters", "%s (pairs %v)", bad, qsegs)
		}
	}
	// Format: two equal-length rows that reduce to the aligned sub-sequences
	fr, fq := seqOf(k.Letters, k.R, false).(*linear.Seq), seqOf(k.Letters, k.Q, false).(*linear.Seq)
	rows := align.Format(fr, fq, ps, alphabet.Letter(k.Letters[0]))
	ra, rb := fmt.Sprint(rows[0]), fmt.Sprint(rows[1])
	// the rows are the caller's to write on: the aligned sequences stay what they were
	for _, row := range rows {
		if ls, ok := row.(alphabet.Letters); ok {
			for i := range ls {
				ls[i] = '!'
			}
		}
	}
	if fr.Seq.String() != k.R || fq.Seq.String() != k.Q {
		add("C09", "format-rows-share-the-sequences", "writing on the rows returned by Format changed the aligned sequences to %q / %q", fr.Seq, fq.Seq)
	}
	if len(ra) != len(rb) {
		add("C09", "format-length", "Format rows %q and %q differ in length", ra, rb)
	} else {
		ga := strings.ReplaceAll(ra, k.Letters[:1], "")
		gb := strings.ReplaceAll(rb, k.Letters[:1], "")
		if ga != strings.ReplaceAll(k.R[a0:a1], k.Letters[:1], "") || gb != strings.ReplaceAll(k.Q[b0:b1], k.Letters[:1], "") {
			add("C09", "format-content", "Format rows %q/%q reduce to %q/%q, aligned sub-sequences are %q/%q", ra, rb, ga, gb, k.R[a0:a1], k.Q[b0:b1])
		}
	}
	// Format of the same alignment over quality-carrying sequences: the letters of its rows are those of the
	// plain rendering (the gap side of a long gap pair is made by another routine there)
	func() {
		defer func() {
			if r := recover(); r != nil {
				add("C09", "format-qletters-panic", "Format over quality sequences panicked: %v", r)
			}
		}()
		qrows := align.Format(seqOf(k.Letters, k.R, true).(*linear.QSeq), seqOf(k.Letters, k.Q, true).(*linear.QSeq), ps, alphabet.Letter(k.Letters[0]))
		var got [2]string
		for i, row := range qrows {
			if ql, ok := row.(alphabet.QLetters); ok {
				b := make([]byte, len(ql))
				for j := range ql {
					b[j] = byte(ql[j].L)
				}
				got[i] = string(b)
			}
		}
		if got[0] != ra || got[1] != rb {
			add("C09", "format-qletters", "Format over quality sequences renders rows of %d and %d letters %q/%q, over plain sequences %d and %d: %q/%q", len(got[0]), len(got[1]), clipS(got[0]), clipS(got[1]), len(ra), len(rb), clipS(ra), clipS(rb))
		}
	}()
	// the description turned round with Invert (after it has been looked at): the same path with the
	// two sides exchanged, for Features and for Format alike; turned round again it is what it was
	invert := func() bool {
		for _, p := range ps {
			iv, ok := p.(interface{ Invert() })
			if !ok {
				return false
			}
			iv.Invert()
		}
		return true
	}
	if invert() {
		swapped := make([]seg, len(segs))
		for i, x := range segs {
			swapped[i] = seg{x.b0, x.b1, x.a0, x.a1, x.score}
		}
		if got := segments(ps); fmt.Sprint(got) != fmt.Sprint(swapped) {
			add("C09", "inverted-pairs", "after Invert the pairs read %v, before it %v", got, segs)
		} else {
			var ia, ib string
			func() {
				defer func() {
					if r := recover(); r != nil {
						add("C09", "inverted-format-panic", "Format(query, reference, inverted pairs) panicked: %v", r)
					}
				}()
				irows := align.Format(seqOf(k.Letters, k.Q, false).(*linear.Seq), seqOf(k.Letters, k.R, false).(*linear.Seq), ps, alphabet.Letter(k.Letters[0]))
				ia, ib = fmt.Sprint(irows[0]), fmt.Sprint(irows[1])
				if ia != rb || ib != ra {
					add("C09", "inverted-format", "Format(query, reference, inverted pairs) gives %q/%q, Format(reference, query, pairs) gave %q/%q", ia, ib, ra, rb)
				}
			}()
		}
		invert()
		if got := segments(ps); fmt.Sprint(got) != fmt.Sprint(segs) {
			add("C09", "inverted-twice", "after two Inverts the pairs read %v, before them %v", got, segs)
		}
	}
	return
}

// batch is an AlphabetSlicer of the harness's own: a cursor over a batch of reads, Slice gives the next one.
type batch struct {
	alpha alphabet.Alphabet
	reads []alphabet.Letters
	next  int
}

func (b *batch) Alphabet() alphabet.Alphabet { return b.alpha }
func (b *batch) Slice() alphabet.Slice {
	r := b.reads[b.next%len(b.reads)]
	b.next++
	return r
}

func clipS(s string) string {
	if len(s) > 80 {
		return s[:80] + "..."
	}
	return s
}

// illTyped evaluates one ill-typed call: it must return an error, not panic.
func illTyped(k Case) (out []finding) {
	defer func() {
		if r := recover(); r != nil {
			out = append(out, finding{"C09", k.Aligner + "/ill-typed-panic/" + strings.SplitN(k.Ill, ":", 2)[0], fmt.Sprintf("%s: Align(%q,%q) panicked: %v", k.Ill, k.R, k.Q, r)})
		}
	}()
	var ref, qry align.AlphabetSlicer = seqOf(k.Letters, k.R, false), seqOf(k.Letters, k.Q, false)
	kind := strings.SplitN(k.Ill, ":", 2)[0]
	switch kind {
	case "illegal-letter": // R or Q already contains a letter outside the alphabet
		if strings.Contains(k.Ill, "window") {
			long, short := ref.(*linear.Seq), qry.(*linear.Seq)
			if len(k.Q) > len(k.R) {
				long, short = short, long
			}
			short.Seq = long.Seq[:len(short.Seq)]
		}
	case "other-alphabet":
		a2, _ := alphabet.NewAlphabet(k.Letters, feat.DNA, alphabet.Letter(k.Letters[0]), 'n', true)
		qry = own.NewSeq("q", alphabet.BytesToLetters([]byte(k.Q)), a2)
	case "other-alphabet-row":
		// the query is a row of an alignment over ANOTHER alphabet object (the library's own row type: it has
		// an alphabet, and no slice to give)
		a2, _ := alphabet.NewAlphabet(k.Letters, feat.DNA, alphabet.Letter(k.Letters[0]), 'n', true)
		cols := make([][]alphabet.Letter, len(k.Q))
		for i := range cols {
			cols[i] = []alphabet.Letter{alphabet.Letter(k.Q[i])}
		}
		aln, err := alignment.NewSeq("aln", []string{"row"}, cols, a2, seq.DefaultConsensus)
		if err != nil {
			return nil
		}
		row, ok := aln.Row(0).(align.AlphabetSlicer)
		if !ok {
			return nil
		}
		qry = row
	case "mixed-types":
		qry = seqOf(k.Letters, k.Q, true)
	case "mixed-types-2":
		ref = seqOf(k.Letters, k.R, true)
	case "nil-alphabet":
		ref = own.NewSeq("r", alphabet.BytesToLetters([]byte(k.R)), nil)
		qry = own.NewSeq("q", alphabet.BytesToLetters([]byte(k.Q)), nil)
	case "no-leading-gap":
		def := k.Letters[1:] + k.Letters[:1]
		a2, _ := alphabet.NewAlphabet(def, feat.DNA, alphabet.Letter(k.Letters[0]), 'n', true)
		ref = own.NewSeq("r", alphabet.BytesToLetters([]byte(k.R)), a2)
		qry = own.NewSeq("q", alphabet.BytesToLetters([]byte(k.Q)), a2)
	case "ragged-matrix", "short-matrix", "non-square-matrix", "empty-matrix":
		// k.M is already malformed
	}
	_, err := mkAligner(k).Align(ref, qry)
	if err == nil {
		out = append(out, finding{"C09", k.Aligner + "/ill-typed-accepted/" + kind, fmt.Sprintf("%s: Align(%q,%q) with matrix %v returned no error", k.Ill, k.R, k.Q, k.M)})
	}
	return
}

func report(c *enum.Ctx, prop string, k Case, fs []finding) {
	for _, f := range fs {
		if f.prop == prop {
			c.Fail(f.class, k, "%s  [%s]", f.msg, enum.J(k))
		}
	}
}

// matrices enumerates scoring matrices for an alphabet of n letters (incl. gap): substitution
// entries from sub, gap entries from gp.
func matrices(n int, sub, gp []int, fn func(M [][]int)) {
	ns := (n - 1) * (n - 1)
	ng := 2 * (n - 1)
	rad := make([]int, ns+ng)
	for i := range rad {
		if i < ns {
			rad[i] = len(sub)
		} else {
			rad[i] = len(gp)
		}
	}
	enum.Product(rad, func(ix []int) {
		M := make([][]int, n)
		for i := range M {
			M[i] = make([]int, n)
		}
		p := 0
		for i := 1; i < n; i++ {
			for j := 1; j < n; j++ {
				M[i][j] = sub[ix[p]]
				p++
			}
		}
		for i := 1; i < n; i++ {
			M[i][0] = gp[ix[p]]
			p++
			M[0][i] = gp[ix[p]]
			p++
		}
		fn(M)
	})
}

// Main runs the check for prop ("C08" or "C09").
func Main(prop string) {
	enum.Main(prop, "exploration", func(c *enum.Ctx) { run(c, prop) }, func(c *enum.Ctx, in json.RawMessage) {
		var k Case
		if err := json.Unmarshal(in, &k); err != nil {
			panic(err)
		}
		fmt.Printf("case %s\n", enum.J(k))
		if k.Ill != "" {
			report(c, prop, k, illTyped(k))
		} else {
			report(c, prop, k, evaluate(k))
		}
	})
}

func run(c *enum.Ctx, prop string) {
	if prop == "C08" {
		c.Rule("alphabet '-ac' (gap first): every ordered pair of non-empty sequences of length <=3 over {a,c}; every 3x3 matrix with substitution entries in {-1,0,1} and the four gap entries in {0,-1}; gap-open in {0,-1,-2}; the six aligners; a third of the matrices reach the aligner in a matrix value that earlier alignments used with other contents (rewritten in place), a fifth embedded in a matrix two rows/columns larger than the alphabet (extra cells 55), a fifth as a copy-on-write edit of a block-allocated matrix (outer rows views of one block, inner rows replaced), and one goroutine sweeps every 7th matrix through a single matrix value, all aligners applied again after each rewrite (thorough: lengths <=4, substitution entries in {-2..2} on a sliced sub-grid, gap entries {0,-1,-2}, and the alphabet '-acg' with lengths <=2; lengths 5 on every 40th matrix of the small grid); alphabets '-acgtn' (thorough also gap + 20 letters) with two asymmetric all-different matrices and every pair of sequences of length <=2; a fixed word of 260 / 520 letters over '-acgt' against itself with one letter inserted or deleted at every position around 256 / 512 and with blocks of 63..129 letters missing from either side, all aligners, on one goroutine; a word against itself with a block of every length 1..300 missing from either side; matrices with entries of +-2^30 and +-2^40; every pair of words of length <=3 over '-ac' that holds the gap letter itself, on a slice of the matrices with the gap/gap cell 0 and -1; every word pair on a few matrices directly after a REJECTED call (illegal letter at each position of either sequence, ragged matrix sharing the rows of the good one, mixed sequence types, distinct alphabet objects) on the same goroutine; oracle: the score of the RETURNED PATH recomputed from the letters equals the optimum of an independent reference DP (global / local / whole-query-ending-at-the-same-reference-position; affine: three-state with and without gap-to-gap transitions so that the two defect classes are told apart); non-trivial = cases whose optimal alignment contains at least one gap or mismatch")
	} else {
		c.Rule("every alignment produced in C08's space: monotone abutting path of equal-length blocks, one-sided gaps and empty zero-score pairs; global spans both sequences, local/fitted within bounds; per maximal run the reported scores equal the score recomputed from letters, matrix and gap parameters (gap-open once per run); plain and quality letters give identical pairs; half the pairs reach the aligner through a caller's own AlphabetSlicer that hands out the reads of a batch one after the other; align.Format gives two equal-length rows that reduce to the aligned sub-sequences, over quality-carrying sequences the same letters; the pairs turned round with Invert after they have been read describe the same path with the sides exchanged (Features and Format), and turned round twice are what they were; plus ill-typed calls (an illegal letter at every position of either sequence, distinct alphabet objects, mixed Letters/QLetters, nil alphabet, alphabet without leading gap, ragged / non-square / undersized / empty matrices, among them every shape of 1..5 rows with each row as long as the row count or one off it) which must return an error and never panic; non-trivial = all")
	}
	c.Assume("gap scores and gap-open are non-positive; sequences that hold the gap letter itself only in the family made for them (lengths <=3 over '-ac')")
	maxLen, sub, gp := 3, []int{-1, 0, 1}, []int{0, -1}
	if !c.Quick {
		maxLen, sub, gp = 4, []int{-2, -1, 0, 1, 2}, []int{0, -1, -2}
	}
	def := "-ac"
	var words []string
	enum.Strings("ac", 1, maxLen, func(s []byte) { words = append(words, string(s)) })
	var mats [][][]int
	matrices(3, sub, gp, func(M [][]int) { mats = append(mats, M) })
	if !c.Quick {
		// slice: keep every 3rd matrix of the large grid plus all of the small grid
		var keep [][][]int
		for i, M := range mats {
			if i%3 == 0 {
				keep = append(keep, M)
			}
		}
		mats = keep
		matrices(3, []int{-1, 0, 1}, []int{0, -1}, func(M [][]int) { mats = append(mats, M) })
	}
	// a family with strong matches, so that gapped local and fitted alignments are optimal
	for _, match := range []int{2, 3} {
		for _, mis := range []int{-1, -3} {
			enum.Product([]int{2, 2, 2, 2}, func(ix []int) {
				g := func(i int) int { return -ix[i] }
				mats = append(mats, [][]int{{0, g(0), g(1)}, {g(2), match, mis}, {g(3), mis, match}})
			})
		}
	}
	opens := []int{0, -1, -2}
	var evals, nontriv atomic.Int64
	enum.Parallel(len(mats), func(mi int) {
		M := mats[mi]
		nt := enum.NontrivialSet{}
		// a third of the matrices reach the aligners in a value rewritten in place, a fifth padded
		var use [][]int
		handedAs := ""
		switch {
		case mi%3 == 0:
			use, handedAs = rewritten(M), "rewritten"
			defer func() { scratchMatrices <- use }()
		case mi%5 == 1:
			handedAs = "padded"
		case mi%5 == 2:
			handedAs = "derived"
		}
		for _, al := range aligners {
			ops := []int{0}
			if affineOf(al) {
				ops = opens
			}
			for _, op := range ops {
				for _, r := range words {
					for _, q := range words {
						k := Case{Aligner: al, R: r, Q: q, Letters: def, M: M, Open: op, Handed: handedAs, use: use}
						c.Doing(mi, k)
						c.Eval()
						fs := evaluate(k)
						report(c, prop, k, fs)
						if r != q {
							nt.AddH(enum.Hash64(fmt.Sprint(al, op, r, q, mi)))
						}
					}
				}
			}
		}
		c.Merge(nt)
		if mi%331 == 7 {
			c.Sample(Case{Aligner: "NWAffine", R: "aca", Q: "ca", Letters: def, M: M, Open: -1})
		}
	})
	_ = evals
	_ = nontriv
	// a parameter sweep on ONE goroutine: a single matrix value is rewritten in place from one matrix
	// to the next and every aligner is applied again at once (whatever an aligner remembers about a
	// matrix value it has seen must not survive a change of its contents)
	{
		var sweepWords []string
		enum.Strings(def[1:], 1, 3, func(s []byte) {
			if len(s) < 3 || s[0] != s[1] {
				sweepWords = append(sweepWords, string(s))
			}
		})
		// once upwards through the enumeration and once downwards (scores that rise, scores that fall), each
		// with a matrix value of its own
		for _, down := range []bool{false, true} {
			w := make([][]int, len(def))
			for i := range w {
				w[i] = make([]int, len(def))
			}
			for step := 0; step*7 < len(mats); step++ {
				mi := step * 7
				if down {
					mi = len(mats) - 1 - step*7
				}
				for i := range w {
					copy(w[i], mats[mi][i])
				}
				for _, al := range aligners {
					for _, r := range sweepWords {
						for _, q := range sweepWords {
							k := Case{Aligner: al, R: r, Q: q, Letters: def, M: mats[mi], Open: -1, Handed: "rewritten", use: w}
							c.Doing(0, k)
							c.Eval()
							report(c, prop, k, evaluate(k))
						}
					}
				}
			}
		}
	}
	// an ordinary call directly after a REJECTED one, on one goroutine (what a failed call leaves in a
	// pool or a cache is handed to the next caller): every rejection x every word pair x a few matrices
	{
		var rejs []string
		for _, w := range []string{"xca", "axa", "acx", "acacx", "xcaca"} {
			for _, o := range []string{"a", "ac", "acac"} {
				rejs = append(rejs, "ref:"+w+"|"+o, "qry:"+o+"|"+w)
			}
		}
		rejs = append(rejs, "ragged:0", "ragged:1", "ragged:2", "mixed", "alphabet")
		var after [][][]int
		for i := 0; i < len(mats); i += len(mats)/3 + 1 {
			after = append(after, mats[i])
		}
		after = append(after, mats[len(mats)-1], mats[len(mats)-7], [][]int{{0, -1, -1}, {-1, 1, -1}, {-1, -1, 1}})
		if c.Quick {
			after = after[len(after)-3:]
		}
		n := 0
		for _, M := range after {
			for _, al := range aligners {
				for _, rj := range rejs {
					for _, r := range words {
						for _, q := range words {
							if len(r) > 3 || len(q) > 3 {
								continue
							}
							// a matrix value of its own: the rejected call is the first to see its storage
							fresh := make([][]int, len(M))
							for i := range M {
								fresh[i] = append([]int(nil), M[i]...)
							}
							k := Case{Aligner: al, R: r, Q: q, Letters: def, M: M, Open: -1, After: rj, use: fresh}
							c.Doing(0, k)
							c.Eval()
							report(c, prop, k, evaluate(k))
							n++
						}
					}
				}
			}
		}
		c.Set("calls_after_a_rejected_call", n)
	}
	// sequences that hold the gap letter itself (a legal letter of a gapped alphabet: row/column 0 of the
	// matrix is then a substitution row as well as the gap penalties), every pair with at least one gap
	// letter, on a slice of the matrices with the gap/gap cell 0 and -1
	{
		var gwords []string
		enum.Strings(def, 1, 3, func(s []byte) { gwords = append(gwords, string(s)) })
		var gm [][][]int
		step := len(mats)/40 + 1
		if !c.Quick {
			step = len(mats)/400 + 1
		}
		for i := 0; i < len(mats); i += step {
			for _, gg := range []int{0, -1} {
				M := [][]int{append([]int{}, mats[i][0]...), mats[i][1], mats[i][2]}
				M[0][0] = gg
				gm = append(gm, M)
			}
		}
		var n atomic.Int64
		enum.Parallel(len(gm), func(mi int) {
			for _, al := range aligners {
				op := -(mi % 3)
				if !affineOf(al) {
					op = 0
				}
				for _, r := range gwords {
					for _, q := range gwords {
						if !strings.Contains(r+q, def[:1]) {
							continue
						}
						k := Case{Aligner: al, R: r, Q: q, Letters: def, M: gm[mi], Open: op}
						c.Doing(mi, k)
						c.Eval()
						report(c, prop, k, evaluate(k))
						n.Add(1)
					}
				}
			}
		})
		c.Set("cases_with_the_gap_letter_in_a_sequence", int(n.Load()))
	}
	// four-letter alphabet, short sequences
	def4 := "-acg"
	var words4 []string
	l4 := 2
	enum.Strings("acg", 1, l4, func(s []byte) { words4 = append(words4, string(s)) })
	var mats4 [][][]int
	matrices(4, []int{-1, 1}, []int{0, -1}, func(M [][]int) { mats4 = append(mats4, M) })
	stride := 37
	if !c.Quick {
		stride = 5
	}
	enum.Parallel(len(mats4), func(mi int) {
		if mi%stride != 0 {
			return
		}
		M := mats4[mi]
		for _, al := range aligners {
			for _, r := range words4 {
				for _, q := range words4 {
					k := Case{Aligner: al, R: r, Q: q, Letters: def4, M: M, Open: -1}
					c.Doing(mi, k)
					c.Eval()
					report(c, prop, k, evaluate(k))
				}
			}
		}
	})
	// a larger alphabet (gap + 5 letters; thorough: gap + 20, the size of a protein alphabet) with
	// asymmetric matrices whose entries are all different, sequences of length <= 2: every letter pair
	// reaches the aligner, so an index computed with the wrong stride or the operands exchanged shows
	{
		defs := []string{"-acgtn"}
		if !c.Quick {
			defs = append(defs, "-acdefghiklmnpqrstvwy")
		}
		for _, d := range defs {
			n := len(d)
			var ms [][][]int
			for variant := 0; variant < 2; variant++ {
				M := make([][]int, n)
				for i := range M {
					M[i] = make([]int, n)
					for j := range M[i] {
						switch {
						case i == 0 && j == 0:
						case i == 0 || j == 0:
							M[i][j] = -1 - (i+2*j+variant)%3 // gap penalties differ by letter and by side
						case i == j:
							M[i][j] = 2 + (i+variant)%3
						default:
							M[i][j] = -((3*i + 5*j + variant) % 4) // not symmetric
						}
					}
				}
				ms = append(ms, M)
			}
			var ws []string
			enum.Strings(d[1:], 1, 2, func(b []byte) { ws = append(ws, string(b)) })
			type job struct {
				M  [][]int
				al string
				r  string
			}
			var jobs []job
			for _, M := range ms {
				for _, al := range aligners {
					for _, r := range ws {
						jobs = append(jobs, job{M, al, r})
					}
				}
			}
			enum.Parallel(len(jobs), func(ji int) {
				j := jobs[ji]
				for _, q := range ws {
					k := Case{Aligner: j.al, R: j.r, Q: q, Letters: d, M: j.M, Open: -2}
					c.Doing(ji, k)
					c.Eval()
					report(c, prop, k, evaluate(k))
				}
			})
		}
	}
	if !c.Quick {
		// lengths up to 5 on a slice of the small grid
		var words5 []string
		enum.Strings("ac", 1, 5, func(b []byte) { words5 = append(words5, string(b)) })
		var slice [][][]int
		matrices(3, []int{-1, 0, 1}, []int{0, -1}, func(M [][]int) { slice = append(slice, M) })
		type job struct {
			M  [][]int
			al string
			op int
		}
		var jobs []job
		for mi := 3; mi < len(slice); mi += 40 {
			for _, al := range aligners {
				ops := []int{0}
				if affineOf(al) {
					ops = opens
				}
				for _, op := range ops {
					jobs = append(jobs, job{slice[mi], al, op})
				}
			}
		}
		enum.Parallel(len(jobs), func(ji int) {
			j := jobs[ji]
			for _, r := range words5 {
				for _, q := range words5 {
					if len(r) < 5 && len(q) < 5 {
						continue // covered above
					}
					k := Case{Aligner: j.al, R: r, Q: q, Letters: def, M: j.M, Open: j.op}
					c.Doing(ji, k)
					c.Eval()
					report(c, prop, k, evaluate(k))
				}
			}
		})
	}
	// long sequences (the size ladder of the tables): a fixed 5-letter-alphabet word of 260 / 520 letters
	// against itself with one letter inserted or deleted at every position around 256 / 512 (the path takes
	// a gap step exactly there), or with a block of 63..129 letters missing from either side (a gap run of
	// exactly that length, also through Format); all on ONE goroutine, so that consecutive large alignments
	// of different pairs meet whatever the previous one left in a pooled table
	{
		d := "-acgt"
		M1 := [][]int{{0, -1, -1, -1, -1}, {-1, 3, -3, -3, -3}, {-1, -3, 3, -3, -3}, {-1, -3, -3, 3, -3}, {-1, -3, -3, -3, 3}}
		M2 := [][]int{{0, -2, -1, -2, -1}, {-1, 4, -3, -2, -3}, {-2, -3, 3, -3, -1}, {-1, -2, -3, 4, -3}, {-2, -3, -2, -3, 3}}
		word := func(n, salt int) string {
			b := make([]byte, n)
			x := uint32(2463534242 + salt)
			for i := range b {
				x ^= x << 13
				x ^= x >> 17
				x ^= x << 5
				b[i] = "acgt"[x%4]
			}
			return string(b)
		}
		type pr struct{ r, q string }
		var prs []pr
		for _, n := range []int{260, 520} {
			R := word(n, n)
			lo, hi := n-10, n-1
			if n == 260 {
				lo = 250
			} else if c.Quick {
				lo, hi = 509, 516
			} else {
				lo = 505
			}
			for p := lo; p <= hi && p < n; p++ {
				x := "acgt"[(strings.IndexByte("acgt", R[p])+1)%4]
				prs = append(prs, pr{R, R[:p] + string(x) + R[p:]}, pr{R, R[:p] + R[p+1:]}, pr{R[:p] + R[p+1:], R})
			}
		}
		R := word(260, 7)
		for _, g := range []int{63, 64, 65, 127, 128, 129} {
			prs = append(prs, pr{R, R[:70] + R[70+g:]}, pr{R[:60] + R[60+g:], R})
		}
		n := 0
		for _, al := range aligners {
			for pi, p := range prs {
				M := M1
				if (pi+len(al))%3 == 0 {
					M = M2
				}
				// each near-identical pair is followed by an unrelated pair with a slightly smaller table (still above 65536 cells) on the same
				// aligner (what the first leaves behind is wrong for the second)
				for _, q := range []pr{p, {word(257+pi%2, 1000+pi), word(257+(pi/2)%2, 2000+pi)}} { // the second table fits in the first
					k := Case{Aligner: al, R: q.r, Q: q.q, Letters: d, M: M, Open: -2}
					c.Doing(0, k)
					c.Eval()
					report(c, prop, k, evaluate(k))
					n++
				}
			}
		}
		// a gap run of EVERY length 1..300 (cut-offs in the rendering of gaps need not be round numbers): a
		// word against itself with that many letters missing, on either side; and scores far beyond 32 bits
		for g := 1; g <= 300; g++ {
			W := word(g+24, 5000+g)
			for ai, al := range aligners {
				if (g+ai)%3 != 0 && g%60 > 2 && g%50 > 2 && g%64 > 2 {
					continue // every aligner at every third length, all of them around the multiples of 50, 60, 64
				}
				for _, q := range []pr{{W, W[:12] + W[12+g:]}, {W[:12] + W[12+g:], W}} {
					k := Case{Aligner: al, R: q.r, Q: q.q, Letters: d, M: M1, Open: -2}
					c.Doing(0, k)
					c.Eval()
					report(c, prop, k, evaluate(k))
					n++
				}
			}
		}
		for _, big := range []int{1 << 30, 1 << 40} {
			MB := [][]int{{0, -big / 2, -big / 2, -big / 2, -big / 2}, {-big / 2, big, -big, -big, -big}, {-big / 2, -big, big, -big, -big}, {-big / 2, -big, -big, big, -big}, {-big / 2, -big, -big, -big, big}}
			for _, al := range aligners {
				for _, q := range []pr{{"acgtacgt", "acgtacgt"}, {"aaaa", "aaa"}, {"acgtta", "cgtt"}, {"ccacgtcc", "acgt"}, {"acgt", "tgca"}} {
					k := Case{Aligner: al, R: q.r, Q: q.q, Letters: d, M: MB, Open: -big / 4}
					c.Doing(0, k)
					c.Eval()
					report(c, prop, k, evaluate(k))
					n++
				}
			}
		}
		c.Set("long_sequence_cases", n)
	}
	if prop != "C09" {
		return
	}
	// ill-typed calls
	good := [][]int{{0, -1, -1}, {-1, 1, -1}, {-1, -1, 1}}
	var ills []Case
	for _, al := range aligners {
		for _, w := range []string{"a", "ac", "aca"} {
			for p := 0; p < len(w); p++ {
				bad := w[:p] + "x" + w[p+1:]
				ills = append(ills, Case{Aligner: al, R: bad, Q: "ac", Letters: def, M: good, Open: -1, Ill: fmt.Sprintf("illegal-letter: reference position %d", p)})
				ills = append(ills, Case{Aligner: al, R: "ca", Q: bad, Letters: def, M: good, Open: -1, Ill: fmt.Sprintf("illegal-letter: query position %d", p)})
			}
		}
		for _, kind := range []string{"other-alphabet", "other-alphabet-row", "mixed-types", "mixed-types-2", "nil-alphabet", "no-leading-gap"} {
			ills = append(ills, Case{Aligner: al, R: "aca", Q: "ca", Letters: def, M: good, Open: -1, Ill: kind})
		}
		ills = append(ills,
			Case{Aligner: al, R: "aca", Q: "ca", Letters: def, M: [][]int{{0, -1, -1}, {-1, 1}, {-1, -1, 1}}, Open: -1, Ill: "ragged-matrix"},
			Case{Aligner: al, R: "aca", Q: "ca", Letters: def, M: [][]int{{0, -1, -1}, {-1, 1, -1}, {-1, -1}}, Open: -1, Ill: "ragged-matrix: last row short"},
			Case{Aligner: al, R: "aca", Q: "ca", Letters: def, M: [][]int{{0, -1, -1}, {-1, 1, -1}, {-1, -1, 1, 0}}, Open: -1, Ill: "ragged-matrix: last row long"},
			Case{Aligner: al, R: "aca", Q: "ca", Letters: def, M: [][]int{{0, -1}, {-1, 1, -1}, {-1, -1, 1}}, Open: -1, Ill: "ragged-matrix: first row short"},
			Case{Aligner: al, R: "aca", Q: "ca", Letters: def, M: [][]int{{0, -1}, {-1, 1}}, Open: -1, Ill: "short-matrix: 2x2 for a 3-letter alphabet"},
			Case{Aligner: al, R: "aca", Q: "ca", Letters: def, M: [][]int{{0, -1, -1, 0}, {-1, 1, -1, 0}, {-1, -1, 1, 0}}, Open: -1, Ill: "non-square-matrix: 3x4"},
			Case{Aligner: al, R: "aca", Q: "ca", Letters: def, M: [][]int{}, Open: -1, Ill: "empty-matrix"},
			Case{Aligner: al, R: "aca", Q: "ca", Letters: def, M: [][]int{{0, -1, -1}}, Open: -1, Ill: "short-matrix: 1x3"},
		)
	}
	// the reference is a leading window of the query's own storage and the illegal letter lies beyond it
	for _, al := range aligners {
		ills = append(ills, Case{Aligner: al, R: "ac", Q: "acx", Letters: def, M: good, Open: -1, Ill: "illegal-letter: query position 2, the reference a window of the query's storage"})
		ills = append(ills, Case{Aligner: al, R: "acxa", Q: "ac", Letters: def, M: good, Open: -1, Ill: "illegal-letter: reference position 2, the query a window of the reference's storage"})
	}
	// every matrix shape of 1..5 rows whose row lengths are the row count or one off it, except the
	// square ones that cover the alphabet (cells: 1 on the diagonal, -1 elsewhere)
	shapes := 0
	for rows := 1; rows <= 5; rows++ {
		rad := make([]int, rows)
		for i := range rad {
			rad[i] = 3
		}
		enum.Product(rad, func(ix []int) {
			square := true
			M := make([][]int, rows)
			for i, d := range ix {
				n := rows - 1 + d
				square = square && n == rows
				M[i] = make([]int, n)
				for j := range M[i] {
					M[i][j] = -1
					if i == j && i > 0 {
						M[i][j] = 1
					}
				}
			}
			if square && rows >= 3 {
				return
			}
			shapes++
			kind := "ragged-matrix"
			if square {
				kind = "short-matrix"
			}
			for _, al := range aligners {
				ills = append(ills, Case{Aligner: al, R: "aca", Q: "ca", Letters: def, M: M, Open: -1, Ill: fmt.Sprintf("%s: row lengths %v", kind, ix)})
			}
		})
	}
	c.Set("ill_matrix_shapes", shapes)
	for _, k := range ills {
		c.Doing(0, k)
		c.Eval()
		c.Nontrivial(enum.J(k))
		report(c, prop, k, illTyped(k))
	}
	c.Set("ill_typed_calls", len(ills))
}
