package alncheck

// Independent reference dynamic programmes.  Matrices are indexed
// M[reference letter index][query letter index], index 0 being the gap letter:
// M[x][0] is reference letter x against a gap, M[0][y] is query letter y against a gap.

const negInf = -1 << 60 // far below any score the cases can reach (entries up to 2^40, sequences of a few hundred letters)

func max2(a, b int) int {
	if a > b {
		return a
	}
	return b
}

func max3(a, b, c int) int { return max2(a, max2(b, c)) }

type mode int

const (
	global mode = iota
	local
	fitted
)

// linearOpt returns the optimal score table T (global / fitted: T[i][j] is the best score of
// aligning r[:i] (fitted: any suffix of r[:i]) with q[:j]); for local the best cell value.
func linearOpt(r, q []int, M [][]int, md mode) (best int, T [][]int) {
	n, m := len(r), len(q)
	T = make([][]int, n+1)
	for i := range T {
		T[i] = make([]int, m+1)
	}
	for j := 1; j <= m; j++ {
		T[0][j] = T[0][j-1] + M[0][q[j-1]]
		if md == local {
			T[0][j] = 0
		}
	}
	for i := 1; i <= n; i++ {
		switch md {
		case global:
			T[i][0] = T[i-1][0] + M[r[i-1]][0]
		default:
			T[i][0] = 0
		}
		for j := 1; j <= m; j++ {
			v := max3(T[i-1][j-1]+M[r[i-1]][q[j-1]], T[i-1][j]+M[r[i-1]][0], T[i][j-1]+M[0][q[j-1]])
			if md == local && v < 0 {
				v = 0
			}
			T[i][j] = v
			if md == local && v > best {
				best = v
			}
		}
	}
	if md == global {
		best = T[n][m]
	}
	return best, T
}

// affineOpt: three-state Gotoh.  A maximal run of gap columns in one sequence costs
// open + sum of its extension entries.  crossing=false forbids a gap run in one sequence
// directly followed by a gap run in the other (the textbook-restricted model).
// Returns per-cell best over the three states.
func affineOpt(r, q []int, M [][]int, open int, md mode, crossing bool) (best int, B [][]int, DD [][]int) {
	n, m := len(r), len(q)
	mk := func() [][]int {
		t := make([][]int, n+1)
		for i := range t {
			t[i] = make([]int, m+1)
			for j := range t[i] {
				t[i][j] = negInf
			}
		}
		return t
	}
	D, U, L := mk(), mk(), mk()
	B = mk()
	D[0][0] = 0
	for j := 1; j <= m; j++ {
		if md == local {
			D[0][j] = 0
		} else if j == 1 {
			L[0][j] = open + M[0][q[0]]
		} else {
			L[0][j] = L[0][j-1] + M[0][q[j-1]]
		}
	}
	for i := 1; i <= n; i++ {
		switch md {
		case global:
			if i == 1 {
				U[i][0] = open + M[r[0]][0]
			} else {
				U[i][0] = U[i-1][0] + M[r[i-1]][0]
			}
		default:
			D[i][0] = 0 // free start anywhere in the reference
		}
	}
	add := func(a, b int) int {
		if a <= negInf/2 {
			return negInf
		}
		return a + b
	}
	for i := 0; i <= n; i++ {
		for j := 0; j <= m; j++ {
			if i > 0 && j > 0 {
				d := max3(D[i-1][j-1], U[i-1][j-1], L[i-1][j-1])
				if md == local && d < 0 {
					d = 0
				}
				D[i][j] = add(d, M[r[i-1]][q[j-1]])
				u := max2(add(D[i-1][j], open), U[i-1][j])
				if crossing {
					u = max2(u, add(L[i-1][j], open))
				}
				U[i][j] = add(u, M[r[i-1]][0])
				l := max2(add(D[i][j-1], open), L[i][j-1])
				if crossing {
					l = max2(l, add(U[i][j-1], open))
				}
				L[i][j] = add(l, M[0][q[j-1]])
			}
			B[i][j] = max3(D[i][j], U[i][j], L[i][j])
			if md == local && i > 0 && j > 0 && D[i][j] > best {
				best = D[i][j]
			}
		}
	}
	if md == global {
		best = B[n][m]
	}
	return best, B, D
}
