// Package seqgen holds the record generators shared by the FASTA/FASTQ checks
// (C01 round trip, C04 layout independence).
package seqgen

import (
	"bytes"
	"fmt"
	"io"
	"strings"
	"verif/h/own"

	"github.com/biogo/biogo/alphabet"
	"github.com/biogo/biogo/io/seqio"
	"github.com/biogo/biogo/io/seqio/fasta"
	"github.com/biogo/biogo/io/seqio/fastq"
	"github.com/biogo/biogo/seq"
	"github.com/biogo/biogo/seq/linear"
)

// Rec is a sequence record in plain data.
type Rec struct {
	Name    string `json:"name"`
	Desc    string `json:"desc"`
	Letters string `json:"letters"`
	Quals   []int  `json:"quals,omitempty"` // Phred scores, FASTQ only
}

func (r Rec) String() string { return fmt.Sprintf("%q %q %q %v", r.Name, r.Desc, r.Letters, r.Quals) }

// Fill returns a position dependent letter string of length n over alpha.
func Fill(alpha string, n int) string {
	b := make([]byte, n)
	for i := range b {
		b[i] = alpha[(i*7+i/5+i/4096)%len(alpha)]
	}
	return string(b)
}

var Names = []string{"", "a", ">", "@x", "+", "a>b@+"}
var Descs = []string{"", "d", "two words", ">", "@", "+x", "two  blanks"}

// Encodings with a Phred offset.
var Encodings = []alphabet.Encoding{alphabet.Sanger, alphabet.Illumina1_3, alphabet.Illumina1_5, alphabet.Illumina1_8, alphabet.Illumina1_9}

// QualAlphabet returns the four interesting scores of an encoding: lowest,
// one encoding to '@' (or next to it), one encoding to '+' (or next to lowest), highest.
func QualAlphabet(e alphabet.Encoding) []int {
	switch e {
	case alphabet.Illumina1_3:
		return []int{0, 1, 30, 62}
	case alphabet.Illumina1_5:
		return []int{2, 3, 30, 62}
	}
	return []int{0, 31, 10, 93} // '!' '@' '+' '~'
}

// Make builds the real sequence for a record.
func Make(r Rec, q bool, protein bool, enc alphabet.Encoding) seq.Sequence {
	var a alphabet.Alphabet = alphabet.DNA
	if protein {
		a = alphabet.Protein
	}
	if q {
		ql := make([]alphabet.QLetter, len(r.Letters))
		for i := range ql {
			ql[i].L = alphabet.Letter(r.Letters[i])
			if i < len(r.Quals) {
				ql[i].Q = alphabet.Qphred(r.Quals[i])
			} else {
				ql[i].Q = 40
			}
		}
		s := linear.NewQSeq(r.Name, ql, a, enc)
		s.Desc = r.Desc
		return s
	}
	s := own.NewSeq(r.Name, alphabet.BytesToLetters([]byte(r.Letters)), a)
	s.Desc = r.Desc
	return s
}

// Template returns an empty template sequence.
func Template(q bool, protein bool, enc alphabet.Encoding) seqio.SequenceAppender {
	var a alphabet.Alphabet = alphabet.DNA
	if protein {
		a = alphabet.Protein
	}
	if q {
		return linear.NewQSeq("", nil, a, enc)
	}
	return linear.NewSeq("", nil, a)
}

// Back converts a parsed sequence to plain data.
func Back(s seq.Sequence, withQ bool) Rec {
	r := Rec{Name: s.Name(), Desc: s.Description()}
	b := make([]byte, 0, s.Len())
	for i := s.Start(); i < s.End(); i++ {
		ql := s.At(i)
		b = append(b, byte(ql.L))
		if withQ {
			r.Quals = append(r.Quals, int(ql.Q))
		}
	}
	r.Letters = string(b)
	return r
}

// Companion is a second reader of the same format but another configuration (another encoding, other
// line lengths) that is advanced in lock step with the reader under test: two readers alive at once
// must not disturb each other.
type Companion struct {
	rd   seqio.Reader
	want []Rec
	got  []seq.Sequence
	done bool
	err  error
}

var companionFasta = func() (string, []Rec) {
	long := Fill("acgtn", 5000)
	text := ">c1 long line\n" + long + "\n>c2\nacg\ntac\ngt\n>c3 last one\nttgaca\n"
	return text, []Rec{{Name: "c1", Desc: "long line", Letters: long}, {Name: "c2", Letters: "acgtacgt"}, {Name: "c3", Desc: "last one", Letters: "ttgaca"}}
}

var companionFastq = func() (string, []Rec) {
	quals := [][]byte{[]byte(";<=>?@AB"), []byte("hgfedcba"), []byte("@@")}
	lets := []string{"acgtacgt", "ttgacaga", "gc"}
	var sb strings.Builder
	var recs []Rec
	for i, l := range lets {
		fmt.Fprintf(&sb, "@s%d solexa\n%s\n+\n%s\n", i, l, quals[i])
		r := Rec{Name: fmt.Sprint("s", i), Desc: "solexa", Letters: l}
		for _, b := range quals[i] {
			r.Quals = append(r.Quals, int(alphabet.Solexa.DecodeToQphred(b)))
		}
		recs = append(recs, r)
	}
	return sb.String(), recs
}

// NewCompanion returns a companion for format "fasta" or "fastq" (a Solexa-encoded file).
func NewCompanion(format string) *Companion {
	if format == "fasta" {
		text, want := companionFasta()
		return &Companion{rd: fasta.NewReader(strings.NewReader(text), linear.NewSeq("", nil, alphabet.DNA)), want: want}
	}
	text, want := companionFastq()
	return &Companion{rd: fastq.NewReader(strings.NewReader(text), linear.NewQSeq("", nil, alphabet.DNA, alphabet.Solexa)), want: want}
}

// Step makes one Read on the companion (nothing once it has ended).
func (c *Companion) Step() {
	if c == nil || c.done {
		return
	}
	s, err := c.rd.Read()
	if err != nil {
		c.done = true
		if err != io.EOF {
			c.err = err
		}
		return
	}
	c.got = append(c.got, s)
}

// Verdict drains the companion and reports how what it read differs from its own file ("" = nothing).
func (c *Companion) Verdict() string {
	if c == nil {
		return ""
	}
	for i := 0; i < len(c.want)+2 && !c.done; i++ {
		c.Step()
	}
	if c.err != nil {
		return "the companion reader failed: " + c.err.Error()
	}
	var got []Rec
	for _, s := range c.got {
		_, q := s.(*linear.QSeq)
		got = append(got, Back(s, q))
	}
	if msg := Same(got, c.want, len(c.want) > 0 && c.want[0].Quals != nil); msg != "" {
		return "a second reader, advanced alternately, read its own file wrongly: " + msg
	}
	return ""
}

// ReadAll reads every record; it stops at the first error (io.EOF is success)
// and never makes more than limit calls.
func ReadAll(rd seqio.Reader, withQ bool, limit int) (recs []Rec, calls int, err error) {
	return ReadAllWith(rd, nil, withQ, limit)
}

// ReadAllWith is ReadAll with a companion reader stepped before every Read of rd.
func ReadAllWith(rd seqio.Reader, comp *Companion, withQ bool, limit int) (recs []Rec, calls int, err error) {
	// The records are looked at only after the last Read returned: a caller that
	// collects a file must not find an earlier record changed by a later Read.
	var seqs []seq.Sequence
	defer func() {
		for _, s := range seqs {
			recs = append(recs, Back(s, withQ))
		}
	}()
	for calls < limit {
		calls++
		comp.Step()
		s, e := rd.Read()
		if e != nil {
			if e == io.EOF {
				return recs, calls, nil
			}
			return recs, calls, e
		}
		if s == nil {
			return recs, calls, fmt.Errorf("nil sequence with nil error")
		}
		seqs = append(seqs, s)
	}
	return recs, calls, fmt.Errorf("no io.EOF within %d calls", limit)
}

// WriteFasta writes the records, checking the byte counts; returns the text.
func WriteFasta(recs []Rec, q, protein bool, width int) ([]byte, error) {
	var buf bytes.Buffer
	w := fasta.NewWriter(&buf, width)
	var prev seq.Sequence
	prevKey := ""
	for i, r := range recs {
		before := buf.Len()
		obj := prev // a record that equals the one before it: the same object written twice
		if key := r.String(); prev == nil || key != prevKey {
			obj, prevKey = Make(r, q, protein, alphabet.Sanger), key
		}
		prev = obj
		n, err := w.Write(obj)
		if err != nil {
			return nil, err
		}
		if n != buf.Len()-before {
			return nil, fmt.Errorf("BYTECOUNT record %d: Write returned %d, %d bytes were emitted", i, n, buf.Len()-before)
		}
	}
	return buf.Bytes(), nil
}

// WriteFastq writes the records, checking the byte counts; returns the text.
func WriteFastq(recs []Rec, q bool, enc alphabet.Encoding, qid bool) ([]byte, error) {
	var buf bytes.Buffer
	w := fastq.NewWriter(&buf)
	w.QID = qid
	var prev seq.Sequence
	prevKey := ""
	for i, r := range recs {
		before := buf.Len()
		// a record that equals the one before it is written as the SAME object a second time
		obj := prev
		if key := r.String(); prev == nil || key != prevKey {
			obj, prevKey = Make(r, q, false, enc), key
		}
		prev = obj
		n, err := w.Write(obj)
		if err != nil {
			return nil, err
		}
		if n != buf.Len()-before {
			return nil, fmt.Errorf("BYTECOUNT record %d: Write returned %d, %d bytes were emitted", i, n, buf.Len()-before)
		}
	}
	return buf.Bytes(), nil
}

// Same compares record lists.
func Same(a, b []Rec, withQ bool) string {
	if len(a) != len(b) {
		return fmt.Sprintf("%d records, want %d", len(a), len(b))
	}
	for i := range a {
		if a[i].Name != b[i].Name || a[i].Desc != b[i].Desc || a[i].Letters != b[i].Letters {
			return fmt.Sprintf("record %d is %s, want %s", i, short(a[i]), short(b[i]))
		}
		if withQ && fmt.Sprint(a[i].Quals) != fmt.Sprint(b[i].Quals) {
			return fmt.Sprintf("record %d qualities %v, want %v", i, a[i].Quals, b[i].Quals)
		}
	}
	return ""
}

func short(r Rec) string {
	l := r.Letters
	if len(l) > 40 {
		l = fmt.Sprintf("%s...(%d letters)", l[:40], len(l))
	}
	return fmt.Sprintf("{name %q desc %q letters %q}", r.Name, r.Desc, l)
}
