#!/bin/bash
# Offline setup: warm the Go build cache for the harness module so the first check is fast.
set -u
export GOFLAGS=-mod=mod GOPROXY=off GOSUMDB=off GOTOOLCHAIN=local
ROOT="$(cd "$(dirname "$0")" && pwd)"
cd "$ROOT/h" || exit 1
cp /repo/go.sum go.sum
go build ./... || exit 1
mkdir -p "$ROOT/evidence" "$ROOT/replays"
echo setup ok
