#!/bin/bash
# Offline setup: warm the Go build cache (harness module, vrt runtime via overlay, instrumenter).
set -u
export GOFLAGS=-mod=mod GOPROXY=off GOSUMDB=off GOTOOLCHAIN=local
ROOT="$(cd "$(dirname "$0")" && pwd)"
SCR=/dev/shm; [ -d "$SCR" ] && [ -w "$SCR" ] || SCR="$ROOT/.work"
W="$SCR/verif-setup-$$"; mkdir -p "$W"; trap 'rm -rf "$W"' EXIT
cd "$ROOT/h" || exit 1
cp /repo/go.sum go.sum
python3 "$ROOT/tools/overlay.py" "$W/overlay.json" || exit 1
go build -overlay "$W/overlay.json" -o "$W/out/" ./... || exit 1
(cd "$ROOT/tools/vinstr" && go build -o "$W/vinstr" .) || exit 1
mkdir -p "$ROOT/evidence" "$ROOT/replays"
echo setup ok
