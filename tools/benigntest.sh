#!/bin/bash
# benigntest.sh <patch> <ids...>: applies a behaviour-preserving change to /repo, runs the checks, restores /repo.
patch="$1"; shift
ROOT="$(cd "$(dirname "$0")/.." && pwd)"
[ -n "$(git -C "${VERIF_REPO:-/repo}" status --porcelain)" ] && { echo "/repo not clean"; exit 2; }
git -C "${VERIF_REPO:-/repo}" apply "$patch" || { echo "patch does not apply"; exit 2; }
if ! (cd "${VERIF_REPO:-/repo}" && GOFLAGS=-mod=mod GOPROXY=off GOSUMDB=off GOTOOLCHAIN=local go build ./... ) >/dev/null 2>&1; then
  # written against an earlier tree: it applies textually but no longer compiles (a fix changed what it refers to)
  git -C "${VERIF_REPO:-/repo}" checkout -q -- . ; git -C "${VERIF_REPO:-/repo}" clean -fdq
  echo "does not compile on the current tree"; exit 3
fi
"$ROOT/tools/runall.sh" quick "$@"; r=$?
git -C "${VERIF_REPO:-/repo}" checkout -q -- . ; git -C "${VERIF_REPO:-/repo}" clean -fdq
git -C "${VERIF_REPO:-/repo}" clean -fdq 2>/dev/null
exit $r
