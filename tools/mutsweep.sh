#!/bin/bash
# mutsweep.sh <ID> <repo-relative file>...   (uses $VERIF_REPO, default /repo; the repo must be clean)
# For every mutant of the files: compile; run ./check <ID> quick; if the check does not report a
# violation run the repository's whole test suite; mutants that pass both are SURVIVORS.
set -u
export GOFLAGS=-mod=mod GOPROXY=off GOSUMDB=off GOTOOLCHAIN=local
ROOT="$(cd "$(dirname "$0")/.." && pwd)"
REPO="${VERIF_REPO:-/repo}"
ID="$1"; shift
(cd "$ROOT/tools/mutsweep" && go build -o /dev/shm/mutsweep-bin-$$ .) || exit 2
BIN=/dev/shm/mutsweep-bin-$$
killed=0; bytests=0; surv=0; nocompile=0
for f in "$@"; do
  n=$($BIN -count "$REPO/$f")
  for ((i=0;i<n;i++)); do
    desc=$($BIN -apply $i "$REPO/$f")
    pkg="./$(dirname "$f")/"
    if ! (cd "$REPO" && go build ./... ) >/dev/null 2>&1; then nocompile=$((nocompile+1)); git -C "$REPO" checkout -q -- "$f"; continue; fi
    out=$(cd "$ROOT" && timeout 900 ./check "$ID" quick 2>&1); r=$?
    if [ $r -eq 1 ]; then killed=$((killed+1));
    else
      if (cd "$REPO" && timeout 600 go test -vet=off -count=1 ./... ) >/dev/null 2>&1; then
        surv=$((surv+1)); echo "SURVIVOR $ID $f:$desc (check exit $r)"
      else bytests=$((bytests+1)); echo "TESTSONLY $ID $f:$desc (check exit $r)"; fi
    fi
    git -C "$REPO" checkout -q -- "$f"
  done
done
echo "SUMMARY $ID files=$* killed_by_check=$killed killed_by_tests_only=$bytests survivors=$surv not_compiling=$nocompile"
rm -f $BIN
