#!/bin/bash
# build_e1.sh <workdir> <harness cmd dir name> <repo package dir>...
# Instruments the named packages of /repo's working tree and builds the harness with the overlay.
set -eu
export GOFLAGS=-mod=mod GOPROXY=off GOSUMDB=off GOTOOLCHAIN=local
ROOT="$(cd "$(dirname "$0")/.." && pwd)"
WORK="$1"; CMD="$2"; shift 2
(cd "$ROOT/tools/vinstr" && go build -o "$WORK/vinstr" .)
extra=()
: > "$WORK/vinstr.log"
for pkg in "$@"; do
  name="$(echo "$pkg" | tr '/' '_')"
  (cd "${VERIF_REPO:-/repo}" && "$WORK/vinstr" ${VINSTR_FLAGS:--race} -dir "${VERIF_REPO:-/repo}/$pkg" -out "$WORK/instr/$name" -overlay "$WORK/instr/$name.json") >> "$WORK/vinstr.log"
  extra+=("$WORK/instr/$name.json")
done
python3 "$ROOT/tools/overlay.py" "$WORK/overlay.json" "${extra[@]}"
cd "$ROOT/h"
go build -overlay "$WORK/overlay.json" -o "$WORK/bin" "./cmd/$CMD"
