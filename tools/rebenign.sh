#!/bin/bash
# rebenign.sh [area...]: re-runs every kept behaviour-preserving refactoring against the checks named in its meta.json (none may alarm).
ROOT="$(cd "$(dirname "$0")/.." && pwd)"
bad=0
# optional arguments: area prefixes (align concurrent feat io misc morass pals seq); none = all
for d in "$ROOT"/benign/*/; do
  name=$(basename "$d")
  if [ $# -gt 0 ]; then ok=; for a in "$@"; do case "$name" in "$a"-*) ok=1;; esac; done; [ -n "$ok" ] || continue; fi
  chk=$(python3 -c "import json,sys; c=json.load(open('$d/meta.json'))['checks']; print(' '.join(c) if isinstance(c,list) else c)")
  if ! git -C "${VERIF_REPO:-/repo}" apply --check "$d/patch.diff" 2>/dev/null; then echo "$name: patch does not apply (skipped)"; continue; fi
  out=$("$ROOT/tools/benigntest.sh" "$d/patch.diff" $chk 2>&1); r=$?
  if [ $r -eq 3 ]; then echo "$name: written against an earlier tree, does not compile on this one (skipped)"; continue; fi
  if [ $r -eq 0 ] && ! echo "$out" | grep -q "NOT EXHAUSTIVE"; then echo "$name: quiet [$chk]"; else echo "$name: ATTENTION"; echo "$out" | cut -c1-200; bad=1; fi
done
exit $bad
