#!/bin/bash
# seedtest.sh <PROPERTY> <worktree> <seed-dir> <demo command (run in worktree)> [tier]
# Confirms a seeded change in the scratch worktree (tests pass with it, demo passes without / fails with),
# then applies it to /repo, runs the check, and reverts /repo.
set -u
export GOFLAGS=-mod=mod GOPROXY=off GOSUMDB=off GOTOOLCHAIN=local
ID="$1"; WT="$2"; SEED="$3"; DEMO="$4"; TIER="${5:-quick}"
ROOT="$(cd "$(dirname "$0")/.." && pwd)"
say() { echo "[seedtest $ID $(basename "$SEED")] $*"; }
git -C "$WT" checkout -q -- . || exit 2
( cd "$WT" && eval "$DEMO" ) > /tmp/seed-demo-clean.log 2>&1; r0=$?
say "demo without change: exit $r0 (want 0)"
git -C "$WT" apply "$SEED/patch.diff" || { say "patch does not apply to worktree"; exit 2; }
( cd "$WT" && go build ./... && go test -vet=off -count=1 ./... ) > /tmp/seed-tests.log 2>&1; r1=$?
say "existing tests with change: exit $r1 (want 0)"; [ $r1 -ne 0 ] && grep -E "FAIL|panic" /tmp/seed-tests.log | head -5
( cd "$WT" && eval "$DEMO" ) > /tmp/seed-demo-mut.log 2>&1; r2=$?
say "demo with change: exit $r2 (want non-zero)"
git -C "$WT" checkout -q -- . ; git -C "$WT" clean -fdq
[ -n "$(git -C /repo status --porcelain)" ] && { say "/repo is not clean, refusing"; exit 2; }
git -C /repo apply "$SEED/patch.diff" || { say "patch does not apply to /repo"; exit 2; }
( cd "$ROOT" && ./check "$ID" "$TIER" ) > /tmp/seed-check.log 2>&1; r3=$?
git -C /repo checkout -q -- . ; git -C /repo clean -fdq
say "check $ID $TIER with change: exit $r3 (want 1)"
grep -E "^(VIOLATION|violation class|KNOWN)" /tmp/seed-check.log | cut -c1-300 | head -6
tail -1 /tmp/seed-check.log | cut -c1-200
echo "RESULT $ID $(basename "$SEED") demo_clean=$r0 tests=$r1 demo_mut=$r2 check=$r3"
