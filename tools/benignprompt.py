#!/usr/bin/env python3
"""benignprompt.py <area> <worktree> <outdir>: brief for a sub-agent that writes BEHAVIOUR-PRESERVING refactorings
(no check may raise an alarm on them).  The brief names packages only - nothing from /verif."""
import sys
area, wt, out = sys.argv[1:4]
rnd = sys.argv[4] if len(sys.argv) > 4 else "r3"
AREAS = {
 "morass":     ("morass", "the external sorter (package morass): New, Push, write, Finalise, Pull, Clear, CleanUp, in both modes"),
 "concurrent": ("concurrent", "package concurrent: Processor, Map, PromiseMap, Promise"),
 "align":      ("align", "the six pairwise aligners of package align (templates align/*.got generate *_letters.go / *_qletters.go via genCode.sh: change template and both generated files consistently) and align.Format"),
 "pals":       ("align/pals align/pals/filter align/pals/dp", "the PALS pipeline: filter (tube ring), merger, dp kernel, PALS.Align/AlignFrom/Share/Optimise, Piler"),
 "io":         ("io/seqio/fasta io/seqio/fastq io/featio/bed io/featio/gff", "the FASTA/FASTQ/BED/GFF readers and writers"),
 "seq":        ("seq/linear seq/alignment seq/multi seq/sequtils", "the sequence containers (linear.Seq/QSeq, alignment.Seq/QSeq, multi.Multi) and sequtils"),
 "misc":       ("alphabet seq/quality index/kmerindex feat/gene", "alphabets and quality encodings, the k-mer index, gene/transcript/exon features"),
}
pk, what = AREAS[area]
KINDS = {"r3": """  (1) A SIZE-DEPENDENT FAST PATH: process data in blocks (64, 256 or 1024 elements) with a correct remainder loop, or add a small-size / large-size special case, or split work for large inputs over a few goroutines with correct synchronisation (WaitGroup.Add before `go`, no captured loop variable) - results identical for every size, including exactly at and around the block size.
  (2) KEPT INTERNAL STATE, CORRECTLY RESET: a scratch buffer kept on the object, a sync.Pool of tables/buffers, a table built lazily under sync.Once, a cache keyed correctly - reset / invalidated on EVERY path including error returns and early returns, never shared between objects in a way a caller could observe, never aliasing memory handed to or received from the caller.
  (3) REORDERED OR REGROUPED STEPS: split a function, merge two passes into one, hoist or sink a statement, replace a defer by explicit calls on every path, change which goroutine does a step while keeping every happens-before relation the callers rely on - without changing any result, error, or externally visible side effect.""",
 "r4": """  (1) SHARED STATE MADE SAFE: state shared by all objects of a type - a package-level table built lazily under sync.Once, a mutex-guarded free list or a sync.Pool of scratch buffers, a read-mostly cache under sync.RWMutex - introduced so that two goroutines working on UNRELATED objects stay free of data races and every object still sees exactly what it saw before (buffers reset on every path, nothing handed out twice, no result aliasing shared storage).
  (2) A CUT-OFF AT AN ORDINARY NUMBER, DONE RIGHT: a small-input special case, a chunk size or a pre-sized buffer keyed on a constant such as 12, 20, 96, 120, 300 or 1200, with the behaviour exactly as before at the constant, one below and one above it, and for multiples of it.
  (3) AN ARITHMETIC REWRITE, DONE RIGHT: an expression restructured for speed or clarity (overflow-safe midpoint, a division hoisted out of a loop, a modulo replaced by a conditional subtraction, a table lookup instead of a computation) that keeps the result for every magnitude and sign, including negative coordinates, values beyond 32 bits and the extremes of the type."""}[rnd]
print(f"""You are helping to evaluate a verification harness for the Go library biogo (github.com/biogo/biogo).  Your job here is to write CORRECT refactorings: changes that restructure code and keep the observable behaviour exactly as it is.  The harness must stay silent on them.  You work ONLY in your own scratch git worktree: {wt} (never touch /repo or /verif, do not read /verif).

Environment (no network): before every go command run
  export GOFLAGS=-mod=mod GOPROXY=off GOSUMDB=off GOTOOLCHAIN=local
Test suite:  cd {wt} && go build ./... && go test -vet=off -count=1 ./...

Area: {what}  (directories: {pk})

Write THREE independent behaviour-preserving changes, one of each kind, each of the sort a maintainer does for speed or tidiness and each getting the tricky part RIGHT:
{KINDS}
Requirements: exported API and behaviour unchanged for ALL inputs and call orders (also after errors, also under concurrency where the package is concurrent); `go build ./...` and the whole test suite pass; `go vet` clean for the touched package; 10-60 changed lines each; run the package's tests with -race as well.  Additionally write for each change a small differential test (build tag `benigndemo`) that compares old and new behaviour over a few hundred generated inputs INCLUDING sizes around your block / threshold constants and error cases, run it on both trees (it must pass on both; on the clean tree it records a golden file, on the changed tree it compares with it).
For each change k = 1,2,3 produce in {out}/{{k}}/ :  patch.diff (git diff against the clean worktree, applies with git apply),  notes.md (what was restructured, why behaviour is preserved, what you ran).
Working style: keep every reply and every tool call SHORT (never more than ~150 lines in one tool call; pipe long outputs through tail -20).  Leave the worktree clean at the end.  Finish with a three-line summary.""")
