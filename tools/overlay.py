#!/usr/bin/env python3
"""overlay.py <out.json> [extra.json ...]: overlay that adds /verif/vrt as the virtual package
github.com/biogo/biogo/verifrt/vrt inside /repo, merged with instrumenter output."""
import json, os, sys, glob
ROOT = os.path.dirname(os.path.dirname(os.path.abspath(__file__)))
repo = os.environ.get("VERIF_REPO", "/repo")
rep = {}
for f in glob.glob(os.path.join(ROOT, "vrt", "*.go")):
    rep[os.path.join(repo, "verifrt", "vrt", os.path.basename(f))] = f
for extra in sys.argv[2:]:
    rep.update(json.load(open(extra))["Replace"])
json.dump({"Replace": rep}, open(sys.argv[1], "w"), indent=1)
