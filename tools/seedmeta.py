#!/usr/bin/env python3
"""seedmeta.py <reseed log>: writes the detection recorded by a reseed run into seeded/*/meta.json
(detected_by = the classes the quick check printed; first_miss kept when the seed was missed when it was written)."""
import json, os, re, sys
ROOT = os.path.dirname(os.path.dirname(os.path.abspath(__file__)))
n = 0
for line in open(sys.argv[1]):
    m = re.match(r"^(C\d\d-\d+): (detected \[(.*)\]|MISSED.*)$", line.strip())
    if not m:
        continue
    p = os.path.join(ROOT, "seeded", m.group(1), "meta.json")
    if not os.path.exists(p):
        continue
    meta = json.load(open(p))
    old = meta.get("detected_by", "")
    if m.group(3) is not None:
        new = "%s quick: %s" % (m.group(1)[:3], m.group(3).strip())
        if ("MISSED" in old or "check=0" in meta.get("confirmed", "") or old.endswith("quick: ")) and "missed_at_first" not in meta:
            meta["missed_at_first"] = True
        if "MISSED" in old or old.endswith("quick: ") or not old:
            meta["detected_by"] = new + " (after the strengthening recorded in DESIGN.md section 8)"
    else:
        meta["detected_by"] = "MISSED by quick"
    json.dump(meta, open(p, "w"), indent=1)
    n += 1
print("updated", n)
