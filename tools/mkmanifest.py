#!/usr/bin/env python3
"""Regenerates MANIFEST.json from the table below (and validates it)."""
import json, os, sys
ROOT = os.path.dirname(os.path.dirname(os.path.abspath(__file__)))

E1, E2, E3 = "vrt-explorer", "history-bfs", "scope-enum"
# session 3: what was added to each check's scope (appended to the level text)
EXTRA = {
 "C01": " Byte counts also under a sink that fails after every possible number of bytes. A description with a run of blanks. Finally (E1, controlled scheduler, whole library instrumented): two goroutines performing the property's calls on unrelated objects - no race, panic or deadlock on any schedule, results as when run alone. A record equal to its predecessor is written as the same object.",
 "C02": " Byte counts also under a sink that fails after every possible number of bytes; a third of the cases again behind a line the reader rejects. Finally (E1, controlled scheduler, whole library instrumented): two goroutines performing the property's calls on unrelated objects - no race, panic or deadlock on any schedule, results as when run alone.",
 "C03": " Plus the size ladder (2^k-1, 2^k, 2^k+1 up to 1025, thorough 8193) of every field size, and a GFF reader with date parsing off. FASTQ quality lines with white space inside. Metadata lines with an emptied field, BED12 lines without blocks. Finally (E1, controlled scheduler, whole library instrumented): two goroutines performing the property's calls on unrelated objects - no race, panic or deadlock on any schedule, results as when run alone. FASTA/FASTQ read into templates of the caller's own that refuse some names and descriptions.",
 "C04": " Plus FASTA with ID / sequence-line prefixes and blank lines that hold white space. BED/GFF records whose line straddles the 4096-byte read buffer; a second pass of the same BED/GFF reader after its source was rewound. Finally (E1, controlled scheduler, whole library instrumented): two goroutines performing the property's calls on unrelated objects - no race, panic or deadlock on any schedule, results as when run alone. A template that refuses an empty description.",
 "C05": " Plus row-view RevComp/Reverse, going on with the other copy, emptied sequences, Multi layouts with an empty row, and the size ladder 7..4097 (thorough 16385) for every kind. Objects all of whose rows lie at +-2^40 and around +-2^31. Finally (E1, controlled scheduler, whole library instrumented): two goroutines performing the property's calls on unrelated objects - no race, panic or deadlock on any schedule, results as when run alone. Rows left of the origin, rows that share a name, Clone of a Multi holding one row object twice.",
 "C06": " Every case again directly after a rejected call; feature lists of ladder size (3..257, thorough 1025). Destinations that are other objects over the source's array. The masking letter x among the letters. Finally (E1, controlled scheduler, whole library instrumented): two goroutines performing the property's calls on unrelated objects - no race, panic or deadlock on any schedule, results as when run alone. The source's annotation (strand, conformation, name, offset) unchanged too; long segments; coordinates beyond 32 bits.",
 "C07": " Plus a rejected AppendColumns among the edits and grids / appends of ladder size (3..257, thorough 1025). Column views held across later Column calls on the container and a clone. Rows that hold no letters yet. Finally (E1, controlled scheduler, whole library instrumented): two goroutines performing the property's calls on unrelated objects - no race, panic or deadlock on any schedule, results as when run alone. A row object held twice under Flush; a quality alignment with CaseFilter.",
 "C08": " Plus every word pair directly after a rejected call, a 6-letter (thorough 21-letter) alphabet with asymmetric matrices, and 260/520-letter words with single indels around 256/512 and gap blocks of 63..129. Sequences that hold the gap letter itself. Finally (E1, controlled scheduler, whole library instrumented): two goroutines performing the property's calls on unrelated objects - no race, panic or deadlock on any schedule, results as when run alone. A sequence aligned against itself as one object; a caller's own stateful AlphabetSlicer; a gap run of every length 1..300; scores beyond 32 bits.",
 "C09": " Plus every word pair directly after a rejected call, a 6-letter (thorough 21-letter) alphabet with asymmetric matrices, and 260/520-letter words with single indels around 256/512 and gap blocks of 63..129 (also through Format). Every matrix shape of 1..5 rows with rows one off square; sequences that hold the gap letter itself; the pairs turned round with Invert after they were read. Format also over quality-carrying sequences. Finally (E1, controlled scheduler, whole library instrumented): two goroutines performing the property's calls on unrelated objects - no race, panic or deadlock on any schedule, results as when run alone. A caller's own stateful AlphabetSlicer, an alignment row of another alphabet as the query, a reference that is a window of the query's storage.",
 "C10": " Plus sequences of 2^j+9 letters (j=6..9, thorough 10) with an invalid letter around every power of two; the maps asked for before Build. Sequences built from a caller's buffer that is overwritten afterwards. Finally (E1, controlled scheduler, whole library instrumented): two goroutines performing the property's calls on unrelated objects - no race, panic or deadlock on any schedule, results as when run alone. A callback that starts a traversal of its own on the index it is handed; ladder lengths to 2049 (5001).",
 "C11": " Plus the size ladder: chunk sizes 2^k-1, 2^k, 2^k+1 to 2049 (thorough 4097) and 7..513 run files. Eight further element types sorted in turn in one process. Finally (E1, controlled scheduler, whole library instrumented): two goroutines performing the property's calls on unrelated objects - no race, panic or deadlock on any schedule, results as when run alone.",
 "C13": " Plus residue histories with 15..513 run files. A driver over the library's own filter.Hit elements.",
 "C14": " Plus space G (an earlier Filter call that fails half way) and space H (queries of 2^j+40 letters, plants around every power of two). Caller-declared upper-case and case-sensitive alphabets. Finally (E1, controlled scheduler, whole library instrumented): two goroutines performing the property's calls on unrelated objects - no race, panic or deadlock on any schedule, results as when run alone.",
 "C15": " Plus targets of 2^k-1, 2^k, 2^k+1 (k=11..14) and 6/11/20 kb, a rejected re-optimisation before Align, AlignFrom(Trapezoids()), and Share from an aligner that searched another query. An aligner that searched both strands before its query object was overwritten in place. Finally (E1, controlled scheduler, whole library instrumented): two goroutines performing the property's calls on unrelated objects - no race, panic or deadlock on any schedule, results as when run alone. AlignFrom seeded by a Logger that reads Trapezoids() when told they were merged; settings in the hundreds and thousands.",
 "C16": " Plus a filter that looks at the piles and piles of 7..257 images joined by a bridging feature. Pairs made by NewPair from hits on a packed sequence. Finally (E1, controlled scheduler, whole library instrumented): two goroutines performing the property's calls on unrelated objects - no race, panic or deadlock on any schedule, results as when run alone. Every multiset again left of the origin; a comb of piles bridged run by run.",
 "C17": " Plus AllValid on ladder lengths to 1025 and uncased complementors spelt in upper / mixed case. Case-sensitive alphabets with a letter in both cases, expanded-equal alphabets built in turn, one-case pairings under a case-insensitive complementor (method vs table). Tables kept across other alphabets' tables; built-ins after use by sequences. Finally (E1, controlled scheduler, whole library instrumented): two goroutines performing the property's calls on unrelated objects - no race, panic or deadlock on any schedule, results as when run alone.",
 "C18": " Plus records rendered while empty, %.0q after SetEncoding, and (free-running, six processes) first uses made by eight goroutines at once. The encoding changed by assigning the exported Encode field. Solexa printable range from byte 33; containers on a location with SetOffset. Finally (E1, controlled scheduler, whole library instrumented): two goroutines performing the property's calls on unrelated objects - no race, panic or deadlock on any schedule, results as when run alone.",
 "C19": " Plus Map over 7..513 (thorough 2049) one-element chunks on the canonical schedule. Wait called by two goroutines and twice in a row; Fulfill(nil) as the first fulfilment. util instrumented too; two Map calls at once; listeners' receives as steps of their own; Working() after Wait.",
 "C12": " Plus 64 / 257 runs (thorough every ladder size to 513) on the canonical schedule. A driver whose executions turn out not to be independent within one process (package-level state) is explored again with one process per execution. A driver over the library's own filter.Hit elements. Keys that tie under Less within a run; Finalise called twice; same-named local element types.",
 "C20": " Plus SetExons of the transcript's own slice extended with append, and transcripts of 2..40 and 63..257 exons. A gene on a genome.Fragment on a genome.Chromosome. Finally (E1, controlled scheduler, whole library instrumented): two goroutines performing the property's calls on unrelated objects - no race, panic or deadlock on any schedule, results as when run alone. The gene turned round after the UTRs were asked for.",
}

# id: (engine, level, design_ref, technique, text, note)
CHECKS = {
 "C18": (E3, "exploration", "DESIGN.md §3 C18",
   "complete enumeration of the 8-bit score/byte domains x 7 encodings against analytic formulas",
   "Complete for the finite domains the statement quantifies over (all 256 Phred values, all 256 Solexa values, all 256 bytes, every encoding) plus a fixed grid of probabilities at 5 offsets around every score; this is a decision for the tables, not a bound.",
   "Trusts math.Pow/math.Log10 as the analytic reference (1e-12 relative tolerance); sentinel scores 254/255/127/-128 excluded; Solexa printable range taken from score -5."),
 "C19": (E1, "model_checking", "DESIGN.md §2, §3 C19",
   "stateless model checking of the real package under a controlled scheduler: every interleaving (happens-before state cache, symmetry reduction over the Processor's interchangeable workers cross-checked without it, no preemption bound) of closed Processor/Map/Promise drivers",
   "Every schedule of each listed closed driver (2-5 goroutines) is executed on the real, overlay-instrumented package concurrent at the granularity of channel, mutex, cond, once, waitgroup and go operations; the oracle (results multiset, single close, all workers exit, one winning Fulfill/Fail, every Wait returns the winner's value, no panic/deadlock/race) is evaluated on every execution. Drivers that do not close within the budget report the completed preemption bound and exhaustive:false.",
   "Exhaustive for the listed drivers only, not for arbitrary client programs; sequentially consistent interleavings (justified by the vector-clock race oracle evaluated on each schedule); scheduler/instrumenter (vrt, vinstr) are trusted and self-checked on toy programs with known answers before each run."),
 "C12": (E1, "model_checking", "DESIGN.md §2, §3 C12",
   "stateless model checking of the real sorter under a controlled scheduler: every interleaving of caller and background run writers (happens-before state cache, no preemption bound) at channel/mutex/waitgroup/file-operation granularity",
   "Every schedule of each listed closed workload (0..3 background writers, short/full/empty last chunk; two-cycle histories incl. an in-memory or empty use before a spilling one, with and without AutoClear; a run after another sorter was cleaned up) is executed on the real overlay-instrumented package morass against a real directory; on every execution: no panic, deadlock, leaked writer or race, no unexpected error, and pulled values = sorted pushed multiset.",
   "Exhaustive for the listed workloads, not for arbitrary ones; sequentially consistent interleavings (race oracle on each schedule); file system assumed sequentially consistent per file; vrt/vinstr trusted and self-checked before each run."),
 "C13": (E1, "fault_enumeration", "DESIGN.md §2, §3 C13",
   "exhaustive single (thorough: double) I/O-fault injection at every create/write/sync/seek/read of the workload, crossed with every interleaving (controlled scheduler); plus exhaustive cycle histories x AutoClear x AutoClean for directory residue",
   "Every I/O operation the property names is answered once with a sentinel error in every schedule of each workload (both modes); oracle: a fault that precedes the return of the last call surfaces as a non-nil non-EOF error from some Push/Finalise/Pull, and success throughout implies exactly the pushed values; a failed and cleared cycle followed by an ordinary cycle drained under AutoClear leaves no run file and delivers that cycle's values. Residue: all histories of <=2 cycles with counts on both sides of the chunk size, checked on the real directory.",
   "Faults are whole-operation errors (no short writes/crashes); Close/Remove are not faulted; exhaustive for the listed workloads only."),
 "C11": (E2, "model_checking", "DESIGN.md §2.5, §3 C11",
   "explicit-state breadth-first search over cycle histories applied to the real sorter (replay-from-fresh), merged at cycle boundaries on a reflective canonical key, run to closure; reference model = sorted multiset compared after every operation",
   "All histories of any number of cycles whose per-cycle shapes are in the stated alphabet (push counts on both sides of the chunk size, every value word over {1,2}, every pull count class), for chunk 1..3 x AutoClear x concurrent flag x int/struct elements: every history of <=2 (thorough <=3) cycles is run unmerged; beyond that states are merged on the sorter's private state read by reflection and the search closes.",
   "Protocol order push* finalise pull* clear; merging assumes equal boundary keys imply equal futures (key = fast,pos,len,chunk,pool,writable,files,error; a missing field disables merging); real files on tmpfs."),
 "C17": (E3, "exploration", "DESIGN.md §3 C17",
   "complete enumeration of 7 built-in alphabets x 256 letters, bounded-exhaustive enumeration of generated alphabet and pairing definitions, against restated definitions",
   "Complete for the built-ins (every letter value, every law of the statement) - a decision for those tables; bounded-exhaustive for constructors: every definition of length <=4 (thorough 5) over a 5-6 letter pool, every pairing over words of length <=3 (thorough 4) over {a,c,g,t}, mismatched lengths and non-ASCII runes at every position.",
   "Built-in definitions are restated in the harness; pairing definitions that give one letter two different partners are out of scope (neither accept nor reject is demanded); only pairings closed over the alphabet are used for the valid-to-valid law."),
 "C20": (E2, "model_checking", "DESIGN.md §3 C20",
   "bounded-exhaustive enumeration of exon layouts/CDS bounds/orientations/offsets plus breadth-first search over sequences of accepted and rejected SetExons/Add operations on real transcripts, compared with a plain model after every operation",
   "Every set of <=3 intervals in [0,5] (thorough [0,6]) as an exon set (accepted and rejected), every CDS, every orientation combination over three nesting levels, offsets 0/3, location chains up to the documented depth 1000; every operation sequence of depth <=3 (thorough 4) over 13 accepted/rejected updates with and without spare capacity.",
   "Small scope; chains use a harness feature type; the depth-1001 panic is documented behaviour and not required by the statement."),
 "C16": (E2, "model_checking", "DESIGN.md §3 C16",
   "exhaustive enumeration of feature-pair multisets x every insertion order x orientation x filter on the real Piler, differential across orders and against a union-find reference",
   "Every multiset of <=3 pairs over all intervals in [0,5] (thorough [0,6]) on one location and every multiset of <=2 pairs over two locations, every insertion order, both orientations of each pair, four filters, repeated Piles calls and re-insertion of each pair: partition, pile extents, disjointness, membership, mate links and duplicate rejection compared with a union-find model on every case.",
   "Zero overlap slack only (as the statement says); small coordinates; Piles is called after all Adds."),
 "C06": (E3, "exploration", "DESIGN.md §3 C06",
   "bounded-exhaustive enumeration of sequences, offsets, ranges, feature lists and quality vectors against positional reference implementations",
   "Every (start,end) pair around sequences of length 0..5 (6) at offsets -2/0/3, linear and circular, dst==src and dst!=src; every length pair for Join; every list of <=2 (3) features intersecting or abutting the sequence with every orientation kind, complementing and non-complementing alphabets; every (limit-e) vector of length <=6 (7) over 5 dyadic values for Trim. Distinct letters and qualities per position, so any misplaced letter is visible; aliasing is detected by overwriting the result.",
   "linear.Seq and linear.QSeq only; Compose features at least abut the sequence; Trim accepts an empty window anywhere."),
 "C05": (E2, "model_checking", "DESIGN.md §3 C05",
   "breadth-first search over operation sequences (RevComp, Reverse, Clone, Set, SetOffset, Delete, Append) applied to real sequence objects of every type; snapshot relation checked after every operation, retained clones checked for independence",
   "Every letter string of length <=3 over paired letters (and all built-in complementing alphabets on fixed words), alignment grids up to 3x4, every Multi layout of 1..3 rows with offsets 0..2 and lengths 1..3, Sets; every operation sequence of depth <=3/4 (thorough 4/5) with the reverse-complement relation (letters, qualities, strand, mirrored row coordinates), double application, and every retained clone/original compared after each later mutation.",
   "Column-stored alignments at offset 0; single Reverse checked against its documented meaning; small sizes."),
 "C07": (E2, "model_checking", "DESIGN.md §3 C07",
   "breadth-first search over edit sequences applied to real alignment.Seq / alignment.QSeq / multi.Multi containers, grid reference model compared through row view, both column views, extents and count consensus after every edit; retained clones checked for independence; caller buffers overwritten after each append",
   "Initial grids 1..3 x 1..3 (Multi: every layout of 1..2 rows, thorough 3, offsets 0..2), every edit sequence of depth <=3 (thorough 4) over 16 edits (AppendColumns, AppendEach with unequal runs, Delete, Add, Flush at either end, Truncate, Subseq, Clone, Set).",
   "Column-stored alignments at offset 0; QSeq.Column compared only at or above the quality threshold; row names of a Subseq result not constrained."),
 "C01": (E3, "exploration", "DESIGN.md §3 C01",
   "bounded-exhaustive enumeration of record lists x writer configurations x reader feeding modes on the real FASTA/FASTQ writers and readers, field-wise comparison and byte counts",
   "Every letter string up to length 3 (thorough 4) with 36 name/description shapes (incl. '>', '@', '+'), all pairs of a reduced record set, boundary lengths 4095..12289 and header lines longer than the 4096-byte buffer; FASTA widths 1..10000 x Seq/QSeq x DNA/protein; FASTQ x QID x 5 Phred-offset encodings x quality vectors over 4 edge scores; readers fed whole, byte by byte and with data+EOF.",
   "Names without whitespace, trimmed single-line descriptions, offset-0 sequences; Illumina1_5 from score 2."),
 "C02": (E3, "exploration", "DESIGN.md §3 C02",
   "bounded-exhaustive enumeration of BED records x type x every narrower write width and of GFF features/regions/inline sequences x header on/off on the real writers and readers, field-wise comparison, 1-based text columns, byte counts",
   "Product of edge values for every BED field (incl. MinInt64/MaxInt64, negative scores, all strands, zero/opaque colours, 1..3 blocks) for types 3/4/5/6/12 at every width <= type; GFF product over names with inner spaces, starts {0,1,9,-3}, lengths {1,5,2^40}, scores {nil,0,-1.5,0.1,1e-300,MaxFloat64,+-Inf}, strands, frames, attribute lists (digits and underscores in tags, quoted and empty values), comments; sequence-region lines; inline DNA/RNA/protein sequences at widths 1,2,60; mixed files.",
   "Well-formed fields as the statement defines them; nil == empty attribute list; NaN scores excluded."),
 "C03": (E3, "exploration", "DESIGN.md §3 C03",
   "bounded-exhaustive enumeration of line-token sequences, short structural byte strings and single/double mutations of valid seed files fed to every reader; panic/contract/call-bound/must-error oracle",
   "Per format (FASTA, FASTQ, BED3/4/5/6/12, GFF): every sequence of <=3 (thorough 4) line tokens from an alphabet holding every line shape the parsers distinguish and every invalid shape the statement lists, with LF, CRLF and without final newline; every byte string of length <=4 (5) over 15 structural bytes; every single (thorough: pairs of) mutation of a valid file incl. truncation at every byte offset.",
   "Must-error is demanded only for the invalid kinds the statement names, with inline-sequence context tracked; hangs are detected by a progress watchdog and confirmed in a child process."),
 "C04": (E3, "exploration", "DESIGN.md §3 C04",
   "exhaustive enumeration of layout transformations (re-wrap widths, blank-line sites, trailing blanks per line, CRLF, missing final newline, and their combinations) of generated valid files, differential comparison of the parsed record lists",
   "FASTA: every list of <=2 records from 6 record shapes at widths 1,2,3,60 plus 4097/12289-letter records at widths up to 20000 (lines far beyond the 4096-byte buffer), every blank-line site (thorough: pairs), every per-line and all-line trailing blank variant, CRLF and final-newline presence, combined; FASTQ likewise with blank lines at record boundaries; BED (all 5 types) and GFF (features, regions, inline sequences in last position or not): CRLF x final newline.",
   "Only the layout changes the statement names are generated; comparison is against the canonical file written by the library's own writer."),
 "C10": (E3, "exploration", "DESIGN.md §3 C10",
   "bounded-exhaustive enumeration of short sequences over {a,c,g,t,n} (and mixed case) for k=4 with all 256 words queried and every sub-range iterated, of sequences around k for k=5..10, and of all word values for the encoding helpers, against brute-force windows and string operations",
   "k=4: all sequences of length 5..7 (thorough 8) over 5 letters plus case variants, every word, every sub-range; k=5..7: all sequences of length k+1..k+2 over {a,t,n}; k=8..10: all sequences of length k+1 over {a,n} (thorough {a,t,n}); every word value for k=2..6 (thorough 8) for Format/KmerOf/GCof/ComplementOf.",
   "Positions compared as sets; ranges shorter than k must not call back; k=1 is outside the supported range (ComplementOf(1,.) does not terminate); long sequences are not covered."),
 "C08": (E3, "exploration", "DESIGN.md §3 C08",
   "bounded-exhaustive enumeration of sequence pairs x scoring matrices x gap-open values for the six aligners; the score of the returned path, recomputed from the letters, is compared with independent reference dynamic programmes (global, local, fitted; affine with and without gap-to-gap transitions)",
   "Alphabet '-ac': all ordered pairs of sequences of length 1..3 (thorough 4), all 1296 matrices with substitution entries in {-1,0,1} and gap entries in {0,-1} (thorough: a slice of the {-2..2}/{0,-1,-2} grid), gap-open {0,-1,-2}; alphabet '-acg' on short sequences; about 3.8 million alignments in the quick tier.",
   "Small scope (ties are everywhere in it, long sequences are not covered); two modelling limits of the affine aligners are recorded as known findings (no insertion<->deletion transition; FittedAffine only ends on an aligned pair) and told apart from every other failure by the reference DPs."),
 "C09": (E3, "exploration", "DESIGN.md §3 C09",
   "the same enumeration as C08 with a structural oracle on every returned description (abutting blocks / one-sided gaps / empty pairs, spans, per-run reported score = recomputed score with gap-open once per run, Letters = QLetters, Format rows) plus an enumerated family of ill-typed calls that must return errors",
   "Every alignment of C08's space; ill-typed calls: an illegal letter at every position of either sequence, distinct alphabet objects, mixed Letters/QLetters, nil alphabet, alphabet without leading gap, ragged, non-square, undersized and empty matrices, for each of the six aligners.",
   "Reported scores are compared per maximal run of equal-kind pairs (a gap run may be split over consecutive pairs)."),
 "C14": (E3, "exploration", "DESIGN.md §3 C14",
   "bounded-exhaustive enumeration of filter parameters x tiny sequences, and of planted-match geometries (every target/query placement relative to the tube grid and the recycling tick, every substitution pattern) on the real Filter with a real in-memory sorter; brute-force oracle over all window pairs",
   "Space A: every (k,n,e,offset) with k in {2,3,4}, n<=8, e<=2, offset up to e+3 and positive threshold x 6 targets x every query of length n..6 (7) over {a,c,g,t}, and self comparison of every sequence of length <=7 (8); space B: k=4, n in {9,12,16}, 20 parameter sets, a plant at every (t0,q0) of a 40x100 grid with every pattern of <=e substitutions (quick: thinned pairs) so that every diagonal residue and every tick phase occurs, including tube widths below k; space C: PALS-like parameters on sequences of 90..420 letters.",
   "kmerindex.MinKmerLen lowered by the harness; sequences over a,c,g,t; hit coverage uses the band the merger builds from a hit ([-Diagonal, -Diagonal+offset+e-1], query interval [From,To))."),
 "C15": (E3, "exploration", "DESIGN.md §3 C15",
   "exhaustive enumeration of planted-repeat geometries (position grid over one tube period and both sequence ends, repeat lengths, edit variants, strands, self/non-self, four parameter sets) over fixed backgrounds on the real PALS pipeline; soundness oracle on every hit (independent global alignment), recall oracle for plants comfortably above the thresholds",
   "Backgrounds are constants (xorshift with fixed seeds; 1300-1700 letters; thorough adds two more pairs incl. a low-complexity one); (minHitLen,minId) in {(30,0.9),(50,0.9),(50,0.94),(80,0.85)}; repeat lengths minHitLen+10, 1.5x, 3x and the length boundary minHitLen-2..+2 with indels; 5 target positions x 44 query positions; variants: exact, substitutions at every third position, 2-3 substitutions, indels of length 1-2 at every tenth position; reverse-complemented copies; self comparison with forward and reverse copies. About 40k pipeline runs quick, 210k thorough.",
   "pals.MaxKmerLen lowered to 8 by the harness; recall demanded only for identity >= minId+0.05 and length >= 1.5 minHitLen (a heuristic claim otherwise); random long backgrounds (2-20 kb) of the quantifier text are replaced by fixed ones - this family does not sample."),
}
PENDING = {}  # id -> reason, for properties not (yet) claimed

def main():
    props = [json.loads(l)["id"] for l in open(os.path.join(ROOT, "properties.jsonl"))]
    checks = []
    for pid in props:
        if pid not in CHECKS: continue
        eng, level, ref, tech, text, note = CHECKS[pid]
        checks.append({
            "property_id": pid,
            "quick_cmd": f"./check {pid} quick",
            "thorough_cmd": f"./check {pid} thorough",
            "evidence_file": f"evidence/{pid}.json",
            "replay_cmd_template": f"./check {pid} --replay {{path}}",
            "engine": eng,
            "level_claimed": {"category": level, "text": text + EXTRA.get(pid, ""), "design_ref": ref},
            "level_note": note,
            "technique": tech,
        })
    na = [{"property_id": p, "reason": PENDING.get(p, "check not built yet (work in progress, see DESIGN.md §9 build order)")} for p in props if p not in CHECKS]
    man = {
        "version": 1,
        "setup_cmd": "./setup.sh",
        "hooks": {
            "guard": "verif (unused: no source hooks are committed to /repo; scheduling/fault points are generated from the working tree by tools/vinstr and applied with go build -overlay)",
            "enable": "./check <ID> quick|thorough builds /repo's working tree with the generated overlay",
            "baseline_off_cmd": "cd /repo && GOFLAGS=-mod=mod GOPROXY=off GOSUMDB=off GOTOOLCHAIN=local go test -json -vet=off -count=1 -timeout 25m ./...",
            "source_commits": [],
            "add_only": True,
        },
        "engines": [
            {"name": E1, "path": "vrt/ tools/vinstr/ h/conc/", "serves_properties": ["C12", "C13", "C19"], "kind_free_text": "controlled cooperative scheduler over the real code (overlay-instrumented), stateless DFS with happens-before state cache, vector-clock race oracle, I/O fault answers"},
            {"name": E2, "path": "h/cmd/", "serves_properties": ["C05", "C07", "C11", "C16", "C20"], "kind_free_text": "explicit-state BFS over operation sequences applied to real objects (replay-from-fresh), reference model compared on every transition"},
            {"name": E3, "path": "h/cmd/", "serves_properties": ["C01", "C02", "C03", "C04", "C06", "C08", "C09", "C10", "C14", "C15", "C17", "C18"], "kind_free_text": "bounded-exhaustive enumeration of stated small scopes and boundary families on the real code, reference oracle per case"},
        ],
        "checks": checks,
        "not_applicable": na,
        "notes": "All checks run the code in /repo's working tree; there is no abstract model. Genuine defects found on the pinned tree were repaired by 'fix:' commits in /repo or are listed in known_findings.json (see DESIGN.md §4).",
    }
    json.dump(man, open(os.path.join(ROOT, "MANIFEST.json"), "w"), indent=1)
    try:
        import jsonschema
        jsonschema.validate(man, json.load(open("/root/.vp/MANIFEST.schema.json")))
        print("MANIFEST.json valid;", len(checks), "checks,", len(na), "not_applicable")
    except ImportError:
        print("written (jsonschema not available)")

if __name__ == "__main__":
    main()
