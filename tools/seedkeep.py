#!/usr/bin/env python3
"""seedkeep.py <PROPERTY> <name> <seed-dir> <demo-cmd> <needs> <result-line> [detected_by]
Stores a confirmed seeded change under /verif/seeded/<PROPERTY>-<name>/."""
import json, os, shutil, sys
ROOT = os.path.dirname(os.path.dirname(os.path.abspath(__file__)))
pid, name, src, demo, needs, result = sys.argv[1:7]
det = sys.argv[7] if len(sys.argv) > 7 else ""
dst = os.path.join(ROOT, "seeded", f"{pid}-{name}")
os.makedirs(dst, exist_ok=True)
for f in os.listdir(src):
    p = os.path.join(src, f)
    if os.path.isfile(p):
        t = f
        if f.endswith("_test.go") or f.endswith(".go"):
            t = f + ".txt"  # keep Go tooling from picking demos up as packages
        shutil.copy(p, os.path.join(dst, t))
meta = {
    "property": pid,
    "breaks": "see notes.md",
    "needs_to_manifest": needs,
    "demo_cmd_in_worktree": demo,
    "confirmed": result,
    "what_was_run": "tools/seedtest.sh: demo on clean worktree (pass), existing test suite with the change (pass), demo with the change (fail), then ./check %s quick on /repo with the change applied (reverted afterwards)" % pid,
    "detected_by": det,
}
json.dump(meta, open(os.path.join(dst, "meta.json"), "w"), indent=1)
print("kept", dst)
