#!/bin/bash
# benignround.sh <area> <tag> <checks...>: applies /tmp/bout-<area>/{1,2,3}/patch.diff to /repo one at a time, runs the
# named quick checks (none may alarm, all must stay exhaustive), restores /repo and keeps the patch as benign/<area>-<tag>-<k>.
area="$1"; tag="$2"; shift 2
ROOT="$(cd "$(dirname "$0")/.." && pwd)"
for k in 1 2 3; do
  S=/tmp/bout-$area/$k
  [ -f "$S/patch.diff" ] || { echo "$area $k: no patch"; continue; }
  [ -n "$(git -C /repo status --porcelain)" ] && { echo "/repo not clean"; exit 2; }
  git -C /repo apply "$S/patch.diff" || { echo "$area $k: patch does not apply"; continue; }
  (cd /repo && GOFLAGS=-mod=mod GOPROXY=off go build ./... ) || { echo "$area $k: does not build"; git -C /repo checkout -q -- .; continue; }
  out=$("$ROOT/tools/runall.sh" quick "$@" 2>&1); r=$?
  git -C /repo checkout -q -- .; git -C /repo clean -fdq 2>/dev/null
  d="$ROOT/benign/$area-$tag-$k"; mkdir -p "$d"; cp "$S/patch.diff" "$S/notes.md" "$d/" 2>/dev/null
  if [ $r -eq 0 ] && ! echo "$out" | grep -q "NOT EXHAUSTIVE\|exhaustive=false"; then res="all named quick checks exit 0, exhaustive, no VIOLATION"; echo "$area-$tag-$k: quiet [$*]"; else res="ATTENTION: $(echo "$out" | grep -E "exit=[12]|VIOLATION|violation class|NOT EXHAUSTIVE" | head -3 | tr '\n' ' ' | cut -c1-300)"; echo "$area-$tag-$k: ATTENTION"; echo "$out" | grep -E "exit=|violation class|NOT EXHAUSTIVE" | cut -c1-250 | head -8; fi
  BENIGN_ROUND="${BENIGN_ROUND:-3: size-dependent fast path / kept state reset on every path / regrouped steps}" python3 - "$d" "$res" "$@" <<'P'
import json,sys
d,res,*checks=sys.argv[1:]
import os
json.dump({"kind":"behaviour-preserving refactoring (sub-agent, round "+os.environ["BENIGN_ROUND"]+")","checks":checks,"result":res},open(d+"/meta.json","w"),indent=1)
P
done
