#!/bin/bash
# build_duo.sh <workdir>: instruments every package of the library that the "two goroutines, unrelated
# objects" drivers reach (race hooks and scheduling points) and builds h/cmd/duo as <workdir>/bin-duo.
set -eu
export GOFLAGS=-mod=mod GOPROXY=off GOSUMDB=off GOTOOLCHAIN=local
ROOT="$(cd "$(dirname "$0")/.." && pwd)"
WORK="$1"
REPO="${VERIF_REPO:-/repo}"
(cd "$ROOT/tools/vinstr" && go build -o "$WORK/vinstr-duo" .)
extra=()
: > "$WORK/vinstr-duo.log"
for pkg in alphabet feat feat/gene seq seq/linear seq/alignment seq/multi seq/quality seq/sequtils util align align/pals align/pals/filter align/pals/dp index/kmerindex io/seqio/fasta io/seqio/fastq io/featio/bed io/featio/gff morass; do
  [ -d "$REPO/$pkg" ] || continue
  name="duo_$(echo "$pkg" | tr '/' '_')"
  (cd "$REPO" && "$WORK/vinstr-duo" -race -dir "$REPO/$pkg" -out "$WORK/instr/$name" -overlay "$WORK/instr/$name.json") >> "$WORK/vinstr-duo.log"
  extra+=("$WORK/instr/$name.json")
done
python3 "$ROOT/tools/overlay.py" "$WORK/overlay-duo.json" "${extra[@]}"
cd "$ROOT/h"
go build -overlay "$WORK/overlay-duo.json" -o "$WORK/bin-duo" ./cmd/duo
