#!/bin/bash
# reseed.sh [ID...]: re-runs every kept seeded change against the current checks (each must be reported).
ROOT="$(cd "$(dirname "$0")/.." && pwd)"
REPO="${VERIF_REPO:-/repo}"   # a snapshot of the repository when run in the background (vp run --with-repo)
ids=("$@")
[ -n "$(git -C "$REPO" status --porcelain)" ] && { echo "/repo not clean"; exit 2; }
bad=0
for d in "$ROOT"/seeded/*/; do
  name=$(basename "$d"); id=${name%%-*}
  if [ ${#ids[@]} -gt 0 ] && [[ ! " ${ids[*]} " =~ " $id " ]]; then continue; fi
  sup=$(python3 -c "import json;print(json.load(open('$d/meta.json')).get('superseded_by',''))" 2>/dev/null)
  if [ -n "$sup" ]; then echo "$name: superseded by $sup (written against an earlier tree)"; continue; fi
  oos=$(python3 -c "import json;print('y' if json.load(open('$d/meta.json')).get('out_of_scope') else '')" 2>/dev/null)
  if [ -n "$oos" ]; then echo "$name: out of scope (see meta.json)"; continue; fi
  nr=$(python3 -c "import json;print('y' if json.load(open('$d/meta.json')).get('not_reached') else '')" 2>/dev/null)
  if [ -n "$nr" ]; then echo "$name: NOT REACHED by the checks (recorded as such in meta.json and DESIGN.md)"; continue; fi
  by=$(python3 -c "import json;print(' '.join(json.load(open('$d/meta.json')).get('checked_by',[])))" 2>/dev/null)
  [ -n "$by" ] && id=$by   # a change written for one property that belongs to another's check
  if ! git -C "$REPO" apply --check "$d/patch.diff" 2>/dev/null; then echo "$name: PATCH DOES NOT APPLY"; bad=1; continue; fi
  git -C "$REPO" apply "$d/patch.diff"
  tier=$(python3 -c "import json;print(json.load(open('$d/meta.json')).get('tier','quick'))" 2>/dev/null)   # a few changes show only in the thorough tier (meta.json says so)
  out=$("$ROOT/check" "$id" "${tier:-quick}" 2>&1); r=$?
  git -C "$REPO" checkout -q -- . ; git -C "$REPO" clean -fdq
  cls=$(echo "$out" | grep -E "^violation class" | sed 's/ cases=.*//; s/violation class=//' | tr '\n' ' ' | cut -c1-150)
  if [ $r -eq 1 ]; then echo "$name: detected [$cls]"; else echo "$name: MISSED (exit $r)"; bad=1; fi
done
exit $bad
