#!/bin/bash
# known_inputs.sh: regenerates findings/known-C15-bisection-inputs.txt (the inputs the recorded C15 finding
# covers) from a quick and a thorough run on the CURRENT /repo tree.  Maintenance only: run it on the
# unchanged tree after the C15 enumeration changed, look at the diff, commit.  Checks never write this file.
ROOT="$(cd "$(dirname "$0")/.." && pwd)"
T=$(mktemp /dev/shm/known.XXXXXX)
for tier in quick thorough; do VERIF_DUMP_KNOWN_INPUTS=$T "$ROOT/check" C15 $tier > /dev/null; done
sort -u "$T" > "$ROOT/findings/known-C15-bisection-inputs.txt"; rm -f "$T"
wc -l "$ROOT/findings/known-C15-bisection-inputs.txt"
