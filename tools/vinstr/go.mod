module verif/vinstr

go 1.23
