package main

import "go/ast"

// raceFile is filled in by race instrumentation (see race hooks in stmt()).
func (in *inst) raceFile(f *ast.File) {}
