package main

import (
	"fmt"
	"go/ast"
	"go/token"
	"go/types"
	"path/filepath"
	"strconv"
)

// Race instrumentation: before each simple statement (and before the header of
// if/switch/range), emit vrt.Rd / vrt.Wr calls for the struct fields,
// package-level variables, local variables that a function literal refers to, slice elements and pointer targets the statement
// reads or writes.  These are not scheduling points; they feed the
// vector-clock race oracle of the runtime.

type acc struct {
	e     ast.Expr
	write bool
}

func (in *inst) syncType(t types.Type) bool {
	for {
		switch u := t.(type) {
		case *types.Pointer:
			t = u.Elem()
			continue
		case *types.Named:
			if p := u.Obj().Pkg(); p != nil && (p.Path() == "sync" || p.Path() == "sync/atomic") {
				return true
			}
		}
		return false
	}
}

func (in *inst) record(e ast.Expr, write bool, out *[]acc) {
	tv, ok := in.info.Types[e]
	if !ok || !tv.Addressable() || !pure(e) {
		return
	}
	if in.syncType(tv.Type) {
		return
	}
	// an expression that mentions a local the statement itself declares (`switch p := i*c + j; table[p] {`)
	// cannot be evaluated where the hooks go
	late := false
	ast.Inspect(e, func(n ast.Node) bool {
		if id, ok := n.(*ast.Ident); ok && in.hookPos.IsValid() {
			if v, ok := in.info.Uses[id].(*types.Var); ok && !v.IsField() && in.pkg != nil && v.Parent() != in.pkg.Scope() && v.Parent() != types.Universe && v.Pkg() == in.pkg && v.Pos() >= in.hookPos {
				late = true
			}
		}
		return !late
	})
	if late {
		return
	}
	*out = append(*out, acc{e, write})
}

func (in *inst) walk(e ast.Expr, write bool, out *[]acc) {
	switch e := e.(type) {
	case nil:
	case *ast.ParenExpr:
		in.walk(e.X, write, out)
	case *ast.FuncLit:
	case *ast.Ident:
		if e.Name == "_" {
			return
		}
		if v, ok := in.info.Uses[e].(*types.Var); ok && !v.IsField() && in.pkg != nil && (v.Parent() == in.pkg.Scope() || in.captured[v] && v.Pos() < in.hookPos) {
			// (a local declared by the statement itself - `if err := f(); err != nil` - does not exist yet where the hooks go)
			in.record(e, write, out)
		}
	case *ast.SelectorExpr:
		if sel := in.info.Selections[e]; sel != nil {
			if sel.Kind() == types.FieldVal {
				in.record(e, write, out)
			}
			in.walk(e.X, false, out)
		}
	case *ast.IndexExpr:
		t := in.info.TypeOf(e.X)
		if t == nil {
			return
		}
		switch u := t.Underlying().(type) {
		case *types.Slice, *types.Array:
			in.record(e, write, out)
			in.walk(e.X, false, out)
		case *types.Pointer:
			if _, ok := u.Elem().Underlying().(*types.Array); ok {
				in.record(e, write, out)
			}
			in.walk(e.X, false, out)
		case *types.Map:
			in.walk(e.X, write, out) // a map update is a write of the map
		default:
			in.walk(e.X, false, out)
		}
		in.walk(e.Index, false, out)
	case *ast.StarExpr:
		in.record(e, write, out)
		in.walk(e.X, false, out)
	case *ast.UnaryExpr:
		if e.Op == token.AND {
			if _, isLit := e.X.(*ast.CompositeLit); isLit {
				in.walk(e.X, false, out)
			} else {
				// taking an address reads what the address is computed from, not the variable itself; whoever
				// writes through the pointer is hooked where it does so (calls into code that is not
				// instrumented are dealt with at the call, below)
				in.addrOf(e.X, false, out)
			}
			return
		}
		in.walk(e.X, false, out)
	case *ast.BinaryExpr:
		in.walk(e.X, false, out)
		if e.Op != token.LAND && e.Op != token.LOR { // right operands are evaluated conditionally
			in.walk(e.Y, false, out)
		}
	case *ast.CallExpr:
		in.walk(e.Fun, false, out)
		external := in.externalCall(e)
		for i, a := range e.Args {
			if i == 0 && in.isAtomicCall(e) {
				continue // the operand of an atomic operation is not a plain access
			}
			if u, ok := unparen(a).(*ast.UnaryExpr); ok && u.Op == token.AND && external {
				if _, isLit := u.X.(*ast.CompositeLit); !isLit {
					in.addrOf(u.X, true, out) // a pointer handed to code outside the library: assume written through
					continue
				}
			}
			in.walk(a, false, out)
		}
	case *ast.SliceExpr:
		in.walk(e.X, false, out)
		in.walk(e.Low, false, out)
		in.walk(e.High, false, out)
		in.walk(e.Max, false, out)
	case *ast.TypeAssertExpr:
		in.walk(e.X, false, out)
	case *ast.CompositeLit:
		for _, el := range e.Elts {
			in.walk(el, false, out)
		}
	case *ast.KeyValueExpr:
		in.walk(e.Value, false, out)
	}
}

func unparen(e ast.Expr) ast.Expr {
	for {
		p, ok := e.(*ast.ParenExpr)
		if !ok {
			return e
		}
		e = p.X
	}
}

// addrOf records the accesses of &x: with written, x itself counts as written (and what leads to it as
// read); without, only what the address is computed from is read.
func (in *inst) addrOf(x ast.Expr, written bool, out *[]acc) {
	if written {
		in.walk(x, true, out)
		return
	}
	switch x := unparen(x).(type) {
	case *ast.Ident:
	case *ast.SelectorExpr:
		if sel := in.info.Selections[x]; sel != nil {
			if sel.Indirect() {
				in.walk(x.X, false, out)
			} else {
				in.addrOf(x.X, false, out)
			}
		}
	case *ast.IndexExpr:
		if t := in.info.TypeOf(x.X); t != nil {
			if _, isArr := t.Underlying().(*types.Array); isArr {
				in.addrOf(x.X, false, out)
			} else {
				in.walk(x.X, false, out)
			}
		}
		in.walk(x.Index, false, out)
	case *ast.StarExpr:
		in.walk(x.X, false, out)
	default:
		in.walk(x, false, out)
	}
}

// externalCall reports whether the call may run code that is not part of the library (the standard
// library, a function value): such code writes through pointers it is given without any hook seeing it.
// Conversions and calls of the library's own functions and methods are not external.
func (in *inst) externalCall(e *ast.CallExpr) bool {
	if tv, ok := in.info.Types[e.Fun]; ok && tv.IsType() {
		return false
	}
	var obj types.Object
	switch f := unparen(e.Fun).(type) {
	case *ast.Ident:
		obj = in.info.Uses[f]
	case *ast.SelectorExpr:
		obj = in.info.Uses[f.Sel]
	}
	if obj == nil {
		return true
	}
	if _, isFunc := obj.(*types.Func); !isFunc {
		if _, isBuiltin := obj.(*types.Builtin); isBuiltin {
			return false
		}
		return true // a function value
	}
	if obj.Pkg() == nil {
		return true
	}
	path := obj.Pkg().Path()
	return !(path == "github.com/biogo/biogo" || len(path) > 23 && path[:23] == "github.com/biogo/biogo/")
}

func (in *inst) stmtAccesses(s ast.Stmt, out *[]acc) {
	switch s := s.(type) {
	case nil:
	case *ast.AssignStmt:
		for _, r := range s.Rhs {
			in.walk(r, false, out)
		}
		for _, l := range s.Lhs {
			in.walk(l, true, out)
		}
	case *ast.IncDecStmt:
		in.walk(s.X, true, out)
	case *ast.ExprStmt:
		in.walk(s.X, false, out)
	case *ast.ReturnStmt:
		for _, r := range s.Results {
			in.walk(r, false, out)
		}
	case *ast.SendStmt:
		in.walk(s.Chan, false, out)
		in.walk(s.Value, false, out)
	case *ast.DeclStmt:
		if gd, ok := s.Decl.(*ast.GenDecl); ok {
			for _, sp := range gd.Specs {
				if vs, ok := sp.(*ast.ValueSpec); ok {
					for _, v := range vs.Values {
						in.walk(v, false, out)
					}
				}
			}
		}
	case *ast.GoStmt:
		in.walk(s.Call, false, out)
	case *ast.DeferStmt:
		in.walk(s.Call, false, out)
	}
}

// raceHooks returns the Rd/Wr statements for the accesses of the given parts.
func (in *inst) raceHooks(pos token.Pos, stmts []ast.Stmt, exprs []ast.Expr) []ast.Stmt {
	if !in.race {
		return nil
	}
	in.hookPos = pos
	var as []acc
	for _, s := range stmts {
		in.stmtAccesses(s, &as)
	}
	for _, e := range exprs {
		in.walk(e, false, &as)
	}
	if len(as) == 0 {
		return nil
	}
	p := in.fset.Position(pos)
	where := strconv.Quote(fmt.Sprintf("%s:%d", filepath.Base(p.Filename), p.Line))
	seen := map[string]int{}
	var uniq []acc
	for _, a := range as {
		k := types.ExprString(a.e)
		if i, ok := seen[k]; ok {
			if a.write {
				uniq[i].write = true
			}
			continue
		}
		seen[k] = len(uniq)
		uniq = append(uniq, a)
	}
	var out []ast.Stmt
	// x = append(x, ...) writes the slot behind the last element when the capacity allows: a write of
	// that slot (another thread may still be reading the array through an older, longer view)
	for _, st := range stmts {
		as, ok := st.(*ast.AssignStmt)
		if !ok || len(as.Rhs) != 1 {
			continue
		}
		ce, ok := as.Rhs[0].(*ast.CallExpr)
		if !ok || len(ce.Args) < 2 {
			continue
		}
		if id, ok := ce.Fun.(*ast.Ident); !ok || id.Name != "append" {
			continue
		} else if _, isBuiltin := in.info.Uses[id].(*types.Builtin); !isBuiltin {
			continue
		}
		x := ce.Args[0]
		if tv, ok := in.info.Types[x]; !ok || !pure(x) || !tv.Addressable() {
			continue
		}
		if _, ok := in.info.TypeOf(x).Underlying().(*types.Slice); !ok {
			continue
		}
		ln := &ast.CallExpr{Fun: ast.NewIdent("len"), Args: []ast.Expr{x}}
		slot := &ast.IndexExpr{X: &ast.SliceExpr{X: x, High: &ast.BinaryExpr{X: ln, Op: token.ADD, Y: &ast.BasicLit{Kind: token.INT, Value: "1"}}}, Index: ln}
		ptr := &ast.CallExpr{Fun: &ast.SelectorExpr{X: ast.NewIdent("unsafe"), Sel: ast.NewIdent("Pointer")}, Args: []ast.Expr{&ast.UnaryExpr{Op: token.AND, X: slot}}}
		out = append(out, &ast.IfStmt{
			Cond: &ast.BinaryExpr{X: ln, Op: token.LSS, Y: &ast.CallExpr{Fun: ast.NewIdent("cap"), Args: []ast.Expr{x}}},
			Body: &ast.BlockStmt{List: []ast.Stmt{&ast.ExprStmt{X: call("Wr", ptr, &ast.BasicLit{Kind: token.STRING, Value: where})}}},
		})
		in.counts["race:Wr(append slot)"]++
	}
	for _, a := range uniq {
		fn := "Rd"
		if a.write {
			fn = "Wr"
		}
		ptr := &ast.CallExpr{Fun: &ast.SelectorExpr{X: ast.NewIdent("unsafe"), Sel: ast.NewIdent("Pointer")}, Args: []ast.Expr{&ast.UnaryExpr{Op: token.AND, X: a.e}}}
		out = append(out, &ast.ExprStmt{X: call(fn, ptr, &ast.BasicLit{Kind: token.STRING, Value: where})})
		in.counts["race:"+fn]++
	}
	return out
}
