// vinstr rewrites the synchronisation, channel and file operations of one Go
// package into calls that are both the real operation and a scheduling point
// of the vrt runtime.  It works on the package as it is in the working tree,
// so exploration follows whatever the source does now.
//
//	vinstr -dir /repo/morass -out /scratch/morass -overlay /scratch/morass.json [-race]
//
// Constructs it cannot express are left untouched and listed on stdout as
// "UNINSTRUMENTED file:line: reason" (the check then refuses to claim
// exhaustiveness).
package main

import (
	"bytes"
	"encoding/json"
	"flag"
	"fmt"
	"go/ast"
	"go/build"
	"go/importer"
	"go/parser"
	"go/printer"
	"go/token"
	"go/types"
	"os"
	"path/filepath"
	"sort"
	"strconv"
	"strings"
)

const vrtPath = "github.com/biogo/biogo/verifrt/vrt"

type inst struct {
	fset     *token.FileSet
	info     *types.Info
	pkg      *types.Package
	n        int
	race     bool
	unin     []string
	counts   map[string]int
	hookPos  token.Pos             // position of the statement whose race hooks are being built
	captured map[types.Object]bool // local variables some function literal refers to: shared between threads like fields are
	loops    []*loopInfo           // enclosing for / range statements of the statement being rewritten (reset inside function literals)
}

// loopInfo is one enclosing loop; tok is set once a go statement in it has been
// found to start interchangeable workers (see symSpawn).
type loopInfo struct {
	node ast.Node
	tok  string
}

// symSpawn decides whether the go statement starts interchangeable workers: a
// function literal called without arguments, directly inside a loop of the
// same function, none of whose free variables is declared inside that loop
// (so every iteration runs the same code over the same variables).  It
// returns the loop, or nil.
func (in *inst) symSpawn(s *ast.GoStmt) *loopInfo {
	if len(in.loops) == 0 || len(s.Call.Args) != 0 {
		return nil
	}
	lit, ok := s.Call.Fun.(*ast.FuncLit)
	if !ok {
		return nil
	}
	l := in.loops[len(in.loops)-1]
	ok = true
	ast.Inspect(lit, func(n ast.Node) bool {
		id, isID := n.(*ast.Ident)
		if !isID {
			return true
		}
		obj := in.info.Uses[id]
		if obj == nil {
			return true
		}
		switch obj.(type) {
		case *types.Var, *types.Label, *types.Const, *types.TypeName, *types.Func:
		default:
			return true
		}
		dp := obj.Pos()
		if dp >= lit.Pos() && dp < lit.End() {
			return true // declared inside the literal
		}
		if dp >= l.node.Pos() && dp < l.node.End() {
			ok = false // declared by or inside the loop: differs from iteration to iteration
		}
		return true
	})
	if !ok {
		return nil
	}
	return l
}

// rangeElemHook makes the element a `for _, v := range slice` iteration copies out an access of the
// race oracle: a read of slice[i] at the top of the iteration (guarded: the body may reslice the variable).
func (in *inst) rangeElemHook(s *ast.RangeStmt) {
	if !in.race || s.Value == nil || !pure(s.X) || s.Tok != token.DEFINE {
		return
	}
	if id, ok := s.Value.(*ast.Ident); ok && id.Name == "_" {
		return
	}
	// `for _, m := range m.Seq`: inside the body the range expression would mean something else
	shadowed := false
	ast.Inspect(s.X, func(n ast.Node) bool {
		if id, ok := n.(*ast.Ident); ok {
			for _, v := range []ast.Expr{s.Key, s.Value} {
				if vi, ok := v.(*ast.Ident); ok && vi.Name == id.Name {
					shadowed = true
				}
			}
		}
		return !shadowed
	})
	if shadowed {
		return
	}
	t := in.info.TypeOf(s.X)
	if t == nil {
		return
	}
	if _, ok := t.Underlying().(*types.Slice); !ok {
		return
	}
	key, _ := s.Key.(*ast.Ident)
	if key == nil || key.Name == "_" {
		key = ast.NewIdent(in.tmp("K"))
		s.Key = key
	}
	p := in.fset.Position(s.Pos())
	where := strconv.Quote(fmt.Sprintf("%s:%d", filepath.Base(p.Filename), p.Line))
	elem := &ast.IndexExpr{X: s.X, Index: key}
	ptr := &ast.CallExpr{Fun: &ast.SelectorExpr{X: ast.NewIdent("unsafe"), Sel: ast.NewIdent("Pointer")}, Args: []ast.Expr{&ast.UnaryExpr{Op: token.AND, X: elem}}}
	hook := &ast.IfStmt{
		Cond: &ast.BinaryExpr{X: key, Op: token.LSS, Y: &ast.CallExpr{Fun: ast.NewIdent("len"), Args: []ast.Expr{s.X}}},
		Body: &ast.BlockStmt{List: []ast.Stmt{&ast.ExprStmt{X: call("Rd", ptr, &ast.BasicLit{Kind: token.STRING, Value: where})}}},
	}
	s.Body.List = append([]ast.Stmt{hook}, s.Body.List...)
	in.counts["race:Rd(range element)"]++
}

func hasCall(e ast.Expr) bool {
	found := false
	if e != nil {
		ast.Inspect(e, func(n ast.Node) bool {
			if _, ok := n.(*ast.CallExpr); ok {
				found = true
			}
			return !found
		})
	}
	return found
}

// withLoop rewrites a loop body with the loop pushed on the stack and returns
// the declaration of the loop's symmetry token if one was requested.
func (in *inst) withLoop(node ast.Node, body *ast.BlockStmt) []ast.Stmt {
	l := &loopInfo{node: node}
	in.loops = append(in.loops, l)
	body.List = in.block(body.List)
	in.loops = in.loops[:len(in.loops)-1]
	if l.tok == "" {
		return nil
	}
	return []ast.Stmt{&ast.DeclStmt{Decl: &ast.GenDecl{Tok: token.VAR, Specs: []ast.Spec{&ast.ValueSpec{Names: []*ast.Ident{ast.NewIdent(l.tok)}, Type: vrtSel("SymTok")}}}}}
}

func (in *inst) uninstrumented(pos token.Pos, why string) {
	p := in.fset.Position(pos)
	in.unin = append(in.unin, fmt.Sprintf("%s:%d: %s", filepath.Base(p.Filename), p.Line, why))
}

func (in *inst) tmp(prefix string) string {
	in.n++
	return fmt.Sprintf("vrt%s%d", prefix, in.n)
}

func vrtSel(name string) ast.Expr {
	return &ast.SelectorExpr{X: ast.NewIdent("vrt"), Sel: ast.NewIdent(name)}
}

func call(name string, args ...ast.Expr) *ast.CallExpr {
	return &ast.CallExpr{Fun: vrtSel(name), Args: args}
}

func (in *inst) isChan(e ast.Expr) bool {
	t := in.info.TypeOf(e)
	if t == nil {
		return false
	}
	_, ok := t.Underlying().(*types.Chan)
	return ok
}

func (in *inst) isPtr(e ast.Expr) bool {
	t := in.info.TypeOf(e)
	if t == nil {
		return false
	}
	_, ok := t.Underlying().(*types.Pointer)
	return ok
}

func addr(e ast.Expr) ast.Expr { return &ast.UnaryExpr{Op: token.AND, X: e} }

// pure reports whether evaluating e twice is harmless (identifiers, field
// selections, dereferences, index with pure operands).
func pure(e ast.Expr) bool {
	switch e := e.(type) {
	case *ast.Ident, *ast.BasicLit:
		return true
	case *ast.SelectorExpr:
		return pure(e.X)
	case *ast.StarExpr:
		return pure(e.X)
	case *ast.ParenExpr:
		return pure(e.X)
	case *ast.IndexExpr:
		return pure(e.X) && pure(e.Index)
	case *ast.UnaryExpr:
		return e.Op != token.ARROW && pure(e.X)
	}
	return false
}

var syncMethods = map[string]string{
	"Mutex.Lock": "MutexLock", "Mutex.Unlock": "MutexUnlock",
	"RWMutex.Lock": "RWLock", "RWMutex.Unlock": "RWUnlock", "RWMutex.RLock": "RWRLock", "RWMutex.RUnlock": "RWRUnlock",
	"WaitGroup.Add": "WGAdd", "WaitGroup.Done": "WGDone", "WaitGroup.Wait": "WGWait",
	"Once.Do":   "OnceDo",
	"Cond.Wait": "CondWait", "Cond.Signal": "CondSignal", "Cond.Broadcast": "CondBroadcast",
	"Pool.Get": "PoolGet", "Pool.Put": "PoolPut",
}

var fileMethods = map[string]string{"Sync": "FSync", "Seek": "FSeek", "Close": "FClose", "Read": "FRead", "Write": "FWrite"}

var pkgFuncs = map[string]string{
	"io/ioutil.TempFile": "TempFile", "os.CreateTemp": "TempFile",
	"io/ioutil.TempDir": "TempDir", "os.MkdirTemp": "TempDir",
	"os.Remove": "Remove", "os.RemoveAll": "RemoveAll",
}

// calls rewrites call expressions in place (no statement context needed).
func (in *inst) calls(root ast.Node) {
	ast.Inspect(root, func(n ast.Node) bool {
		c, ok := n.(*ast.CallExpr)
		if !ok {
			return true
		}
		switch f := c.Fun.(type) {
		case *ast.Ident:
			if b, ok := in.info.Uses[f].(*types.Builtin); ok && len(c.Args) == 1 && in.isChan(c.Args[0]) {
				switch b.Name() {
				case "close":
					c.Fun = vrtSel("Close")
					in.counts["close"]++
				case "len":
					c.Fun = vrtSel("Len")
					in.counts["len"]++
				}
			}
		case *ast.SelectorExpr:
			// package function?
			if id, ok := f.X.(*ast.Ident); ok {
				if pn, ok := in.info.Uses[id].(*types.PkgName); ok {
					full := pn.Imported().Path() + "." + f.Sel.Name
					if to, ok := pkgFuncs[full]; ok {
						c.Fun = vrtSel(to)
						in.counts["io:"+to]++
						return true
					}
					switch full {
					case "encoding/gob.NewEncoder":
						c.Args[0] = call("W", c.Args[0])
						in.counts["io:gob-writer"]++
					case "encoding/gob.NewDecoder":
						c.Args[0] = call("R", c.Args[0])
						in.counts["io:gob-reader"]++
					case "bufio.NewWriter", "bufio.NewWriterSize":
						// the file operations a buffered writer makes happen inside the standard library: the
						// writer underneath is wrapped, so that each of them is a step (and a fault site) all the same
						c.Args[0] = call("W", c.Args[0])
						in.counts["io:bufio-writer"]++
					case "bufio.NewReader", "bufio.NewReaderSize":
						c.Args[0] = call("R", c.Args[0])
						in.counts["io:bufio-reader"]++
					}
					if pn.Imported().Path() == "time" && (f.Sel.Name == "Sleep" || f.Sel.Name == "After" || f.Sel.Name == "Tick" || f.Sel.Name == "NewTimer" || f.Sel.Name == "AfterFunc" || f.Sel.Name == "NewTicker") {
						in.uninstrumented(c.Pos(), "time."+f.Sel.Name)
					}
					return true
				}
			}
			sel := in.info.Selections[f]
			if sel == nil || sel.Kind() != types.MethodVal {
				return true
			}
			fn, ok := sel.Obj().(*types.Func)
			if !ok || fn.Pkg() == nil {
				return true
			}
			sig := fn.Type().(*types.Signature)
			if sig.Recv() == nil {
				return true
			}
			rt := sig.Recv().Type()
			if p, ok := rt.(*types.Pointer); ok {
				rt = p.Elem()
			}
			named, ok := rt.(*types.Named)
			if !ok {
				return true
			}
			var to string
			switch fn.Pkg().Path() {
			case "sync":
				to = syncMethods[named.Obj().Name()+"."+fn.Name()]
				if to == "" {
					if named.Obj().Name() == "Map" || named.Obj().Name() == "Pool" {
						in.uninstrumented(c.Pos(), "sync."+named.Obj().Name()+"."+fn.Name())
					}
					return true
				}
			case "os":
				if named.Obj().Name() != "File" {
					return true
				}
				to = fileMethods[fn.Name()]
				if to == "" {
					return true
				}
			default:
				return true
			}
			recv := f.X
			if len(sel.Index()) > 1 {
				// a method promoted through embedded fields: spell the path out (x.Lock() -> x.Mutex.Lock())
				t := in.info.TypeOf(f.X)
				ok := t != nil
				for _, ix := range sel.Index()[:len(sel.Index())-1] {
					if !ok {
						break
					}
					if p, isPtr := t.Underlying().(*types.Pointer); isPtr {
						t = p.Elem()
					}
					st, isStruct := t.Underlying().(*types.Struct)
					if !isStruct || ix >= st.NumFields() {
						ok = false
						break
					}
					fld := st.Field(ix)
					recv = &ast.SelectorExpr{X: recv, Sel: ast.NewIdent(fld.Name())}
					t = fld.Type()
				}
				if !ok || !pure(f.X) {
					in.uninstrumented(c.Pos(), "promoted method "+fn.Name()+" through embedding")
					return true
				}
				if _, isPtr := t.Underlying().(*types.Pointer); !isPtr {
					recv = addr(recv)
				}
				c.Fun = vrtSel(to)
				c.Args = append([]ast.Expr{recv}, c.Args...)
				in.counts["sync:"+to]++
				return true
			}
			if !in.isPtr(recv) {
				recv = addr(recv)
			}
			c.Fun = vrtSel(to)
			c.Args = append([]ast.Expr{recv}, c.Args...)
			in.counts["sync:"+to]++
		}
		return true
	})
}

// recvs lists the receive expressions directly inside the given nodes (not in
// nested function literals).
func (in *inst) recvs(nodes ...ast.Node) []*ast.UnaryExpr {
	var out []*ast.UnaryExpr
	for _, n := range nodes {
		if n == nil || isNilNode(n) {
			continue
		}
		ast.Inspect(n, func(n ast.Node) bool {
			switch n := n.(type) {
			case *ast.FuncLit:
				return false
			case *ast.UnaryExpr:
				if n.Op == token.ARROW {
					out = append(out, n)
				}
			}
			return true
		})
	}
	return out
}

func isNilNode(n ast.Node) bool {
	switch v := n.(type) {
	case ast.Expr:
		return v == nil
	case ast.Stmt:
		return v == nil
	}
	return false
}

// funcLits processes the bodies of function literals directly inside nodes.
func (in *inst) funcLits(nodes ...ast.Node) {
	for _, n := range nodes {
		if n == nil || isNilNode(n) {
			continue
		}
		ast.Inspect(n, func(n ast.Node) bool {
			if fl, ok := n.(*ast.FuncLit); ok {
				saved := in.loops
				in.loops = nil
				fl.Body.List = in.block(fl.Body.List)
				in.loops = saved
				return false
			}
			return true
		})
	}
}

func (in *inst) hooks(pos token.Pos, rs []*ast.UnaryExpr) []ast.Stmt {
	var out []ast.Stmt
	if len(rs) > 1 {
		in.uninstrumented(pos, "more than one receive in a statement")
	}
	for _, r := range rs {
		if !pure(r.X) {
			in.uninstrumented(pos, "receive from a channel expression with side effects")
			continue
		}
		out = append(out, &ast.ExprStmt{X: call("Recv", r.X)})
		in.counts["recv"]++
	}
	return out
}

// atomics lists the sync/atomic calls directly inside the given nodes.
func (in *inst) atomics(nodes ...ast.Node) []ast.Stmt {
	var out []ast.Stmt
	for _, n := range nodes {
		if n == nil || isNilNode(n) {
			continue
		}
		ast.Inspect(n, func(n ast.Node) bool {
			switch n := n.(type) {
			case *ast.FuncLit:
				return false
			case *ast.CallExpr:
				if in.isAtomicCall(n) {
					if len(n.Args) == 0 || !pure(n.Args[0]) {
						in.uninstrumented(n.Pos(), "sync/atomic call with an impure operand")
						return true
					}
					out = append(out, &ast.ExprStmt{X: call("Atomic", n.Args[0])})
					in.counts["atomic"]++
				}
			}
			return true
		})
	}
	return out
}

func (in *inst) isAtomicCall(c *ast.CallExpr) bool {
	f, ok := c.Fun.(*ast.SelectorExpr)
	if !ok {
		return false
	}
	id, ok := f.X.(*ast.Ident)
	if !ok {
		return false
	}
	pn, ok := in.info.Uses[id].(*types.PkgName)
	return ok && pn.Imported().Path() == "sync/atomic"
}

// pre builds the statements placed before a statement: scheduling points for its
// receives and atomics, then the race-oracle accesses of the given parts.
func (in *inst) pre(pos token.Pos, stmts []ast.Stmt, exprs []ast.Expr) []ast.Stmt {
	var nodes []ast.Node
	for _, s := range stmts {
		if s != nil {
			nodes = append(nodes, s)
		}
	}
	for _, e := range exprs {
		if e != nil {
			nodes = append(nodes, e)
		}
	}
	out := in.hooks(pos, in.recvs(nodes...))
	out = append(out, in.atomics(nodes...)...)
	var ss []ast.Stmt
	for _, s := range stmts {
		if s != nil {
			ss = append(ss, s)
		}
	}
	var es []ast.Expr
	for _, e := range exprs {
		if e != nil {
			es = append(es, e)
		}
	}
	return append(out, in.raceHooks(pos, ss, es)...)
}

func (in *inst) block(list []ast.Stmt) []ast.Stmt {
	var out []ast.Stmt
	for _, s := range list {
		out = append(out, in.stmt(s)...)
	}
	return out
}

func exprNode(e ast.Expr) ast.Node {
	if e == nil {
		return nil
	}
	return e
}

func stmtNode(s ast.Stmt) ast.Node {
	if s == nil {
		return nil
	}
	return s
}

func (in *inst) stmt(s ast.Stmt) []ast.Stmt {
	switch s := s.(type) {
	case nil:
		return nil
	case *ast.BlockStmt:
		s.List = in.block(s.List)
		return []ast.Stmt{s}
	case *ast.IfStmt:
		in.funcLits(stmtNode(s.Init), exprNode(s.Cond))
		pre := in.pre(s.Pos(), []ast.Stmt{s.Init}, []ast.Expr{s.Cond})
		s.Body.List = in.block(s.Body.List)
		if s.Else != nil {
			r := in.stmt(s.Else)
			if len(r) == 1 {
				s.Else = r[0]
			} else {
				s.Else = &ast.BlockStmt{List: r}
			}
		}
		return append(pre, s)
	case *ast.ForStmt:
		in.funcLits(stmtNode(s.Init), exprNode(s.Cond), stmtNode(s.Post))
		if len(in.recvs(exprNode(s.Cond), stmtNode(s.Post))) > 0 {
			in.uninstrumented(s.Pos(), "receive in a for condition/post statement")
		}
		if len(in.atomics(exprNode(s.Cond), stmtNode(s.Post))) > 0 {
			in.uninstrumented(s.Pos(), "sync/atomic call in a for condition/post statement")
		}
		pre := in.pre(s.Pos(), []ast.Stmt{s.Init}, nil)
		pre = append(pre, in.withLoop(s, s.Body)...)
		// the accesses of the post statement (a loop counter a goroutine's closure refers to) are recorded
		// where the next iteration starts: same thread, nothing but the condition in between
		if s.Post != nil && !hasCall(s.Cond) {
			if hooks := in.raceHooks(s.Post.Pos(), []ast.Stmt{s.Post}, []ast.Expr{s.Cond}); len(hooks) > 0 {
				flag := ast.NewIdent(in.tmp("It"))
				pre = append(pre, &ast.AssignStmt{Lhs: []ast.Expr{flag}, Tok: token.DEFINE, Rhs: []ast.Expr{ast.NewIdent("false")}})
				head := []ast.Stmt{
					&ast.IfStmt{Cond: flag, Body: &ast.BlockStmt{List: hooks}},
					&ast.AssignStmt{Lhs: []ast.Expr{flag}, Tok: token.ASSIGN, Rhs: []ast.Expr{ast.NewIdent("true")}},
				}
				s.Body.List = append(head, s.Body.List...)
			}
		}
		return append(pre, s)
	case *ast.RangeStmt:
		in.funcLits(s.X)
		if !in.isChan(s.X) {
			pre := in.pre(s.Pos(), nil, []ast.Expr{s.X})
			pre = append(pre, in.withLoop(s, s.Body)...)
			in.rangeElemHook(s)
			return append(pre, s)
		}
		in.counts["range-chan"]++
		c := ast.NewIdent(in.tmp("C"))
		okv := ast.NewIdent(in.tmp("Ok"))
		var pre []ast.Stmt
		pre = append(pre, &ast.AssignStmt{Lhs: []ast.Expr{c}, Tok: token.DEFINE, Rhs: []ast.Expr{s.X}})
		key := s.Key
		if key == nil {
			key = ast.NewIdent("_")
		}
		tok := token.DEFINE
		if s.Tok == token.ASSIGN {
			tok = token.ASSIGN
			pre = append(pre, &ast.DeclStmt{Decl: &ast.GenDecl{Tok: token.VAR, Specs: []ast.Spec{&ast.ValueSpec{Names: []*ast.Ident{okv}, Type: ast.NewIdent("bool")}}}})
		}
		body := []ast.Stmt{
			&ast.ExprStmt{X: call("Recv", c)},
			&ast.AssignStmt{Lhs: []ast.Expr{key, okv}, Tok: tok, Rhs: []ast.Expr{&ast.UnaryExpr{Op: token.ARROW, X: c}}},
			&ast.IfStmt{Cond: &ast.UnaryExpr{Op: token.NOT, X: okv}, Body: &ast.BlockStmt{List: []ast.Stmt{&ast.BranchStmt{Tok: token.BREAK}}}},
		}
		pre = append(pre, in.withLoop(s, s.Body)...)
		body = append(body, s.Body.List...)
		return append(pre, &ast.ForStmt{For: s.For, Body: &ast.BlockStmt{List: body}})
	case *ast.SwitchStmt:
		in.funcLits(stmtNode(s.Init), exprNode(s.Tag))
		pre := in.pre(s.Pos(), []ast.Stmt{s.Init}, []ast.Expr{s.Tag})
		for _, cc := range s.Body.List {
			cl := cc.(*ast.CaseClause)
			for _, e := range cl.List {
				in.funcLits(e)
				if len(in.recvs(e)) > 0 {
					in.uninstrumented(e.Pos(), "receive in a case expression")
				}
			}
			cl.Body = in.block(cl.Body)
		}
		return append(pre, s)
	case *ast.TypeSwitchStmt:
		in.funcLits(stmtNode(s.Init), stmtNode(s.Assign))
		pre := in.pre(s.Pos(), []ast.Stmt{s.Init, s.Assign}, nil)
		for _, cc := range s.Body.List {
			cl := cc.(*ast.CaseClause)
			cl.Body = in.block(cl.Body)
		}
		return append(pre, s)
	case *ast.SelectStmt:
		return in.sel(s)
	case *ast.LabeledStmt:
		r := in.stmt(s.Stmt)
		if len(r) == 0 {
			return []ast.Stmt{s}
		}
		s.Stmt = r[len(r)-1]
		return append(r[:len(r)-1:len(r)-1], s)
	case *ast.GoStmt:
		return in.goStmt(s)
	case *ast.DeferStmt:
		in.funcLits(s.Call)
		if len(in.recvs(s.Call)) > 0 {
			in.uninstrumented(s.Pos(), "receive in the operands of a defer")
		}
		return append(in.raceHooks(s.Pos(), []ast.Stmt{s}, nil), s)
	case *ast.SendStmt:
		in.funcLits(s.Chan, s.Value)
		pre := in.pre(s.Pos(), []ast.Stmt{s}, nil)
		in.counts["send"]++
		return append(pre, &ast.ExprStmt{X: call("Send", s.Chan, s.Value)})
	default:
		in.funcLits(s)
		pre := in.pre(s.Pos(), []ast.Stmt{s}, nil)
		return append(pre, s)
	}
}

func (in *inst) sel(s *ast.SelectStmt) []ast.Stmt {
	in.counts["select"]++
	hasDefault := false
	var args []ast.Expr
	var clauses []ast.Stmt
	idx := 0
	for _, cc := range s.Body.List {
		cl := cc.(*ast.CommClause)
		body := in.block(cl.Body)
		if cl.Comm == nil {
			hasDefault = true
			clauses = append(clauses, &ast.CaseClause{List: nil, Body: body})
			continue
		}
		var ch ast.Expr
		send := false
		switch c := cl.Comm.(type) {
		case *ast.SendStmt:
			ch, send = c.Chan, true
			in.funcLits(c.Value)
			if len(in.recvs(c.Value)) > 0 {
				in.uninstrumented(c.Pos(), "receive inside the value of a select send")
			}
		case *ast.ExprStmt:
			if u, ok := c.X.(*ast.UnaryExpr); ok && u.Op == token.ARROW {
				ch = u.X
			}
		case *ast.AssignStmt:
			if len(c.Rhs) == 1 {
				if u, ok := c.Rhs[0].(*ast.UnaryExpr); ok && u.Op == token.ARROW {
					ch = u.X
				}
			}
		}
		if ch == nil || !pure(ch) {
			in.uninstrumented(cl.Pos(), "select clause not understood")
			return []ast.Stmt{s}
		}
		name := "CaseRecv"
		if send {
			name = "CaseSend"
		}
		args = append(args, call(name, ch))
		clauses = append(clauses, &ast.CaseClause{
			List: []ast.Expr{&ast.BasicLit{Kind: token.INT, Value: fmt.Sprint(idx)}},
			Body: append([]ast.Stmt{cl.Comm}, body...),
		})
		idx++
	}
	hd := "false"
	if hasDefault {
		hd = "true"
	}
	args = append([]ast.Expr{ast.NewIdent(hd)}, args...)
	return []ast.Stmt{&ast.SwitchStmt{Switch: s.Select, Tag: call("Select", args...), Body: &ast.BlockStmt{List: clauses}}}
}

func (in *inst) goStmt(s *ast.GoStmt) []ast.Stmt {
	in.counts["go"]++
	sym := in.symSpawn(s) // decided on the original syntax tree
	in.funcLits(s.Call)
	if len(in.recvs(s.Call)) > 0 {
		in.uninstrumented(s.Pos(), "receive in the operands of a go statement")
	}
	pre := in.raceHooks(s.Pos(), []ast.Stmt{s}, nil)
	c := s.Call
	if id, ok := c.Fun.(*ast.Ident); ok {
		if _, ok := in.info.Uses[id].(*types.Builtin); ok {
			in.uninstrumented(s.Pos(), "go with a builtin")
			return []ast.Stmt{s}
		}
	}
	f := ast.NewIdent(in.tmp("F"))
	pre = append(pre, &ast.AssignStmt{Lhs: []ast.Expr{f}, Tok: token.DEFINE, Rhs: []ast.Expr{c.Fun}})
	var args []ast.Expr
	for _, a := range c.Args {
		tv := in.info.Types[a]
		if tv.Value != nil || tv.IsNil() {
			args = append(args, a)
			continue
		}
		t := ast.NewIdent(in.tmp("A"))
		pre = append(pre, &ast.AssignStmt{Lhs: []ast.Expr{t}, Tok: token.DEFINE, Rhs: []ast.Expr{a}})
		args = append(args, t)
	}
	h := ast.NewIdent(in.tmp("H"))
	spawn := call("Spawn")
	if sym != nil {
		if sym.tok == "" {
			sym.tok = in.tmp("Sym")
		}
		in.counts["go-symmetric"]++
		spawn = call("SpawnSym", &ast.UnaryExpr{Op: token.AND, X: ast.NewIdent(sym.tok)})
	}
	pre = append(pre, &ast.AssignStmt{Lhs: []ast.Expr{h}, Tok: token.DEFINE, Rhs: []ast.Expr{spawn}})
	inner := &ast.CallExpr{Fun: f, Args: args, Ellipsis: c.Ellipsis}
	if c.Ellipsis != token.NoPos {
		inner.Ellipsis = 1
	}
	body := []ast.Stmt{
		&ast.DeferStmt{Call: call("End", h)},
		&ast.ExprStmt{X: call("Begin", h)},
		&ast.ExprStmt{X: inner},
	}
	gs := &ast.GoStmt{Go: s.Go, Call: &ast.CallExpr{Fun: &ast.FuncLit{Type: &ast.FuncType{Params: &ast.FieldList{}}, Body: &ast.BlockStmt{List: body}}}}
	return []ast.Stmt{&ast.BlockStmt{List: append(pre, gs)}}
}

var lineTables = map[string][]int32{}

// stripLineDirectives removes the //line directives from printed source and returns, for every line of
// the result (1-based, entry 0 unused), the line of the original file the directives assigned to it.
func stripLineDirectives(src []byte) ([]byte, []int32) {
	var out bytes.Buffer
	table := []int32{0}
	cur := int32(1)
	for _, ln := range strings.SplitAfter(string(src), "\n") {
		if ln == "" {
			continue
		}
		t := strings.TrimSpace(ln)
		if strings.HasPrefix(t, "//line ") {
			if i := strings.LastIndexByte(t, ':'); i >= 0 {
				var n int
				if _, err := fmt.Sscan(t[i+1:], &n); err == nil {
					cur = int32(n)
					continue
				}
			}
		}
		out.WriteString(ln)
		table = append(table, cur)
		cur++
	}
	return out.Bytes(), table
}

// fixImports adds the vrt import and drops imports that are no longer used.
func fixImports(f *ast.File) {
	used := map[string]bool{}
	ast.Inspect(f, func(n ast.Node) bool {
		if s, ok := n.(*ast.SelectorExpr); ok {
			if id, ok := s.X.(*ast.Ident); ok {
				used[id.Name] = true
			}
		}
		return true
	})
	for _, d := range f.Decls {
		gd, ok := d.(*ast.GenDecl)
		if !ok || gd.Tok != token.IMPORT {
			continue
		}
		var keep []ast.Spec
		for _, sp := range gd.Specs {
			is := sp.(*ast.ImportSpec)
			path := strings.Trim(is.Path.Value, `"`)
			name := filepath.Base(path)
			if strings.HasPrefix(name, "v") && len(name) > 1 && name[1] >= '0' && name[1] <= '9' {
				name = filepath.Base(filepath.Dir(path))
			}
			if is.Name != nil {
				name = is.Name.Name
			}
			if name == "_" || name == "." || used[name] {
				keep = append(keep, sp)
			}
		}
		gd.Specs = keep
	}
	if used["unsafe"] {
		have := false
		for _, d := range f.Decls {
			if gd, ok := d.(*ast.GenDecl); ok && gd.Tok == token.IMPORT {
				for _, sp := range gd.Specs {
					if sp.(*ast.ImportSpec).Path.Value == `"unsafe"` {
						have = true
					}
				}
			}
		}
		if !have {
			imp := &ast.GenDecl{Tok: token.IMPORT, Specs: []ast.Spec{&ast.ImportSpec{Path: &ast.BasicLit{Kind: token.STRING, Value: `"unsafe"`}}}}
			f.Decls = append([]ast.Decl{imp}, f.Decls...)
		}
	}
	if used["vrt"] {
		imp := &ast.GenDecl{Tok: token.IMPORT, Specs: []ast.Spec{&ast.ImportSpec{Name: ast.NewIdent("vrt"), Path: &ast.BasicLit{Kind: token.STRING, Value: `"` + vrtPath + `"`}}}}
		f.Decls = append([]ast.Decl{imp}, f.Decls...)
	}
	// drop import declarations that became empty
	var decls []ast.Decl
	for _, d := range f.Decls {
		if gd, ok := d.(*ast.GenDecl); ok && gd.Tok == token.IMPORT && len(gd.Specs) == 0 {
			continue
		}
		decls = append(decls, d)
	}
	f.Decls = decls
}

func main() {
	dir := flag.String("dir", "", "package directory")
	out := flag.String("out", "", "output directory for rewritten files")
	overlay := flag.String("overlay", "", "overlay json to write")
	race := flag.Bool("race", false, "also instrument field and package-variable accesses for the race oracle")
	flag.Parse()
	if *dir == "" || *out == "" || *overlay == "" {
		flag.Usage()
		os.Exit(2)
	}
	bp, err := build.ImportDir(*dir, 0)
	if err != nil {
		fmt.Fprintln(os.Stderr, "vinstr:", err)
		os.Exit(1)
	}
	fset := token.NewFileSet()
	var files []*ast.File
	var names []string
	for _, n := range bp.GoFiles {
		p := filepath.Join(*dir, n)
		f, err := parser.ParseFile(fset, p, nil, parser.ParseComments)
		if err != nil {
			fmt.Fprintln(os.Stderr, "vinstr:", err)
			os.Exit(1)
		}
		files = append(files, f)
		names = append(names, p)
	}
	info := &types.Info{Types: map[ast.Expr]types.TypeAndValue{}, Uses: map[*ast.Ident]types.Object{}, Defs: map[*ast.Ident]types.Object{}, Selections: map[*ast.SelectorExpr]*types.Selection{}}
	conf := types.Config{Importer: importer.ForCompiler(fset, "source", nil), Error: func(err error) {}}
	pkg, err := conf.Check(bp.ImportPath, fset, files, info)
	if err != nil {
		fmt.Fprintln(os.Stderr, "vinstr: type errors (continuing):", err)
	}
	in := &inst{fset: fset, info: info, pkg: pkg, race: *race, counts: map[string]int{}, captured: map[types.Object]bool{}}
	for _, f := range files {
		ast.Inspect(f, func(n ast.Node) bool {
			lit, ok := n.(*ast.FuncLit)
			if !ok {
				return true
			}
			ast.Inspect(lit.Body, func(m ast.Node) bool {
				if id, ok := m.(*ast.Ident); ok {
					if v, ok := info.Uses[id].(*types.Var); ok && !v.IsField() && pkg != nil && v.Parent() != pkg.Scope() && v.Parent() != types.Universe {
						if p := v.Pos(); p < lit.Pos() || p >= lit.End() {
							in.captured[v] = true
						}
					}
				}
				return true
			})
			return true
		})
	}
	os.MkdirAll(*out, 0o755)
	rep := map[string]string{}
	for i, f := range files {
		in.calls(f)
		for _, d := range f.Decls {
			switch d := d.(type) {
			case *ast.FuncDecl:
				if d.Body != nil {
					d.Body.List = in.block(d.Body.List)
				}
			case *ast.GenDecl:
				in.funcLits(d)
			}
		}
		fixImports(f)
		var buf bytes.Buffer
		cfg := printer.Config{Mode: printer.UseSpaces | printer.TabIndent | printer.SourcePos, Tabwidth: 8}
		if err := cfg.Fprint(&buf, fset, f); err != nil {
			fmt.Fprintln(os.Stderr, "vinstr:", err)
			os.Exit(1)
		}
		// The //line directives the printer wrote are taken out again and turned into a line table that
		// the runtime uses to report original positions: with a directive anywhere in a file the compiler
		// (1.22 and later) gives its loops per-iteration variables whatever language version the module
		// declares, and the instrumented code must mean what the original means.
		clean, table := stripLineDirectives(buf.Bytes())
		lineTables[filepath.Base(names[i])] = table
		buf.Reset()
		buf.Write(clean)
		o := filepath.Join(*out, filepath.Base(names[i]))
		if err := os.WriteFile(o, buf.Bytes(), 0o644); err != nil {
			fmt.Fprintln(os.Stderr, "vinstr:", err)
			os.Exit(1)
		}
		rep[names[i]] = o
	}
	if len(lineTables) > 0 && len(files) > 0 {
		// an extra file of the package registers the tables with the runtime
		var sb strings.Builder
		fmt.Fprintf(&sb, "package %s\n\nimport \"%s\"\n\nfunc init() {\n", files[0].Name.Name, vrtPath)
		fns := make([]string, 0, len(lineTables))
		for fn := range lineTables {
			fns = append(fns, fn)
		}
		sort.Strings(fns)
		for _, fn := range fns {
			fmt.Fprintf(&sb, "\tvrt.RegisterLines(%q, []int32{", fn)
			for _, l := range lineTables[fn] {
				fmt.Fprintf(&sb, "%d,", l)
			}
			sb.WriteString("})\n")
		}
		sb.WriteString("}\n")
		o := filepath.Join(*out, "zz_vrt_lines.go")
		if err := os.WriteFile(o, []byte(sb.String()), 0o644); err != nil {
			fmt.Fprintln(os.Stderr, "vinstr:", err)
			os.Exit(1)
		}
		rep[filepath.Join(filepath.Dir(names[0]), "zz_vrt_lines.go")] = o
	}
	data, _ := json.MarshalIndent(map[string]interface{}{"Replace": rep}, "", " ")
	os.WriteFile(*overlay, data, 0o644)
	keys := make([]string, 0, len(in.counts))
	for k := range in.counts {
		keys = append(keys, k)
	}
	sort.Strings(keys)
	for _, k := range keys {
		fmt.Printf("INSTRUMENTED %s %d\n", k, in.counts[k])
	}
	for _, u := range in.unin {
		fmt.Println("UNINSTRUMENTED", u)
	}
}
