module verif/mutsweep

go 1.23
