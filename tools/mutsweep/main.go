// mutsweep enumerates simple source mutations of one Go file (relational and
// arithmetic operator replacement, && / ||, off-by-one on +1/-1, condition
// negation, statement deletion) and applies one of them in place.
//
//	mutsweep -count file.go          print the number of mutants
//	mutsweep -apply N file.go        rewrite file.go with mutant N; prints "line: description"
package main

import (
	"bytes"
	"flag"
	"fmt"
	"go/ast"
	"go/parser"
	"go/printer"
	"go/token"
	"os"
)

type mutant struct {
	pos   token.Pos
	desc  string
	apply func()
}

func collect(f *ast.File, fset *token.FileSet) []mutant {
	var ms []mutant
	swap := map[token.Token][]token.Token{
		token.LSS: {token.LEQ}, token.LEQ: {token.LSS}, token.GTR: {token.GEQ}, token.GEQ: {token.GTR},
		token.EQL: {token.NEQ}, token.NEQ: {token.EQL}, token.LAND: {token.LOR}, token.LOR: {token.LAND},
		token.ADD: {token.SUB}, token.SUB: {token.ADD},
	}
	ast.Inspect(f, func(n ast.Node) bool {
		switch n := n.(type) {
		case *ast.GenDecl:
			return n.Tok != token.IMPORT && n.Tok != token.CONST && n.Tok != token.TYPE
		case *ast.BinaryExpr:
			if alts, ok := swap[n.Op]; ok {
				for _, a := range alts {
					a, old := a, n.Op
					if (old == token.ADD || old == token.SUB) && isString(n) {
						continue
					}
					ms = append(ms, mutant{n.OpPos, fmt.Sprintf("%s -> %s", old, a), func() { n.Op = a }})
				}
			}
			// x+1 / x-1 -> x
			if (n.Op == token.ADD || n.Op == token.SUB) && isOne(n.Y) {
				ms = append(ms, mutant{n.OpPos, fmt.Sprintf("drop %s1", n.Op), func() { n.Y = &ast.BasicLit{Kind: token.INT, Value: "0"} }})
			}
		case *ast.IfStmt:
			if _, isNot := n.Cond.(*ast.UnaryExpr); !isNot {
				ms = append(ms, mutant{n.Cond.Pos(), "negate if condition", func() { n.Cond = &ast.UnaryExpr{Op: token.NOT, X: &ast.ParenExpr{X: n.Cond}} }})
			}
		case *ast.BlockStmt:
			for i, s := range n.List {
				switch st := s.(type) {
				case *ast.ExprStmt, *ast.IncDecStmt, *ast.SendStmt:
					i := i
					ms = append(ms, mutant{s.Pos(), "delete statement", func() { n.List[i] = &ast.EmptyStmt{} }})
				case *ast.AssignStmt:
					if st.Tok != token.DEFINE {
						i := i
						ms = append(ms, mutant{s.Pos(), "delete assignment", func() { n.List[i] = &ast.EmptyStmt{} }})
					}
				}
			}
		}
		return true
	})
	return ms
}

func isOne(e ast.Expr) bool {
	b, ok := e.(*ast.BasicLit)
	return ok && b.Kind == token.INT && b.Value == "1"
}

func isString(n *ast.BinaryExpr) bool {
	for _, e := range []ast.Expr{n.X, n.Y} {
		if b, ok := e.(*ast.BasicLit); ok && b.Kind == token.STRING {
			return true
		}
	}
	return false
}

func main() {
	count := flag.Bool("count", false, "print the number of mutants")
	apply := flag.Int("apply", -1, "apply mutant N")
	flag.Parse()
	file := flag.Arg(0)
	fset := token.NewFileSet()
	f, err := parser.ParseFile(fset, file, nil, parser.ParseComments)
	if err != nil {
		fmt.Fprintln(os.Stderr, err)
		os.Exit(2)
	}
	ms := collect(f, fset)
	if *count {
		fmt.Println(len(ms))
		return
	}
	if *apply < 0 || *apply >= len(ms) {
		fmt.Fprintln(os.Stderr, "no such mutant")
		os.Exit(2)
	}
	m := ms[*apply]
	fmt.Printf("%d: %s\n", fset.Position(m.pos).Line, m.desc)
	m.apply()
	var buf bytes.Buffer
	if err := (&printer.Config{Mode: printer.UseSpaces | printer.TabIndent, Tabwidth: 8}).Fprint(&buf, fset, f); err != nil {
		fmt.Fprintln(os.Stderr, err)
		os.Exit(2)
	}
	os.WriteFile(file, buf.Bytes(), 0o644)
}
