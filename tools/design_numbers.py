#!/usr/bin/env python3
"""design_numbers.py: rewrites the quick-tier numbers (evaluations, wall) in the per-property table of
DESIGN.md §3 from evidence/<ID>.json (quick tier evidence only); bracketed thorough figures are kept."""
import json, re, os
ROOT = os.path.dirname(os.path.dirname(os.path.abspath(__file__)))
p = os.path.join(ROOT, "DESIGN.md")
s = open(p).read()
def fmt(n):
    if n >= 1e6: return f"{n/1e6:.2f} M".replace(".00", "")
    if n >= 1e3: return f"{n/1e3:.0f} k"
    return str(n)
out = []
for line in s.split("\n"):
    m = re.match(r"^\| (C\d\d) \|", line)
    if m:
        ev = os.path.join(ROOT, "evidence", m.group(1) + ".json")
        cells = line.split(" | ")
        if os.path.exists(ev) and len(cells) >= 5:
            d = json.load(open(ev))
            if d.get("tier") == "quick":
                n, w = d["coverage"]["evaluations"], d.get("wall_s", 0)
                br = re.search(r"(\(.*\))", cells[-2])
                unit = " executions" if "executions" in cells[-2] else ""
                cells[-2] = fmt(n) + unit + (" " + br.group(1) if br else "")
                br = re.search(r"(\(.*\))", cells[-1])
                cells[-1] = (f"{w:.0f} s" if w >= 1 else f"{w:.1f} s") + (" " + br.group(1) if br else "") + " |"
                line = " | ".join(cells)
    out.append(line)
open(p, "w").write("\n".join(out))
