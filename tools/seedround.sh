#!/bin/bash
# seedround.sh <ID> <base> [k...]: confirms the changes an agent left in /tmp/seedout-<ID>/<k>/ (worktree /tmp/wt-<ID>)
# with seedtest.sh and keeps the confirmed ones as seeded/<ID>-<base+k>.  Prints one RESULT line per change.
set -u
ID="$1"; BASE="$2"; shift 2
ROOT="$(cd "$(dirname "$0")/.." && pwd)"
ks=("$@"); [ ${#ks[@]} -eq 0 ] && ks=(1 2 3)
WT=/tmp/wt-$ID
for k in "${ks[@]}"; do
  S=/tmp/seedout-$ID/$k
  [ -f "$S/patch.diff" ] || { echo "RESULT $ID $k missing"; continue; }
  line=$(grep -m1 -E "DEMO:" "$S/notes.md" | sed 's/`//g')
  dir=$(echo "$line" | sed -E 's/.*copy into ([^ ;]+).*/\1/; s#^\./##; s#/$##')
  run=$(echo "$line" | sed -E 's/.*-run ([^ ]+).*/\1/')
  demo="cp $S/demo_test.go $WT/$dir/zz_seeddemo_test.go && go test -vet=off -count=1 -tags seeddemo -run '$run' ./$dir/; rc=\$?; rm -f $WT/$dir/zz_seeddemo_test.go; exit \$rc"
  out=$("$ROOT/tools/seedtest.sh" "$ID" "$WT" "$S" "( $demo )" 2>&1)
  echo "$out" | grep -E "^\[seedtest|^violation|^VIOLATION|^RESULT" | cut -c1-260
  res=$(echo "$out" | grep -E "^RESULT" | tail -1)
  if echo "$res" | grep -q "demo_clean=0 tests=0" && ! echo "$res" | grep -q "demo_mut=0"; then
    det=$(grep -m1 -E "^violation class" /tmp/seed-check.log | cut -c1-200)
    python3 "$ROOT/tools/seedkeep.py" "$ID" "$((BASE+k))" "$S" "copy the demo into $dir/ then: go test -vet=off -count=1 -tags seeddemo -run $run ./$dir/" "see notes.md" "$res" "$ID quick: $det"
  else
    echo "NOT CONFIRMED $ID $k: $res"
  fi
done
