#!/usr/bin/env python3
"""seedprompt.py <ID> <worktree> <outdir> [kinds]: prints the brief given to a seed-writing sub-agent.
The brief contains the property's text only (title, statement, quantifier, anchored files) - nothing from /verif."""
import json, os, sys
ROOT = os.path.dirname(os.path.dirname(os.path.abspath(__file__)))
pid, wt, out = sys.argv[1:4]
kinds = sys.argv[4] if len(sys.argv) > 4 else "r5"
p = [json.loads(l) for l in open(os.path.join(ROOT, "properties.jsonl")) if json.loads(l)["id"] == pid][0]
KINDS = {
 "r5": """  (1) OPTION / CONFIGURATION: the change shows only under a non-default option, mode or configuration value that the property's quantifier covers (the default path stays byte-for-byte the same).
  (2) ONE TYPE AMONG SEVERAL: several types / variants / functions implement the behaviour the property talks about; break exactly one of the less prominent ones (a sibling type, the quality-carrying variant, one of several generated variants, one encoding), in the method of that type and not in shared code.
  (3) STATE AFTER AN EARLY RETURN OR A REJECTED OPERATION: an operation that returns early (empty input, error, rejected argument, already-done) leaves state behind - a buffer not reset, a counter not restored, a flag not cleared, a lock/slot not released - so that a LATER, perfectly ordinary operation on the same object (or on another object that shares something with it) violates the property.  If the property has no error path, use the early return for an empty / zero-length / already-complete input.""",
 "r8": """  (1) THE LEAST-WATCHED CLAUSE: read the statement and its quantifier carefully and pick the clause, or the corner of the quantifier, that you judge an automated property checker is LEAST likely to exercise (a secondary accessor, a rarely combined parameter, a return value next to the main one, an input shape named late in the list); break only that.
  (2) A PERFORMANCE REWRITE WITH A SLIP: rewrite the hottest function of the anchored code for speed in a way a reviewer would welcome (fewer allocations, table lookup, loop fusion, early exit, unsafe-free reslicing) and let one semantic detail slip, for inputs that are valid but unusual; the common path must stay bit-identical.
  (3) A LEGAL BUT UNCONVENTIONAL USE: the result changes when the caller uses the API in an order or manner that is allowed but that examples never show - an accessor called before or between the main calls, the same call made twice, two objects used in turn, an argument object reused or modified after the call, a zero-value or freshly copied receiver.""",
 "r9": """  (1) A CHANGE OUTSIDE THE ANCHORED FILES: leave the files the property is anchored in untouched and change a helper they depend on in ANOTHER file or package of the library (a shared utility, an interface implementation, a constructor, a table, a method of a type they use) - something a maintainer working on that other file would commit without thinking of this property.  The anchored behaviour must break only through the dependency.
  (2) HOISTED OR SHARED SCRATCH STATE: a local buffer, table, counter or flag is hoisted to a struct field or a package-level variable (or two objects are made to share one) "to save allocations"; single objects used one call at a time behave exactly as before, and the property breaks only when two objects / two calls are interleaved, a result is kept while another call is made, or a call is re-entered.
  (3) A FIX THAT OVERSHOOTS: a well-meant correction or tightening - stricter validation, an extra normalisation, an "obviously missing" bounds check, rounding made consistent, an early return for a case that "cannot happen" - that changes or rejects a class of VALID inputs named in the quantifier while every input that looks typical keeps working.""",
 "r10": """  (1) NUMERIC EDGE: an arithmetic expression is rewritten (a division moved, a subtraction reordered, an int narrowed to int32/uint, a rounding changed from round-half-up to truncation, a modulo of a possibly negative number, a midpoint computed as (a+b)/2) so that it is wrong only for particular magnitudes or signs the quantifier covers - never for small positive values.
  (2) ORDER DEPENDENCE: an ordered structure is replaced by a map that is ranged over, a stable sort by an unstable one, a "first wins" by a "last wins", or a tie is broken differently - so that the result is wrong (or differs from run to run) only when two or more elements tie, collide or are equal in the key that is compared.
  (3) A CUT-OFF AT AN ORDINARY NUMBER: a fast path, a chunk size, a pre-sized buffer or a "small input" special case keyed on a constant that is NOT a power of two, not a power of ten and not one off either (12, 20, 50, 75, 96, 120, 300, 750, 1200, 1500 ...), wrong exactly at or just beyond that size and right below it.""",
 "r11": """  (1) CALLER-SUPPLIED CODE: the library calls back into code the caller supplies (a Less method, an Operation, a filter / consensus / evaluation function, a Mapper, a feature's accessor methods) - change how or when it is called (once more or once less, on a copy instead of the original, after instead of before an update, while a lock or a half-updated structure is held) so that the property breaks only for callbacks that are legal but not trivial: one that looks at the object it was called from, keeps state between calls, returns equal for distinct elements, or panics.
  (2) ZERO VALUES AND NIL: the change is wrong only for a zero-value or nil input the quantifier covers and the API accepts - a nil slice where an empty one works, a zero-value struct used without its constructor, a nil function or filter argument documented as "none", a zero count / zero width / zero offset, an empty name.
  (3) THE SAME OBJECT TWICE: wrong only when one object is passed in two roles that are allowed to coincide - destination equal to source, a sequence aligned against itself, a feature that is its own mate or location, one slice given for two parameters, a pair added twice, a row that occurs twice in one container.""",
 "r7": """  (1) EDGE OF THE VALUE DOMAIN: wrong only for an extreme or degenerate value the quantifier covers - the largest / smallest representable number, zero length, an empty collection, all elements equal, duplicates, an all-gap or all-invalid input, the last valid code of a table - and right for every ordinary value.  (Not a size threshold: a value.)
  (2) TWO FEATURES THAT MEET: two options, modes or operations each of which works alone and which are wrong only in combination (this flag AND that mode; this operation directly after that one on the same object; both ends at once) - the change sits where the two code paths meet.
  (3) LIFETIME: something lives too long or not long enough - a result that aliases an internal buffer which a LATER call reuses, a goroutine / file / channel left behind on a rare path, a resource released while a result still refers to it, state of a finished (closed, cleaned-up, drained) object that a following legal call trips over.""",
 "r6": """  (1) THRESHOLD / SIZE CLASS: introduce a fast path, a chunked loop, a buffer size or a small-size special case so that the behaviour is wrong only when some size (length, count, number of rows, number of chunks, value magnitude) is exactly at, or one beyond, a constant you introduce or one that is already in the code - and right for every smaller size.  Pick a constant that small inputs do not reach at once (but below a few thousand).
  (2) TWO COOPERATING SITES: two edits in different functions (or files), each of which looks fine alone and neither of which breaks the property alone; only together - a producer that changes a representation / invariant slightly and a consumer that was not updated, or two call sites that now disagree about who resets / owns / closes something.
  (3) ORDER OF STEPS: reorder two steps inside one operation (publish before initialise, advance before reserve, release before the last use, acknowledge before the work is complete, check after the act) so that the result is wrong only for a particular sequence of calls, a particular interleaving of goroutines, or a failure that arrives between the two steps.""",
}
print(f"""You are helping to evaluate a verification harness for the Go library biogo (github.com/biogo/biogo).  Your job is to write realistic, subtle BUGS: changes to the library that break one stated semantic property while the library still compiles and its whole existing test suite still passes.  You work ONLY in your own scratch git worktree: {wt}  (a checkout of the library; never touch /repo or /verif, do not read /verif).

Environment (no network): before every go command run
  export GOFLAGS=-mod=mod GOPROXY=off GOSUMDB=off GOTOOLCHAIN=local
The existing test suite is:  cd {wt} && go build ./... && go test -vet=off -count=1 ./...

THE PROPERTY ({p['id']}): {p['title']}
Statement: {p['statement']}
Quantifier: {p['quantifier']['text']}
Code it is anchored in: {', '.join(p['anchors']['files'])}

Write THREE independent changes (each alone breaks the property), one of each kind:
{KINDS[kinds]}
Requirements for every change:
  * It must look like something a maintainer could plausibly commit (an optimisation, a clean-up, a refactoring, a feature) - not sabotage; small (typically 3-40 changed lines).
  * It needs something specific to manifest - a particular input shape, option, sequence of calls, interleaving, or fault - and must NOT be exposed by ordinary simple use.  A one-record / one-call happy path must still work.
  * `go build ./...` succeeds and the whole existing test suite passes with the change applied (run it; if a test fails, rework the change).
  * It really violates the property as stated (not merely behaviour the statement leaves open); say which clause.
  * Do not change exported signatures, do not edit existing tests, do not touch files outside the library packages.
For each change k = 1,2,3 produce in {out}/{{k}}/ :
  patch.diff     - `git diff` of the change alone against the clean worktree (apply-able with `git apply` at the worktree root)
  demo_test.go   - a Go test file with build tag `//go:build seeddemo`, package = the package of the directory it is to be copied into, containing one test that PASSES on the clean worktree and FAILS with the change (for concurrency changes the test may need many iterations or explicit goroutine choreography; it must fail reliably, at least 9 runs in 10)
  notes.md       - the kind, what the change is, why it breaks the property (which clause), exactly what is needed for it to manifest, and the line `DEMO: copy into <dir> ; go test -vet=off -count=1 -tags seeddemo -run <TestName> ./<dir>/`
Procedure per change: make the edit in the worktree; run the test suite; copy the demo in and check it fails; `git diff > patch.diff` (exclude the demo file); `git checkout -- . && git clean -fdq` ; copy the demo in again and check it passes on the clean tree; remove the demo file.  Leave the worktree clean at the end (git status empty).
Working style: keep every reply and every tool call SHORT (never more than ~150 lines in one tool call; pipe long outputs through tail -20; build files with several small edits).
Finish with a three-line summary: for each k the file changed, the kind, and the one-sentence condition under which it manifests.""")
