#!/bin/bash
# runall.sh [tier] [ids...]: runs the checks and prints one summary line each.
tier="${1:-quick}"; shift
ROOT="$(cd "$(dirname "$0")/.." && pwd)"
ids=("$@")
[ ${#ids[@]} -eq 0 ] && ids=(C01 C02 C03 C04 C05 C06 C07 C08 C09 C10 C11 C12 C13 C14 C15 C16 C17 C18 C19 C20)
rc=0
for id in "${ids[@]}"; do
  out="$("$ROOT/check" "$id" "$tier" 2>&1)"; r=$?
  echo "$id exit=$r $(echo "$out" | tail -1 | cut -c1-160)"
  echo "$out" | grep -E "^VIOLATION|^violation class|INFRASTRUCTURE|NOT EXHAUSTIVE|BUILD FAILED" | cut -c1-240 | head -6
  [ $r -ne 0 ] && rc=1
done
exit $rc
