#!/usr/bin/env python3
import json, sys, glob, os
import jsonschema
ROOT = os.path.dirname(os.path.dirname(os.path.abspath(__file__)))
schema = json.load(open("/root/.vp/EVIDENCE.schema.json"))
ok = True
for f in sorted(glob.glob(os.path.join(ROOT, "evidence", "*.json"))):
    try:
        jsonschema.validate(json.load(open(f)), schema)
        print("ok  ", os.path.basename(f))
    except Exception as e:
        ok = False
        print("FAIL", os.path.basename(f), str(e).splitlines()[0])
sys.exit(0 if ok else 1)
