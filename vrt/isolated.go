package vrt

import (
	"fmt"
	"hash/fnv"
	"sync"
	"time"
)

// One is what a single execution, made in a process of its own, reports.
type One struct {
	Choices []int    `json:"choices"`
	N       []int    `json:"n"`    // alternatives at each point
	Pre     []int    `json:"pre"`  // preemptions before each point
	Cost    [][]int  `json:"cost"` // preemption cost of each alternative
	Class   string   `json:"class,omitempty"`
	Msg     string   `json:"msg,omitempty"`
	Outcome string   `json:"outcome"`
	Sig     uint64   `json:"sig"` // hash of the trace
	Steps   int      `json:"steps"`
	Trace   []string `json:"trace,omitempty"` // only for failing executions
	Err     string   `json:"err,omitempty"`   // divergence, stall
}

// One makes the execution that starts with prefix (and goes on canonically); for isolated exploration,
// where every execution has a process to itself because executions that share one are not independent
// (the code under test keeps package-level state).
func (e *Explorer) One(mk func() Run, prefix []int) One {
	res, points, run, err := e.runOne(mk, prefix, false)
	o := One{Choices: res.Choices, Steps: len(res.Trace)}
	if err != nil {
		o.Err = err.Error()
		return o
	}
	for _, p := range points {
		o.N = append(o.N, p.n)
		o.Pre = append(o.Pre, p.preBefore)
		o.Cost = append(o.Cost, p.cost)
	}
	h := fnv.New64a()
	for _, s := range res.Trace {
		fmt.Fprintln(h, s.String())
	}
	o.Sig = h.Sum64()
	class, msg, outcome := run.Verdict(res)
	o.Class, o.Msg, o.Outcome = class, msg, res.Outcome+"|"+outcome
	if class != "" {
		o.Trace = res.Schedule()
	}
	return o
}

// ExploreIsolated enumerates the schedules within a preemption bound, one process per execution (exec
// makes one and reports it), workers of them at a time; no state cache.  A failing execution counts only
// if two further fresh processes fail in the same class with the same trace.
func ExploreIsolated(exec func(prefix []int) One, bound, workers int, budget time.Duration) *Stats {
	st := &Stats{Outcomes: map[string]int64{}, Exhaustive: true, BoundUsed: fmt.Sprintf("preemptions<=%d, one process per execution", bound)}
	start := time.Now()
	var mu sync.Mutex
	work := [][]int{{}}
	active := 0
	cond := sync.NewCond(&mu)
	seenClass := map[string]bool{}
	stop := false
	var wg sync.WaitGroup
	for w := 0; w < workers; w++ {
		wg.Add(1)
		go func() {
			defer wg.Done()
			for {
				mu.Lock()
				for len(work) == 0 && active > 0 && !stop {
					cond.Wait()
				}
				if stop || (len(work) == 0 && active == 0) {
					mu.Unlock()
					cond.Broadcast()
					return
				}
				if time.Since(start) > budget {
					st.Exhaustive = false
					st.Why = fmt.Sprintf("time budget %v reached with %d prefixes pending (one process per execution)", budget, len(work))
					stop = true
					mu.Unlock()
					cond.Broadcast()
					return
				}
				prefix := work[len(work)-1]
				work = work[:len(work)-1]
				active++
				mu.Unlock()
				o := exec(prefix)
				confirmed := false
				if o.Err == "" && o.Class != "" {
					mu.Lock()
					known := seenClass[o.Class]
					mu.Unlock()
					if !known {
						confirmed = true
						for i := 0; i < 2; i++ {
							if o2 := exec(o.Choices); o2.Err != "" || o2.Class != o.Class || o2.Sig != o.Sig {
								confirmed = false
							}
						}
					}
				}
				mu.Lock()
				active--
				st.Executions++
				st.Transitions += int64(o.Steps)
				if o.Steps > st.MaxDepth {
					st.MaxDepth = o.Steps
				}
				switch {
				case o.Err != "":
					st.Exhaustive = false
					st.Why = "one process per execution: " + o.Err
					stop = true
				default:
					st.Outcomes[o.Outcome]++
					if o.Class != "" && !seenClass[o.Class] {
						if confirmed {
							seenClass[o.Class] = true
							st.Violations = append(st.Violations, Violation{Class: o.Class, Msg: o.Msg + "  [executions that share a process were not independent (package-level state in the code under test): explored with one process per execution; this schedule fails the same way in three fresh processes]", Choices: o.Choices, Trace: o.Trace})
						} else {
							st.Exhaustive = false
							st.Why = "a failing execution did not replay identically in fresh processes; not reported as a violation: " + o.Class
						}
					}
					for i := len(o.N) - 1; i >= len(prefix); i-- {
						if i >= len(o.Choices) {
							continue
						}
						for alt := o.N[i] - 1; alt >= 1; alt-- {
							if alt == o.Choices[i] || o.Pre[i]+o.Cost[i][alt] > bound {
								continue
							}
							np := make([]int, i+1)
							copy(np, o.Choices[:i])
							np[i] = alt
							work = append(work, np)
						}
					}
				}
				mu.Unlock()
				cond.Broadcast()
			}
		}()
	}
	wg.Wait()
	return st
}
