package vrt

import (
	"fmt"
	"unsafe"
)

// Vector clocks for the data-race oracle.  Scheduler hand-offs are *not*
// edges; only the synchronisation the program performs is.

type vclock []uint32

func (v vclock) clone() vclock {
	c := make(vclock, len(v))
	copy(c, v)
	return c
}

func (v *vclock) grow(n int) {
	for len(*v) < n {
		*v = append(*v, 0)
	}
}

func (v *vclock) tick(id int) {
	v.grow(id + 1)
	(*v)[id]++
}

func (v *vclock) join(o vclock) {
	v.grow(len(o))
	for i, c := range o {
		if c > (*v)[i] {
			(*v)[i] = c
		}
	}
}

func (v vclock) at(id int) uint32 {
	if id < len(v) {
		return v[id]
	}
	return 0
}

type chanClocks struct {
	sends  []vclock // clocks of sends not yet received (FIFO)
	recvs  []vclock // clocks of all receives, in order
	nsend  int
	closeV vclock
}

func (x *exec) chanClk(o *object) *chanClocks {
	if o.ref2 == nil {
		o.ref2 = &chanClocks{}
	}
	return o.ref2.(*chanClocks)
}

// vcSync applies the happens-before edges of a non-rendezvous operation.
func (x *exec) vcSync(t *thread, o *op, obj *object, write bool) {
	kind := o.kind
	send := kind == opSend
	recv := kind == opRecv
	if kind == opSelect && t.answer >= 0 && t.answer < len(o.cases) {
		send = o.cases[t.answer].send
		recv = !send
	}
	switch {
	case send:
		cc := x.chanClk(obj)
		c := 0
		if o.ch.IsValid() {
			c = o.ch.Cap()
		} else if t.answer >= 0 && t.answer < len(o.cases) {
			c = o.cases[t.answer].ch.Cap()
		}
		if c > 0 && cc.nsend >= c && cc.nsend-c < len(cc.recvs) {
			t.vc.join(cc.recvs[cc.nsend-c])
		}
		cc.nsend++
		cc.sends = append(cc.sends, t.vc.clone())
		t.vc.tick(t.id)
	case recv:
		cc := x.chanClk(obj)
		if len(cc.sends) > 0 {
			t.vc.join(cc.sends[0])
			cc.sends = cc.sends[1:]
		} else if cc.closeV != nil {
			t.vc.join(cc.closeV)
		}
		cc.recvs = append(cc.recvs, t.vc.clone())
		t.vc.tick(t.id)
	case kind == opClose:
		cc := x.chanClk(obj)
		cc.closeV = t.vc.clone()
		t.vc.tick(t.id)
	case kind == opLock || kind == opRLock:
		t.vc.join(obj.vc)
	case kind == opUnlock || kind == opRUnlock:
		obj.vc.join(t.vc)
		t.vc.tick(t.id)
	case kind == opWGAdd:
		obj.vc.join(t.vc)
		t.vc.tick(t.id)
	case kind == opWGWait:
		t.vc.join(obj.vc)
	case kind == opOnce:
		t.vc.join(obj.vc)
	case kind == opAtomic:
		t.vc.join(obj.vc)
		obj.vc.join(t.vc)
		t.vc.tick(t.id)
	}
}

type epoch struct {
	tid int
	clk uint32
	pos string
}

type shadowCell struct {
	w     epoch
	hasW  bool
	reads []epoch
	keep  unsafe.Pointer // keeps the accessed memory alive for the duration of the execution
}

func (x *exec) access(p unsafe.Pointer, write bool, pos string) {
	xx, t := selfCount(false)
	if xx == nil {
		return
	}
	xx.mu.Lock()
	xx.accessLocked(t, uintptr(p), write, pos)
	if c := xx.shadow[uintptr(p)]; c != nil && c.keep == nil {
		// the cell is keyed by address: the memory must not be freed and handed out again (to another
		// thread's allocation) while this execution lasts, or two unrelated objects would share a cell
		c.keep = p
	}
	xx.mu.Unlock()
}

// chanAccess mirrors the Go race detector's treatment of channels: a send is a
// read of the channel, close is a write of it (runtime/chan.go: racereadpc in
// chansend, racewritepc in closechan); receives are not accesses.
func (x *exec) chanAccess(t *thread, obj *object, write bool, pos string) {
	if obj == nil {
		return
	}
	x.accessLocked(t, uintptr(unsafe.Pointer(obj)), write, "chan "+pos)
}

func (x *exec) accessLocked(t *thread, a uintptr, write bool, pos string) {
	if x.shadow == nil {
		x.shadow = map[uintptr]*shadowCell{}
	}
	c := x.shadow[a]
	if c == nil {
		c = &shadowCell{}
		x.shadow[a] = c
	}
	now := t.vc.at(t.id)
	report := func(other epoch, what string) {
		key := what + " " + other.pos + " / " + pos
		if x.raceSeen == nil {
			x.raceSeen = map[string]bool{}
		}
		if !x.raceSeen[key] {
			x.raceSeen[key] = true
			x.races = append(x.races, fmt.Sprintf("%s: T%d at %s vs T%d at %s", what, other.tid, other.pos, t.id, pos))
		}
	}
	if c.hasW && c.w.tid != t.id && c.w.clk > t.vc.at(c.w.tid) {
		if write {
			report(c.w, "write/write")
		} else {
			report(c.w, "write/read")
		}
	}
	if write {
		for _, r := range c.reads {
			if r.tid != t.id && r.clk > t.vc.at(r.tid) {
				report(r, "read/write")
			}
		}
		c.w = epoch{t.id, now, pos}
		c.hasW = true
		c.reads = c.reads[:0]
	} else {
		for i, r := range c.reads {
			if r.tid == t.id {
				c.reads[i].clk = now
				c.reads[i].pos = pos
				return
			}
		}
		c.reads = append(c.reads, epoch{t.id, now, pos})
	}
}

// Rd records a read of *p by the calling thread (not a scheduling point).
func Rd(p unsafe.Pointer, pos string) {
	if x := current(); x != nil {
		x.access(p, false, pos)
	}
}

// Wr records a write of *p by the calling thread (not a scheduling point).
func Wr(p unsafe.Pointer, pos string) {
	if x := current(); x != nil {
		x.access(p, true, pos)
	}
}
