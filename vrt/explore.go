package vrt

import (
	"fmt"
	"os"
	"sort"
	"strings"
	"sync/atomic"
	"time"
)

// Config bounds an exploration.
type Config struct {
	MaxFaults    int           // injected I/O errors per execution
	PreemptBound int           // <0: unbounded
	Horizon      int           // maximal number of transitions per execution
	NoCache      bool          // disable the happens-before state cache
	NoReduce     bool          // disable the begin/spawn/join persistent-set reduction
	Canonical    bool          // explore ONE schedule only: the running thread goes on while it can, else the lowest enabled one (size-ladder drivers)
	Symmetry     bool          // merge states that differ by a permutation of interchangeable workers (SpawnSym)
	Budget       time.Duration // wall-clock budget; 0 = none.  Hitting it makes the result non-exhaustive.
	MaxExec      int64
	Quiet        bool          // do not print infrastructure trouble (self-checks that provoke it)
	Stall        time.Duration // watchdog for a thread that does not reach a point
}

// Result describes one complete (or cut) execution.
type Result struct {
	Choices    []int
	Trace      []Step
	Outcome    string // ok | leak | deadlock | horizon | cut | stall
	Panics     []string
	Blocked    []string
	Races      []string
	Faults     int
	FaultSteps []int // indices into Trace of the injected faults
	Preempt    int
	Foreign    int64
	Threads    int
}

// Schedule renders the trace compactly.
func (r *Result) Schedule() []string {
	out := make([]string, len(r.Trace))
	for i, s := range r.Trace {
		out[i] = s.String()
	}
	return out
}

// Run is one fresh instance of the driver: Body runs as thread 0; Verdict is
// called after the execution has ended and every thread has been reaped.  It
// returns a violation class ("" if none), a message and an outcome signature
// used to count distinct observable outcomes.
type Run struct {
	Body    func()
	Verdict func(r *Result) (class, msg, outcome string)
}

// Violation is a failing execution.
type Violation struct {
	Class   string
	Msg     string
	Choices []int
	Trace   []string
}

// Stats summarises an exploration.
type Stats struct {
	Executions  int64
	Transitions int64
	States      int64
	Cuts        int64
	Skipped     int64 // alternatives dropped by look-ahead (their successor state was already visited)
	MaxDepth    int
	Outcomes    map[string]int64
	Exhaustive  bool
	Why         string
	BoundUsed   string
	Violations  []Violation
	Foreign     int64
	Samples     [][]string
	MaxThreads  int
}

// Explorer is a stateless depth-first explorer with a happens-before cache.
type Explorer struct {
	Cfg     Config
	visited map[uint64]struct{}
	st      Stats
}

func NewExplorer(cfg Config) *Explorer {
	if cfg.Horizon == 0 {
		cfg.Horizon = 10000
	}
	if cfg.Stall == 0 {
		cfg.Stall = 30 * time.Second
	}
	return &Explorer{Cfg: cfg, visited: map[uint64]struct{}{}}
}

// runOne executes the driver once following prefix, then default choices.
func (e *Explorer) runOne(mk func() Run, prefix []int, useCache bool) (*Result, []pointRec, Run, error) {
	run := mk()
	x := &exec{
		byGid:    map[uint64]*thread{},
		idle:     make(chan struct{}, 1),
		objs:     map[interface{}]*object{},
		prefix:   prefix,
		maxFault: e.Cfg.MaxFaults,
		ex:       e,
	}
	main := &thread{wake: make(chan struct{}, 1), ended: make(chan struct{}), id: 0, hash: 0x1234}
	main.vc.tick(0)
	x.threads = append(x.threads, main)
	x.running = 1
	cur.Store(holder{x})
	h := Handle{main}
	go func() {
		defer End(h)
		Begin(h)
		run.Body()
	}()
	res := &Result{}
	timer := time.NewTimer(e.Cfg.Stall)
	defer timer.Stop()
	var err error
loop:
	for {
		if !timer.Stop() {
			select {
			case <-timer.C:
			default:
			}
		}
		timer.Reset(e.Cfg.Stall)
		select {
		case <-x.idle:
		case <-timer.C:
			res.Outcome = "stall"
			err = fmt.Errorf("stall: a thread did not reach a scheduling point within %v (uninstrumented blocking operation?)", e.Cfg.Stall)
			break loop
		}
		x.mu.Lock()
		if x.running != 0 { // spurious token
			x.mu.Unlock()
			continue
		}
		tr := x.enabled()
		if len(tr) == 0 {
			x.mu.Unlock()
			break
		}
		// Reduction: begin, spawn and join (of an ended thread) touch no shared object and
		// commute with every transition of every other thread now and later, so {t} is
		// a persistent set: take it without branching.
		if !e.Cfg.NoReduce {
			for _, a := range tr {
				if k := a.t.pend.kind; k == opBegin || k == opSpawn || k == opJoin {
					tr = []trans{a}
					break
				}
			}
		}
		if len(x.trace) >= e.Cfg.Horizon {
			x.mu.Unlock()
			res.Outcome = "horizon"
			break
		}
		// preemption cost of each alternative
		lastEnabled := false
		if x.last != nil && x.last.started {
			for _, a := range tr {
				if a.t == x.last || a.partner == x.last {
					lastEnabled = true
					break
				}
			}
		}
		pr := pointRec{n: len(tr), cost: make([]int, len(tr)), faultAlt: make([]bool, len(tr)), preBefore: x.preempt, faultsBefore: x.faults}
		for i, a := range tr {
			if lastEnabled && a.t != x.last && a.partner != x.last {
				pr.cost[i] = 1
			}
			pr.faultAlt[i] = a.fault
		}
		if useCache {
			pr.keys = make([]uint64, len(tr))
			for i, a := range tr {
				k, last := x.predictKey(a)
				if e.Cfg.PreemptBound >= 0 {
					k = mix(k, uint64(x.preempt+pr.cost[i]), last)
				}
				pr.keys[i] = k
			}
		}
		idx := len(x.choices)
		c := 0
		if idx < len(prefix) {
			c = prefix[idx]
			if c >= len(tr) {
				x.mu.Unlock()
				res.Outcome = "divergence"
				err = fmt.Errorf("DIVERGENCE: replayed choice %d at point %d but only %d alternatives", c, idx, len(tr))
				break
			}
		}
		x.choices = append(x.choices, c)
		x.points = append(x.points, pr)
		x.preempt += pr.cost[c]
		x.apply(tr[c])
		cut := false
		if useCache && idx >= len(prefix)-1 {
			k := x.stateKey()
			if e.Cfg.PreemptBound >= 0 {
				k = mix(k, uint64(x.preempt), x.lastKey())
			}
			if k != pr.keys[c] {
				x.mu.Unlock()
				res.Outcome = "divergence"
				err = fmt.Errorf("PREDICTION: predicted state key of the chosen transition differs from the key after applying it (look-ahead pruning would be unsound)")
				break
			}
			if _, seen := e.visited[k]; seen {
				cut = true
			} else {
				e.visited[k] = struct{}{}
			}
		}
		x.mu.Unlock()
		if cut {
			// the transition has been applied in the model but its threads are not
			// released; they are still parked and will be reaped by killAll.
			res.Outcome = "cut"
			break
		}
		x.release(tr[c])
	}
	// classify
	x.mu.Lock()
	if res.Outcome == "" {
		alldone := true
		for _, t := range x.threads {
			if !t.done {
				alldone = false
				o := t.pend
				d := fmt.Sprintf("T%d blocked", t.id)
				if o != nil {
					d = fmt.Sprintf("T%d blocked in %s", t.id, o.kind)
					if o.obj != nil {
						d += fmt.Sprintf(" #%d", o.obj.label)
					}
					if o.pos != "" {
						d += " at " + o.pos
					}
				}
				res.Blocked = append(res.Blocked, d)
			}
		}
		switch {
		case alldone:
			res.Outcome = "ok"
		case x.threads[0].done:
			res.Outcome = "leak"
		default:
			res.Outcome = "deadlock"
		}
	}
	x.mu.Unlock()
	x.killAll(res.Outcome == "stall")
	for _, t := range x.threads {
		if t.panicV != nil {
			res.Panics = append(res.Panics, fmt.Sprintf("T%d: %s", t.id, t.panicS))
		}
	}
	res.Choices = x.choices
	res.Trace = x.trace
	res.Races = x.races
	res.Faults = x.faults
	for i, s := range x.trace {
		if strings.HasPrefix(s.Op, "io:") && s.Answer == 1 {
			res.FaultSteps = append(res.FaultSteps, i)
		}
	}
	res.Preempt = x.preempt
	res.Foreign = atomic.LoadInt64(&x.foreign)
	res.Threads = len(x.threads)
	cur.Store(holder{nil})
	for _, f := range x.files {
		f.Close()
	}
	for _, d := range x.dirs {
		os.RemoveAll(d)
	}
	return res, x.points, run, err
}

// killAll reaps every live thread, one at a time.
func (x *exec) killAll(stalled bool) {
	atomic.StoreInt32(&x.killing, 1)
	for i := 0; i < len(x.threads); i++ {
		t := x.threads[i]
		x.mu.Lock()
		done := t.done || t.gid == 0 // gid 0: spawned in the model but its goroutine was never created
		x.mu.Unlock()
		if done {
			continue
		}
		select {
		case t.wake <- struct{}{}:
		default:
		}
		if stalled {
			select {
			case <-t.ended:
			case <-time.After(2 * time.Second):
			}
		} else {
			<-t.ended
		}
	}
}

// Explore enumerates every schedule (and fault placement) of the driver.
func (e *Explorer) Explore(mk func() Run) *Stats {
	st := &e.st
	st.Outcomes = map[string]int64{}
	st.Exhaustive = true
	st.BoundUsed = "none"
	if e.Cfg.PreemptBound >= 0 {
		st.BoundUsed = fmt.Sprintf("preemptions<=%d", e.Cfg.PreemptBound)
	}
	start := time.Now()
	stack := [][]int{{}}
	skeys := []uint64{0}
	seenClass := map[string]bool{}
	for len(stack) > 0 {
		if e.Cfg.Budget > 0 && time.Since(start) > e.Cfg.Budget {
			st.Exhaustive = false
			st.Why = fmt.Sprintf("time budget %v reached with %d prefixes pending", e.Cfg.Budget, len(stack))
			break
		}
		if e.Cfg.MaxExec > 0 && st.Executions >= e.Cfg.MaxExec {
			st.Exhaustive = false
			st.Why = fmt.Sprintf("execution cap %d reached with %d prefixes pending", e.Cfg.MaxExec, len(stack))
			break
		}
		prefix := stack[len(stack)-1]
		pkey := skeys[len(skeys)-1]
		stack = stack[:len(stack)-1]
		skeys = skeys[:len(skeys)-1]
		if pkey != 0 {
			if _, seen := e.visited[pkey]; seen {
				st.Skipped++ // became visited while it was waiting on the stack
				continue
			}
		}
		res, points, run, err := e.runOne(mk, prefix, !e.Cfg.NoCache)
		st.Executions++
		st.Transitions += int64(len(res.Trace))
		if len(res.Trace) > st.MaxDepth {
			st.MaxDepth = len(res.Trace)
		}
		if res.Threads > st.MaxThreads {
			st.MaxThreads = res.Threads
		}
		st.Foreign += res.Foreign
		if err != nil {
			st.Exhaustive = false
			st.Why = err.Error()
			if !e.Cfg.Quiet {
				fmt.Println("INFRASTRUCTURE:", err)
				for _, s := range res.Schedule() {
					fmt.Println("   ", s)
				}
			}
			break
		}
		if res.Outcome == "cut" {
			st.Cuts++
		} else {
			if res.Outcome == "horizon" {
				st.Exhaustive = false
				st.Why = "step horizon reached"
			}
			class, msg, outcome := run.Verdict(res)
			st.Outcomes[res.Outcome+"|"+outcome]++
			if len(st.Samples) < 3 {
				st.Samples = append(st.Samples, res.Schedule())
			}
			if class != "" && !seenClass[class] {
				// confirm by replaying 5 times: same trace, same verdict
				ok := true
				for i := 0; i < 5 && ok; i++ {
					r2, _, run2, err2 := e.runOne(mk, res.Choices, false)
					if err2 != nil || len(r2.Trace) != len(res.Trace) {
						ok = false
						break
					}
					for j := range r2.Trace {
						if r2.Trace[j] != res.Trace[j] {
							ok = false
						}
					}
					c2, _, _ := run2.Verdict(r2)
					if c2 != class {
						ok = false
					}
				}
				if ok {
					seenClass[class] = true
					tr := res.Schedule()
					if len(tr) > 400 { // a run that hit the step horizon: keep how it starts and where it is stuck
						tr = append(append(append([]string{}, tr[:250]...), fmt.Sprintf("... %d steps omitted ...", len(tr)-350)), tr[len(tr)-100:]...)
					}
					st.Violations = append(st.Violations, Violation{Class: class, Msg: msg, Choices: res.Choices, Trace: tr})
				} else {
					st.Exhaustive = false
					st.Why = "a failing execution did not replay identically (nondeterminism not under control); not reported as a violation: " + class
					if !e.Cfg.Quiet {
						fmt.Println("INFRASTRUCTURE:", st.Why)
					}
				}
			}
		}
		if e.Cfg.Canonical {
			st.BoundUsed = "canonical schedule only"
			break
		}
		// alternatives
		for i := len(points) - 1; i >= len(prefix); i-- {
			p := points[i]
			if i >= len(res.Choices) {
				continue
			}
			for alt := p.n - 1; alt >= 1; alt-- {
				if alt == res.Choices[i] {
					continue
				}
				if e.Cfg.PreemptBound >= 0 && p.preBefore+p.cost[alt] > e.Cfg.PreemptBound {
					continue
				}
				if p.keys != nil {
					if _, seen := e.visited[p.keys[alt]]; seen {
						st.Skipped++ // leads to a visited state: what an execution would find out only after replaying the prefix
						continue
					}
				}
				np := make([]int, i+1)
				copy(np, res.Choices[:i])
				np[i] = alt
				stack = append(stack, np)
				if p.keys != nil {
					skeys = append(skeys, p.keys[alt])
				} else {
					skeys = append(skeys, 0)
				}
			}
		}
	}
	st.States = int64(len(e.visited))
	return st
}

// Now returns the number of transitions executed so far in the current
// execution (0 outside an exploration); a driver uses it to timestamp its calls.
func Now() int {
	x := current()
	if x == nil {
		return 0
	}
	x.mu.Lock()
	defer x.mu.Unlock()
	return len(x.trace)
}

// Replay runs one choice list and returns the result and verdict.
func (e *Explorer) Replay(mk func() Run, choices []int) (*Result, string, string, error) {
	res, _, run, err := e.runOne(mk, choices, false)
	if err != nil {
		return res, "", "", err
	}
	class, msg, _ := run.Verdict(res)
	return res, class, msg, nil
}

// OutcomeList renders the distinct outcomes, sorted.
func (s *Stats) OutcomeList() []string {
	var out []string
	for k, v := range s.Outcomes {
		out = append(out, fmt.Sprintf("%s x%d", k, v))
	}
	sort.Strings(out)
	return out
}

func (s *Stats) String() string {
	return fmt.Sprintf("executions=%d transitions=%d states=%d cuts=%d skipped=%d maxdepth=%d exhaustive=%v bound=%s outcomes=[%s]",
		s.Executions, s.Transitions, s.States, s.Cuts, s.Skipped, s.MaxDepth, s.Exhaustive, s.BoundUsed, strings.Join(s.OutcomeList(), "; "))
}
