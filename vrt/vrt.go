// Package vrt is the runtime of the controlled scheduler.  It is compiled into
// the repository as the *virtual* package github.com/biogo/biogo/verifrt/vrt
// by `go build -overlay`; nothing of it is committed to /repo.
//
// Instrumented code (see tools/vinstr) calls into this package at every
// synchronisation and file operation.  When no exploration is active, or the
// calling goroutine is not a controlled thread, every entry point simply
// performs the real operation (pass-through).
package vrt

import (
	"fmt"
	"os"
	"reflect"
	"runtime"
	"sort"
	"sync"
	"sync/atomic"
	"unsafe"
)

type opKind int

const (
	opBegin opKind = iota
	opSpawn
	opJoin
	opSend
	opRecv
	opClose
	opLen
	opSelect
	opLock
	opUnlock
	opRLock
	opRUnlock
	opWGAdd
	opWGWait
	opOnce
	opAtomic
	opIO
	opYield
	opCondWait
	opCondWake
	opCondSignal
	opCondBroadcast
)

var kindNames = [...]string{"begin", "spawn", "join", "send", "recv", "close", "len", "select", "lock", "unlock", "rlock", "runlock", "wg.add", "wg.wait", "once", "atomic", "io", "yield", "cond.wait", "cond.wake", "cond.signal", "cond.broadcast"}

func (k opKind) String() string { return kindNames[k] }

type selCase struct {
	send bool
	ch   reflect.Value
	obj  *object
}

type op struct {
	kind       opKind
	obj        *object
	ch         reflect.Value // channel ops
	cases      []selCase     // select
	hasDefault bool
	delta      int    // wg.Add
	label      string // io: operation name
	faultable  bool
	target     *thread // join
	pos        string  // source position (file:line) when known
	bad        bool    // unlock: the mutex was not locked (the real call would be a fatal error nothing can recover)
	sym        *SymTok // spawn: the loop instance of an interchangeable-worker spawn site (nil: ordinary spawn)
}

type object struct {
	key   interface{}
	ref   interface{} // keeps the real object alive for the duration of the execution
	ref2  interface{} // per-kind extra state (channel clocks)
	label int
	kind  string
	hash  uint64
	pos   uint64 // waitgroup: chain of increments
	neg   uint64 // waitgroup: commutative sum of decrements
	// model state
	closed   bool
	owner    *thread // mutex
	readers  int     // rwmutex
	counter  int     // waitgroup
	onceSt   int     // 0 none, 1 running, 2 done
	onceBy   *thread
	waiters  []*thread // cond: threads in Wait, FIFO
	mutex    *object   // cond: its locker
	condRead bool      // cond: the locker is the read side of an RWMutex
	// race oracle
	vc vclock
}

type thread struct {
	id        int
	gid       uint64
	wake      chan struct{}
	ended     chan struct{}
	pend      *op
	answer    int // select: chosen case (-1 default); io: 0 ok, 1 fault
	done      bool
	started   bool
	hash      uint64
	vc        vclock
	panicV    interface{}
	panicS    string
	steps     int
	signalled bool   // cond: woken by Signal/Broadcast
	sigVC     vclock // clock of the signaller
	// symmetry reduction (Config.Symmetry)
	sym      bool    // the thread is one of a class of interchangeable workers: its id is not part of any hash
	symTok   *SymTok // as a parent: the loop instance whose class is open
	symBase  uint64  // as a parent: the initial hash shared by the children of the open class
	symClean bool    // as a parent: nothing but spawn / WaitGroup.Add since the class was opened
}

// SymTok identifies one execution of a loop that spawns interchangeable workers
// (the instrumenter declares one before such a loop and passes its address to SpawnSym).
type SymTok struct{ _ byte }

// Handle identifies a spawned thread.
type Handle struct{ t *thread }

// Step is one executed transition, as logged.
type Step struct {
	Thread  int    `json:"t"`
	Partner int    `json:"p,omitempty"`
	Op      string `json:"op"`
	Obj     int    `json:"obj"`
	Answer  int    `json:"a,omitempty"`
	Pos     string `json:"pos,omitempty"`
}

func (s Step) String() string {
	p := ""
	if s.Partner >= 0 {
		p = fmt.Sprintf("+T%d", s.Partner)
	}
	return fmt.Sprintf("T%d%s %s #%d a=%d %s", s.Thread, p, s.Op, s.Obj, s.Answer, s.Pos)
}

type exec struct {
	mu      sync.Mutex
	threads []*thread
	byGid   map[uint64]*thread
	running int
	idle    chan struct{}
	killing int32
	objs    map[interface{}]*object
	nobj    int

	// exploration inputs
	prefix   []int
	maxFault int
	// outputs
	choices  []int
	points   []pointRec
	trace    []Step
	faults   int
	preempt  int
	last     *thread
	outcome  string // "", "deadlock", "horizon", "cut"
	foreign  int64
	races    []string
	raceSeen map[string]bool
	files    []*os.File
	dirs     []string
	shadow   map[uintptr]*shadowCell
	pools    map[*sync.Pool][]interface{}
	ex       *Explorer
}

type pointRec struct {
	keys         []uint64 // predicted state key of each alternative
	n            int      // number of alternatives
	cost         []int    // preemption cost of each alternative (0/1)
	faultAlt     []bool
	preBefore    int
	faultsBefore int
}

var cur atomic.Value // *exec or nil-holder

type holder struct{ x *exec }

func current() *exec {
	h, _ := cur.Load().(holder)
	return h.x
}

func goid() uint64 {
	var buf [64]byte
	n := runtime.Stack(buf[:], false)
	// "goroutine 123 ["
	var id uint64
	for i := len("goroutine "); i < n; i++ {
		c := buf[i]
		if c < '0' || c > '9' {
			break
		}
		id = id*10 + uint64(c-'0')
	}
	return id
}

// self returns the execution and controlled thread of the calling goroutine,
// or nil,nil for pass-through.
func self() (*exec, *thread) { return selfCount(true) }

// selfCount: count=false for race-oracle accesses, which are not operations
// the scheduler would have had to control (e.g. a finalizer reading a field).
func selfCount(count bool) (*exec, *thread) {
	x := current()
	if x == nil {
		return nil, nil
	}
	g := goid()
	x.mu.Lock()
	t := x.byGid[g]
	x.mu.Unlock()
	if t == nil && !count {
		return nil, nil
	}
	if t == nil {
		if atomic.AddInt64(&x.foreign, 1) == 1 && os.Getenv("VRT_DEBUG_FOREIGN") != "" {
			buf := make([]byte, 4096)
			os.Stderr.Write(buf[:runtime.Stack(buf, false)])
		}
		return nil, nil
	}
	return x, t
}

func mix(a uint64, b ...uint64) uint64 {
	h := a ^ 0x9e3779b97f4a7c15
	for _, v := range b {
		h ^= v
		h *= 0x100000001b3
		h ^= h >> 29
		h *= 0xbf58476d1ce4e5b9
		h ^= h >> 32
	}
	return h
}

func strHash(s string) uint64 {
	h := uint64(14695981039346656037)
	for i := 0; i < len(s); i++ {
		h ^= uint64(s[i])
		h *= 1099511628211
	}
	return h
}

// obj returns (creating if needed) the model object for key; called by the
// parking thread, label and initial hash are assigned at scheduling time.
func (x *exec) object(key, ref interface{}, kind string) *object {
	x.mu.Lock()
	o := x.objs[key]
	if o == nil {
		o = &object{key: key, ref: ref, kind: kind, label: -1}
		x.objs[key] = o
	}
	x.mu.Unlock()
	return o
}

func chanKey(ch reflect.Value) interface{} { return [2]uintptr{1, ch.Pointer()} }

func (x *exec) chanObj(ch reflect.Value) *object {
	if ch.IsNil() {
		return x.object("nilchan", nil, "chan")
	}
	return x.object(chanKey(ch), ch.Interface(), "chan")
}

// park publishes the pending operation of t and blocks until the scheduler
// releases it.  passInKill operations are performed even when the execution
// is being torn down (releases of real resources shared across executions).
func (x *exec) park(t *thread, o *op, passInKill bool) int {
	if atomic.LoadInt32(&x.killing) != 0 {
		if passInKill {
			return 0
		}
		runtime.Goexit()
	}
	x.mu.Lock()
	t.pend = o
	x.running--
	if x.running == 0 {
		select {
		case x.idle <- struct{}{}:
		default:
		}
	}
	x.mu.Unlock()
	<-t.wake
	if atomic.LoadInt32(&x.killing) != 0 {
		if passInKill {
			return 0
		}
		runtime.Goexit()
	}
	return t.answer
}

// ---------------------------------------------------------------- threads

// Spawn announces a new thread; the returned handle is passed to Begin by the
// new goroutine.
func Spawn() Handle {
	x, t := self()
	if x == nil {
		return Handle{}
	}
	child := &thread{wake: make(chan struct{}, 1), ended: make(chan struct{}), id: -1}
	x.park(t, &op{kind: opSpawn, target: child, pos: caller(2)}, false)
	return Handle{child}
}

// SpawnSym is Spawn for a go statement the instrumenter has shown to start
// interchangeable workers: a function literal without arguments inside a loop,
// none of whose free variables is declared inside that loop, so that every
// iteration starts the same code over the same environment.  tok identifies
// the loop instance.  With Config.Symmetry the children of one instance,
// spawned by one parent that did nothing in between but spawn and
// WaitGroup.Add (no acquire: every child starts with the same knowledge),
// get the same initial hash and their ids stay out of all hashes, so states
// that differ only by a permutation of such workers share a key.
func SpawnSym(tok *SymTok) Handle {
	x, t := self()
	if x == nil {
		return Handle{}
	}
	child := &thread{wake: make(chan struct{}, 1), ended: make(chan struct{}), id: -1}
	x.park(t, &op{kind: opSpawn, target: child, pos: caller(2), sym: tok}, false)
	return Handle{child}
}

// GoSym is Go for hand-written drivers and toys whose workers are interchangeable.
func GoSym(tok *SymTok, f func()) Handle {
	h := SpawnSym(tok)
	go func() {
		defer End(h)
		Begin(h)
		f()
	}()
	return h
}

// Begin is the first call of a spawned goroutine.
func Begin(h Handle) {
	x := current()
	if x == nil || h.t == nil {
		return
	}
	t := h.t
	x.mu.Lock()
	t.gid = goid()
	x.byGid[t.gid] = t
	x.mu.Unlock()
	x.park(t, &op{kind: opBegin}, false)
}

// End is deferred directly by a spawned goroutine (so that recover works).
func End(h Handle) {
	t := h.t
	if t == nil {
		return
	}
	x := current()
	if r := recover(); r != nil {
		t.panicV = r
		buf := make([]byte, 4096)
		buf = buf[:runtime.Stack(buf, false)]
		t.panicS = fmt.Sprintf("%v", r)
		_ = buf
	}
	if x == nil {
		return
	}
	x.mu.Lock()
	t.done = true
	t.pend = nil
	delete(x.byGid, t.gid)
	if atomic.LoadInt32(&x.killing) == 0 {
		x.running--
		if x.running == 0 {
			select {
			case x.idle <- struct{}{}:
			default:
			}
		}
	}
	x.mu.Unlock()
	close(t.ended)
}

// Go runs f as a new controlled thread (for hand-written drivers).
func Go(f func()) Handle {
	h := Spawn()
	go func() {
		defer End(h)
		Begin(h)
		f()
	}()
	return h
}

// Join blocks until the thread has ended.
func Join(h Handle) {
	x, t := self()
	if x == nil {
		if h.t != nil {
			<-h.t.ended
		}
		return
	}
	x.park(t, &op{kind: opJoin, target: h.t}, false)
}

// Yield is an explicit scheduling point (always enabled).
func Yield() {
	x, t := self()
	if x == nil {
		return
	}
	x.park(t, &op{kind: opYield}, false)
}

func caller(skip int) string {
	_, file, line, ok := runtime.Caller(skip)
	if !ok {
		return ""
	}
	for i := len(file) - 1; i >= 0; i-- {
		if file[i] == '/' {
			file = file[i+1:]
			break
		}
	}
	if t, ok := lineTables[file]; ok && line >= 0 && line < len(t) {
		line = int(t[line]) // a line of the instrumented file: report the line of the original
	}
	return fmt.Sprintf("%s:%d", file, line)
}

var lineTables = map[string][]int32{}

// RegisterLines is called by the instrumented package (a generated file): table[l] is the line of the
// original file that line l of the instrumented file file stands for.
func RegisterLines(file string, table []int32) { lineTables[file] = table }

// ---------------------------------------------------------------- channels

// Send performs ch <- v as a scheduling point.
func Send(ch interface{}, v interface{}) {
	rv := reflect.ValueOf(ch)
	val := reflect.ValueOf(v)
	if !val.IsValid() {
		val = reflect.Zero(rv.Type().Elem())
	}
	x, t := self()
	if x != nil {
		x.park(t, &op{kind: opSend, ch: rv, obj: x.chanObj(rv), pos: caller(2)}, false)
	}
	rv.Send(val)
}

// Recv is the scheduling point placed before a receive statement.
func Recv(ch interface{}) {
	x, t := self()
	if x == nil {
		return
	}
	rv := reflect.ValueOf(ch)
	x.park(t, &op{kind: opRecv, ch: rv, obj: x.chanObj(rv), pos: caller(2)}, false)
}

// Close performs close(ch) as a scheduling point.
func Close(ch interface{}) {
	rv := reflect.ValueOf(ch)
	x, t := self()
	if x != nil {
		x.park(t, &op{kind: opClose, ch: rv, obj: x.chanObj(rv), pos: caller(2)}, false)
	}
	rv.Close()
}

// Len performs len(ch) as a scheduling point.
func Len(ch interface{}) int {
	rv := reflect.ValueOf(ch)
	x, t := self()
	if x != nil {
		x.park(t, &op{kind: opLen, ch: rv, obj: x.chanObj(rv), pos: caller(2)}, false)
	}
	return rv.Len()
}

// Case describes one communication clause of a select.
type Case struct {
	send bool
	ch   interface{}
}

func CaseRecv(ch interface{}) Case { return Case{false, ch} }
func CaseSend(ch interface{}) Case { return Case{true, ch} }

// Select returns the index of the clause to execute, -1 for default.  The
// caller then performs the real communication, which cannot block.
func Select(hasDefault bool, cases ...Case) int {
	x, t := self()
	if x == nil {
		return passSelect(hasDefault, cases)
	}
	o := &op{kind: opSelect, hasDefault: hasDefault, pos: caller(2)}
	for _, c := range cases {
		rv := reflect.ValueOf(c.ch)
		o.cases = append(o.cases, selCase{send: c.send, ch: rv, obj: x.chanObj(rv)})
	}
	return x.park(t, o, false)
}

// passSelect is the uncontrolled fall-back: it must not consume a value, so it
// polls readiness.  Only used outside explorations (free-running tests).
func passSelect(hasDefault bool, cases []Case) int {
	for {
		for i, c := range cases {
			rv := reflect.ValueOf(c.ch)
			if rv.IsNil() {
				continue
			}
			if c.send {
				if rv.Len() < rv.Cap() {
					return i
				}
			} else if rv.Len() > 0 {
				return i
			}
		}
		if hasDefault {
			return -1
		}
		// Unbuffered or closed channels cannot be polled without consuming;
		// fall back to the first case (blocking), which is what a free-running
		// test of a one-case select would do.
		if len(cases) == 1 {
			return 0
		}
		runtime.Gosched()
	}
}

// ---------------------------------------------------------------- sync

func (x *exec) ptrObj(p interface{}, kind string) *object {
	return x.object([2]uintptr{2, reflect.ValueOf(p).Pointer()}, p, kind)
}

// ptrObjLocked is ptrObj for callers that hold x.mu.
func (x *exec) ptrObjLocked(p interface{}, kind string) *object {
	key := [2]uintptr{2, reflect.ValueOf(p).Pointer()}
	o := x.objs[key]
	if o == nil {
		o = &object{key: key, ref: p, kind: kind, label: -1}
		x.objs[key] = o
	}
	return o
}

func MutexLock(m *sync.Mutex) {
	if x, t := self(); x != nil {
		x.park(t, &op{kind: opLock, obj: x.ptrObj(m, "mutex"), pos: caller(2)}, false)
	}
	m.Lock()
}

func MutexUnlock(m *sync.Mutex) {
	if x, t := self(); x != nil {
		o := &op{kind: opUnlock, obj: x.ptrObj(m, "mutex"), pos: caller(2)}
		x.park(t, o, true)
		if o.bad {
			// the real call would end the process with a fatal error; here it is a verdict on this schedule
			panic("sync: unlock of unlocked mutex")
		}
	}
	m.Unlock()
}

func RWLock(m *sync.RWMutex) {
	if x, t := self(); x != nil {
		x.park(t, &op{kind: opLock, obj: x.ptrObj(m, "rwmutex"), pos: caller(2)}, false)
	}
	m.Lock()
}

func RWUnlock(m *sync.RWMutex) {
	if x, t := self(); x != nil {
		o := &op{kind: opUnlock, obj: x.ptrObj(m, "rwmutex"), pos: caller(2)}
		x.park(t, o, true)
		if o.bad {
			// the real call would end the process with a fatal error; here it is a verdict on this schedule
			panic("sync: unlock of unlocked mutex")
		}
	}
	m.Unlock()
}

func RWRLock(m *sync.RWMutex) {
	if x, t := self(); x != nil {
		x.park(t, &op{kind: opRLock, obj: x.ptrObj(m, "rwmutex"), pos: caller(2)}, false)
	}
	m.RLock()
}

func RWRUnlock(m *sync.RWMutex) {
	if x, t := self(); x != nil {
		o := &op{kind: opRUnlock, obj: x.ptrObj(m, "rwmutex"), pos: caller(2)}
		x.park(t, o, true)
		if o.bad {
			// the real call would end the process with a fatal error; here it is a verdict on this schedule
			panic("sync: unlock of unlocked mutex")
		}
	}
	m.RUnlock()
}

func WGAdd(w *sync.WaitGroup, n int) {
	if x, t := self(); x != nil {
		x.park(t, &op{kind: opWGAdd, obj: x.ptrObj(w, "waitgroup"), delta: n, pos: caller(2)}, true)
	}
	w.Add(n)
}

func WGDone(w *sync.WaitGroup) {
	if x, t := self(); x != nil {
		x.park(t, &op{kind: opWGAdd, obj: x.ptrObj(w, "waitgroup"), delta: -1, pos: caller(2)}, true)
	}
	w.Done()
}

func WGWait(w *sync.WaitGroup) {
	if x, t := self(); x != nil {
		x.park(t, &op{kind: opWGWait, obj: x.ptrObj(w, "waitgroup"), pos: caller(2)}, false)
	}
	w.Wait()
}

// OnceDo performs o.Do(f); a second caller is not enabled while f runs.
func OnceDo(o *sync.Once, f func()) {
	x, t := self()
	if x == nil {
		o.Do(f)
		return
	}
	ob := x.ptrObj(o, "once")
	x.park(t, &op{kind: opOnce, obj: ob, pos: caller(2)}, false)
	o.Do(func() {
		defer func() {
			x.mu.Lock()
			ob.onceSt = 2
			x.mu.Unlock()
		}()
		f()
	})
	// a Once that outlives the execution (a package-level table built on first use) has fired in an
	// earlier execution of this process, or before the exploration began: Do returns at once and the
	// function never runs here.  Either way the Once is done when Do has returned.
	x.mu.Lock()
	ob.onceSt = 2
	x.mu.Unlock()
}

// CondWait models c.Wait() without ever blocking in the real sync.Cond: release
// the locker and enqueue (always enabled), wait to be signalled, re-acquire.
// condLocker recognises the Locker of a sync.Cond: a *sync.Mutex, a *sync.RWMutex (write side) or the
// value returned by (*sync.RWMutex).RLocker() (read side; it is the RWMutex's own address under another
// type).  Anything else is not modelled and the real Cond is used.
func condLocker(c *sync.Cond) (p interface{}, kind string, read, ok bool) {
	switch l := c.L.(type) {
	case *sync.Mutex:
		return l, "mutex", false, true
	case *sync.RWMutex:
		return l, "rwmutex", false, true
	}
	if c.L != nil && reflect.TypeOf(c.L).String() == "*sync.rlocker" {
		return (*sync.RWMutex)(unsafe.Pointer(reflect.ValueOf(c.L).Pointer())), "rwmutex", true, true
	}
	return nil, "", false, false
}

func CondWait(c *sync.Cond) {
	x, t := self()
	lp, kind, read, ok := condLocker(c)
	if x == nil || !ok {
		c.Wait()
		return
	}
	ob := x.ptrObj(c, "cond")
	x.mu.Lock()
	ob.mutex = x.ptrObjLocked(lp, kind)
	ob.condRead = read
	x.mu.Unlock()
	pos := caller(2)
	x.park(t, &op{kind: opCondWait, obj: ob, pos: pos}, false)
	c.L.Unlock()
	x.park(t, &op{kind: opCondWake, obj: ob, pos: pos}, false)
	if read {
		x.park(t, &op{kind: opRLock, obj: ob.mutex, pos: pos}, false)
	} else {
		x.park(t, &op{kind: opLock, obj: ob.mutex, pos: pos}, false)
	}
	c.L.Lock()
}

func CondSignal(c *sync.Cond) {
	x, t := self()
	if _, _, _, ok := condLocker(c); x == nil || !ok {
		c.Signal()
		return
	}
	x.park(t, &op{kind: opCondSignal, obj: x.ptrObj(c, "cond"), pos: caller(2)}, false)
}

func CondBroadcast(c *sync.Cond) {
	x, t := self()
	if _, _, _, ok := condLocker(c); x == nil || !ok {
		c.Broadcast()
		return
	}
	x.park(t, &op{kind: opCondBroadcast, obj: x.ptrObj(c, "cond"), pos: caller(2)}, false)
}

// Atomic is the scheduling point placed before a sync/atomic operation on p.
func Atomic(p interface{}) {
	if x, t := self(); x != nil {
		x.park(t, &op{kind: opAtomic, obj: x.ptrObj(p, "atomic"), pos: caller(2)}, false)
	}
}

// PoolGet / PoolPut stand for (*sync.Pool).Get / Put.  The real Pool is nondeterministic by contract
// (per-P caches, items dropped by the collector); under the scheduler a pool is a per-execution stack
// that never drops - one of its legal behaviours, the one in which pooled state is actually reused -
// and each operation is a scheduling point on the pool.
func PoolGet(p *sync.Pool) interface{} {
	x, t := self()
	if x == nil {
		return p.Get()
	}
	x.park(t, &op{kind: opAtomic, obj: x.ptrObj(p, "pool"), pos: caller(2)}, false)
	x.mu.Lock()
	var v interface{}
	if items := x.pools[p]; len(items) > 0 {
		v = items[len(items)-1]
		x.pools[p] = items[:len(items)-1]
	}
	x.mu.Unlock()
	if v == nil && p.New != nil {
		v = p.New()
	}
	return v
}

func PoolPut(p *sync.Pool, v interface{}) {
	x, t := self()
	if x == nil {
		p.Put(v)
		return
	}
	x.park(t, &op{kind: opAtomic, obj: x.ptrObj(p, "pool"), pos: caller(2)}, false)
	if v == nil {
		return
	}
	x.mu.Lock()
	if x.pools == nil {
		x.pools = map[*sync.Pool][]interface{}{}
	}
	x.pools[p] = append(x.pools[p], v)
	x.mu.Unlock()
}

// ---------------------------------------------------------------- scheduling

type trans struct {
	t       *thread
	partner *thread
	tCase   int // select case of t (-2: not a select, -1: default)
	pCase   int
	fault   bool
}

func (x *exec) ensureLabel(o *object, by *thread) {
	if o != nil && o.label < 0 {
		o.label = x.nobj
		x.nobj++
		o.hash = mix(strHash(o.kind), by.hash, uint64(by.steps))
	}
}

func chanReady(send bool, ch reflect.Value, o *object) (ready bool, rendezvous bool) {
	if ch.IsNil() {
		return false, false
	}
	if o.closed {
		return true, false
	}
	c := ch.Cap()
	if c == 0 {
		return false, true
	}
	if send {
		return ch.Len() < c, false
	}
	return ch.Len() > 0, false
}

type offer struct {
	t    *thread
	cas  int
	send bool
	obj  *object
}

// enabled computes the enabled transitions in canonical order.
func (x *exec) enabled() []trans {
	live := make([]*thread, 0, len(x.threads))
	for _, t := range x.threads {
		if !t.done && t.pend != nil {
			live = append(live, t)
		}
	}
	// label objects deterministically (thread id order)
	for _, t := range live {
		o := t.pend
		x.ensureLabel(o.obj, t)
		if o.obj != nil && o.obj.mutex != nil {
			x.ensureLabel(o.obj.mutex, t)
		}
		for _, c := range o.cases {
			x.ensureLabel(c.obj, t)
		}
	}
	// canonical thread order: last-run thread first, then ascending ids
	order := make([]*thread, 0, len(live))
	if x.last != nil && !x.last.done && x.last.pend != nil {
		order = append(order, x.last)
	}
	for _, t := range live {
		if t != x.last {
			order = append(order, t)
		}
	}
	// rendezvous offers
	var offers []offer
	for _, t := range live {
		o := t.pend
		switch o.kind {
		case opSend, opRecv:
			if _, rv := chanReady(o.kind == opSend, o.ch, o.obj); rv {
				offers = append(offers, offer{t, -2, o.kind == opSend, o.obj})
			}
		case opSelect:
			for i, c := range o.cases {
				if _, rv := chanReady(c.send, c.ch, c.obj); rv {
					offers = append(offers, offer{t, i, c.send, c.obj})
				}
			}
		}
	}
	partners := func(t *thread, send bool, obj *object) []offer {
		var r []offer
		for _, of := range offers {
			if of.t != t && of.obj == obj && of.send != send {
				r = append(r, of)
			}
		}
		return r
	}
	var out []trans
	for _, t := range order {
		o := t.pend
		switch o.kind {
		case opBegin, opSpawn, opClose, opLen, opUnlock, opRUnlock, opWGAdd, opAtomic, opYield, opCondWait, opCondSignal, opCondBroadcast:
			out = append(out, trans{t: t, tCase: -2})
		case opCondWake:
			if t.signalled {
				out = append(out, trans{t: t, tCase: -2})
			}
		case opJoin:
			if o.target == nil || o.target.done {
				out = append(out, trans{t: t, tCase: -2})
			}
		case opSend, opRecv:
			ready, rv := chanReady(o.kind == opSend, o.ch, o.obj)
			if ready {
				out = append(out, trans{t: t, tCase: -2})
			} else if rv && o.kind == opSend { // rendezvous generated from the sender side
				for _, p := range partners(t, true, o.obj) {
					out = append(out, trans{t: t, partner: p.t, tCase: -2, pCase: p.cas})
				}
			}
		case opSelect:
			n := 0
			for i, c := range o.cases {
				ready, rv := chanReady(c.send, c.ch, c.obj)
				if ready {
					out = append(out, trans{t: t, tCase: i})
					n++
				} else if rv {
					ps := partners(t, c.send, c.obj)
					n += len(ps)
					if c.send {
						for _, p := range ps {
							out = append(out, trans{t: t, partner: p.t, tCase: i, pCase: p.cas})
						}
					} else {
						// receive side of a rendezvous whose sender is a plain send or a
						// select: generated from the sender side, except when the sender
						// is a select too (then the sender generates it as well) — so
						// nothing to add here.
					}
				}
			}
			if n == 0 && o.hasDefault {
				out = append(out, trans{t: t, tCase: -1})
			}
		case opLock:
			if o.obj.owner == nil && o.obj.readers == 0 {
				out = append(out, trans{t: t, tCase: -2})
			}
		case opRLock:
			if o.obj.owner == nil {
				out = append(out, trans{t: t, tCase: -2})
			}
		case opWGWait:
			if o.obj.counter == 0 {
				out = append(out, trans{t: t, tCase: -2})
			}
		case opOnce:
			if o.obj.onceSt != 1 || o.obj.onceBy == t {
				out = append(out, trans{t: t, tCase: -2})
			}
		case opIO:
			out = append(out, trans{t: t, tCase: -2})
			if o.faultable && x.faults < x.maxFault {
				out = append(out, trans{t: t, tCase: -2, fault: true})
			}
		}
	}
	return out
}

// childHash is the initial hash of the thread spawned by operation o of t.
// Children of one open symmetry class share it; commit opens a class.
func (x *exec) childHash(t *thread, o *op, commit bool) (uint64, bool) {
	if !x.ex.Cfg.Symmetry || o.sym == nil {
		return mix(t.hash, 0x5a, uint64(t.steps)), false
	}
	if t.symTok == o.sym && t.symClean {
		return mix(t.symBase, 0x5b), true
	}
	base := mix(t.hash, 0x5a, uint64(t.steps))
	if commit {
		t.symTok, t.symBase, t.symClean = o.sym, base, true
	}
	return mix(base, 0x5b), true
}

// tid is what stands for the thread's identity inside hashes.
func (x *exec) tid(t *thread) uint64 {
	if t.sym {
		return 0xfffff
	}
	return uint64(t.id)
}

// apply performs the bookkeeping of a transition and releases its thread(s).
func (x *exec) apply(tr trans) {
	t := tr.t
	o := t.pend
	if !(o.kind == opSpawn || o.kind == opWGAdd && o.delta > 0) {
		t.symClean = false
	}
	if tr.partner != nil {
		tr.partner.symClean = false
	}
	st := Step{Thread: t.id, Partner: -1, Op: o.kind.String(), Obj: -1, Pos: o.pos}
	obj := o.obj
	write := true
	ans := 0
	switch o.kind {
	case opBegin:
		t.started = true
	case opSpawn:
		c := o.target
		c.id = len(x.threads)
		c.hash, c.sym = x.childHash(t, o, true)
		c.vc = t.vc.clone()
		c.vc.tick(c.id)
		t.vc.tick(t.id) // what the parent does from here on is not ordered before the child
		x.threads = append(x.threads, c)
		x.running++ // the child runs until it parks in Begin
	case opJoin:
		if o.target != nil {
			t.hash = mix(t.hash, o.target.hash)
			t.vc.join(o.target.vc)
		}
	case opClose:
		if obj != nil {
			obj.closed = true
		}
	case opLen:
		write = false
	case opSelect:
		ans = tr.tCase
		st.Answer = tr.tCase
		if tr.tCase >= 0 {
			obj = o.cases[tr.tCase].obj
			if o.cases[tr.tCase].send {
				st.Op = "select-send"
			} else {
				st.Op = "select-recv"
			}
		} else {
			// default: a read of every channel of the select
			write = false
			h := t.hash
			for _, c := range o.cases {
				h = mix(h, c.obj.hash) // observing emptiness is a read (and not an HB edge in Go)
			}
			t.hash = mix(h, uint64(opSelect), 0xdef)
			obj = nil
			st.Op = "select-default"
		}
	case opLock:
		obj.owner = t
	case opUnlock:
		o.bad = obj.owner == nil
		obj.owner = nil
	case opRLock:
		obj.readers++
	case opRUnlock:
		if o.bad = obj.readers <= 0; !o.bad {
			obj.readers--
		}
	case opWGAdd:
		obj.counter += o.delta
		st.Answer = o.delta
	case opWGWait:
		write = false
	case opOnce:
		if obj.onceSt == 0 {
			obj.onceSt = 1
			obj.onceBy = t
		} else {
			write = false
		}
	case opCondWait:
		obj.waiters = append(obj.waiters, t)
		t.signalled = false
		if obj.mutex != nil {
			if obj.condRead {
				obj.mutex.readers--
			} else {
				obj.mutex.owner = nil
			}
			obj.mutex.vc.join(t.vc)
			obj.mutex.hash = mix(obj.mutex.hash, x.tid(t), t.hash)
		}
	case opCondWake:
		t.vc.join(t.sigVC)
		write = false
	case opCondSignal:
		if len(obj.waiters) > 0 {
			w := obj.waiters[0]
			obj.waiters = obj.waiters[1:]
			w.signalled = true
			w.sigVC = t.vc.clone()
		}
	case opCondBroadcast:
		for _, w := range obj.waiters {
			w.signalled = true
			w.sigVC = t.vc.clone()
		}
		obj.waiters = nil
	case opIO:
		st.Op = "io:" + o.label
		if tr.fault {
			ans = 1
			st.Answer = 1
			x.faults++
		}
	}
	t.steps++
	t.answer = ans
	// channel accesses for the race oracle (before the operation's own synchronisation)
	switch {
	case o.kind == opSend, o.kind == opSelect && tr.tCase >= 0 && o.cases[tr.tCase].send:
		x.chanAccess(t, obj, false, o.pos)
	case o.kind == opClose:
		x.chanAccess(t, obj, true, o.pos)
	}
	if tr.partner != nil {
		if po := tr.partner.pend; po.kind == opSend || (po.kind == opSelect && tr.pCase >= 0 && po.cases[tr.pCase].send) {
			x.chanAccess(tr.partner, obj, false, po.pos)
		}
	}
	if obj != nil {
		st.Obj = obj.label
		if tr.partner != nil {
			p := tr.partner
			po := p.pend
			hs, hr := t.hash, p.hash
			t.hash = mix(hs, uint64(o.kind), obj.hash, hr, uint64(ans+7))
			p.hash = mix(hr, uint64(po.kind), obj.hash, hs, uint64(tr.pCase+7))
			obj.hash = mix(obj.hash, t.hash, p.hash)
			p.steps++
			// unbuffered hand-off synchronises both ways
			t.vc.join(p.vc)
			p.vc.join(t.vc)
			t.vc.tick(t.id)
			p.vc.tick(p.id)
			st.Partner = p.id
			if po.kind == opSelect {
				p.answer = tr.pCase
			} else {
				p.answer = 0
			}
		} else {
			// a receive from a closed, drained channel observes the close but changes nothing
			if rc := o.ch; o.kind == opRecv && obj.closed && rc.IsValid() && !rc.IsNil() && rc.Len() == 0 {
				write = false
			}
			if o.kind == opSelect && tr.tCase >= 0 && !o.cases[tr.tCase].send && obj.closed && o.cases[tr.tCase].ch.Len() == 0 {
				write = false
			}
			if o.kind == opWGAdd {
				// the caller does not observe the counter, and decrements commute with each other
				// (increments are ordered against the decrements that precede them)
				t.hash = mix(t.hash, uint64(o.kind), uint64(int64(o.delta)+77))
				if o.delta < 0 {
					obj.neg += mix(0x51, t.hash)
				} else {
					obj.pos = mix(obj.pos, t.hash, obj.neg)
				}
				obj.hash = mix(obj.pos, obj.neg)
			} else {
				t.hash = mix(t.hash, uint64(o.kind), obj.hash, uint64(ans+7), strHash(o.label))
				if write {
					obj.hash = mix(obj.hash, x.tid(t), t.hash)
				}
			}
			x.vcSync(t, o, obj, write)
		}
	} else if o.kind != opSelect {
		t.hash = mix(t.hash, uint64(o.kind), uint64(ans+7))
	}
	x.trace = append(x.trace, st)
	x.last = t
	t.pend = nil
	x.running++
	if tr.partner != nil {
		tr.partner.pend = nil
		x.running++
	}
}

// release wakes the threads of a transition (after apply, outside x.mu).
func (x *exec) release(tr trans) {
	tr.t.wake <- struct{}{}
	if tr.partner != nil {
		tr.partner.wake <- struct{}{}
	}
}

// predictKey computes, without executing it, the state key that apply(tr)
// followed by stateKey() would produce.  The explorer uses it to drop
// alternatives that lead to an already visited state; every executed
// transition re-validates the prediction against the real key.
func (x *exec) predictKey(tr trans) (key uint64, last uint64) {
	t := tr.t
	o := t.pend
	th := t.hash
	var ph, child uint64
	hasChild, childSym := false, false
	obj := o.obj
	ans := 0
	switch o.kind {
	case opSpawn:
		child, childSym = x.childHash(t, o, false)
		hasChild = true
	case opJoin:
		if o.target != nil {
			th = mix(th, o.target.hash)
		}
	case opSelect:
		ans = tr.tCase
		if tr.tCase >= 0 {
			obj = o.cases[tr.tCase].obj
		} else {
			h := th
			for _, c := range o.cases {
				h = mix(h, c.obj.hash)
			}
			th = mix(h, uint64(opSelect), 0xdef)
			obj = nil
		}
	case opIO:
		if tr.fault {
			ans = 1
		}
	}
	if obj != nil {
		if tr.partner != nil {
			p := tr.partner
			hs, hr := th, p.hash
			th = mix(hs, uint64(o.kind), obj.hash, hr, uint64(ans+7))
			ph = mix(hr, uint64(p.pend.kind), obj.hash, hs, uint64(tr.pCase+7))
		} else if o.kind == opWGAdd {
			th = mix(th, uint64(o.kind), uint64(int64(o.delta)+77))
		} else {
			th = mix(th, uint64(o.kind), obj.hash, uint64(ans+7), strHash(o.label))
		}
	} else if o.kind != opSelect {
		th = mix(th, uint64(o.kind), uint64(ans+7))
	}
	hs := make([]uint64, 0, len(x.threads)+2)
	for _, u := range x.threads {
		d := uint64(0)
		if u.done {
			d = 1
		}
		h := u.hash
		switch u {
		case t:
			h = th
		case tr.partner:
			h = ph
		}
		hs = append(hs, mix(h, x.tid(u), d))
	}
	if hasChild {
		id := uint64(len(x.threads))
		if childSym {
			id = 0xfffff
		}
		hs = append(hs, mix(child, id, 0))
	}
	sort.Slice(hs, func(i, j int) bool { return hs[i] < hs[j] })
	faults := x.faults
	if tr.fault {
		faults++
	}
	last = uint64(t.id)
	if t.sym {
		last = th // an interchangeable worker is identified by what it has done
	}
	return mix(uint64(faults)<<8|uint64(len(hs)), hs...), last
}

// lastKey identifies the thread that moved last (part of the key when preemptions are bounded).
func (x *exec) lastKey() uint64 {
	if x.last.sym {
		return x.last.hash
	}
	return uint64(x.last.id)
}

// stateKey is the happens-before state: the multiset of thread histories.
func (x *exec) stateKey() uint64 {
	hs := make([]uint64, 0, len(x.threads)+2)
	for _, t := range x.threads {
		d := uint64(0)
		if t.done {
			d = 1
		}
		hs = append(hs, mix(t.hash, x.tid(t), d))
	}
	sort.Slice(hs, func(i, j int) bool { return hs[i] < hs[j] })
	return mix(uint64(x.faults)<<8|uint64(len(hs)), hs...)
}
