package vrt

import (
	"errors"
	"io"
	"io/ioutil"
	"os"
)

// ErrInjected is the distinct sentinel returned by a faulted I/O operation.
var ErrInjected = errors.New("vrt: injected I/O fault")

func (x *exec) fileObj(f *os.File) *object { return x.ptrObj(f, "file") }

// ioPoint is a scheduling point on obj with an environment answer.
func ioPoint(obj func(x *exec) *object, label string, faultable bool, pass bool) (fault bool) {
	x, t := self()
	if x == nil {
		return false
	}
	return x.park(t, &op{kind: opIO, obj: obj(x), label: label, faultable: faultable, pos: caller(3)}, pass) == 1
}

func dirObj(dir string) func(x *exec) *object {
	return func(x *exec) *object { return x.object("dir:"+dir, nil, "dir") }
}

// TempDir replaces ioutil.TempDir / os.MkdirTemp (not faulted: the property is
// about a sorter that exists).
func TempDir(dir, prefix string) (string, error) {
	d, err := ioutil.TempDir(dir, prefix)
	if x, _ := self(); x != nil && err == nil {
		x.mu.Lock()
		x.dirs = append(x.dirs, d)
		x.mu.Unlock()
	}
	return d, err
}

// TempFile replaces ioutil.TempFile / os.CreateTemp.
func TempFile(dir, prefix string) (*os.File, error) {
	if ioPoint(dirObj(dir), "create", true, false) {
		return nil, ErrInjected
	}
	f, err := ioutil.TempFile(dir, prefix)
	if x, _ := self(); x != nil && err == nil {
		x.mu.Lock()
		x.files = append(x.files, f)
		x.mu.Unlock()
	}
	return f, err
}

func fobj(f *os.File) func(x *exec) *object {
	return func(x *exec) *object { return x.fileObj(f) }
}

func FSync(f *os.File) error {
	if ioPoint(fobj(f), "sync", true, false) {
		return ErrInjected
	}
	return f.Sync()
}

func FSeek(f *os.File, off int64, whence int) (int64, error) {
	if ioPoint(fobj(f), "seek", true, false) {
		return 0, ErrInjected
	}
	return f.Seek(off, whence)
}

func FClose(f *os.File) error {
	ioPoint(fobj(f), "close", false, true)
	return f.Close()
}

func FRead(f *os.File, p []byte) (int, error) {
	if ioPoint(fobj(f), "read", true, false) {
		return 0, ErrInjected
	}
	return f.Read(p)
}

func FWrite(f *os.File, p []byte) (int, error) {
	if ioPoint(fobj(f), "write", true, false) {
		return 0, ErrInjected
	}
	return f.Write(p)
}

func Remove(name string) error {
	ioPoint(func(x *exec) *object { return x.object("path:"+name, nil, "path") }, "remove", false, true)
	return os.Remove(name)
}

func RemoveAll(name string) error {
	ioPoint(dirObj(name), "removeall", false, true)
	return os.RemoveAll(name)
}

type writer struct{ w io.Writer }

func (w writer) Write(p []byte) (int, error) {
	if f, ok := w.w.(*os.File); ok {
		return FWrite(f, p)
	}
	return w.w.Write(p)
}

type reader struct{ r io.Reader }

func (r reader) Read(p []byte) (int, error) {
	if f, ok := r.r.(*os.File); ok {
		return FRead(f, p)
	}
	return r.r.Read(p)
}

// W wraps the writer handed to an encoder so that each write is an I/O point.
func W(w io.Writer) io.Writer { return writer{w} }

// R wraps the reader handed to a decoder so that each read is an I/O point.
func R(r io.Reader) io.Reader { return reader{r} }
